import Morlock.Proofs.FenLex
/-!
# One rank of the placement field

`enc` is the run-length encoding `Encode` performs on a rank (a list of eight cells), `cellsOf` the
cursor decoding `Decode` performs on a rank string. They are mutually inverse on ranks of at most
eight cells resp. on rank strings with maximal digit runs, and `placements` on a rank string visits
exactly `piecesOf (cellsOf _)`.
-/
namespace Morlock.Proofs.Fen
open Morlock Morlock.Model Morlock.Model.Fen

/-- Content of a square. -/
abbrev Cell := Option (Color × Piece)

/-! ## The encoder of `fen.Encode`, rank by rank -/

/-- Loop body of `Encode` over one rank. -/
def rankStep (acc : String × Nat) (cell : Cell) : String × Nat :=
  match cell with
  | none => (acc.1, acc.2 + 1)
  | some (color, piece) =>
    ((if acc.2 > 0 then acc.1 ++ toString acc.2 else acc.1).push (printPiece color piece), 0)

/-- Trailing blanks of a rank. -/
def rankFlush (acc : String × Nat) : String := if acc.2 > 0 then acc.1 ++ toString acc.2 else acc.1

/-- The rank string `Encode` writes for eight cells (a-file first). -/
def rankStrOf (cells : List Cell) : String := rankFlush (cells.foldl rankStep ("", 0))

/-- The digits written for a run of `n` blanks (nothing for an empty run). -/
def runChars (n : Nat) : List Char := if n > 0 then (toString n).toList else []

/-- Run-length encoding of a rank, as a recursive function on the cells, `n` blanks pending. -/
def enc : Nat → List Cell → List Char
  | n, [] => runChars n
  | n, none :: cs => enc (n + 1) cs
  | n, some (c, k) :: cs => runChars n ++ printPiece c k :: enc 0 cs

theorem rankFlush_foldl (cells : List Cell) (s : String) (n : Nat) :
    (rankFlush (cells.foldl rankStep (s, n))).toList = s.toList ++ enc n cells := by
  induction cells generalizing s n with
  | nil =>
    simp only [List.foldl_nil, rankFlush, enc, runChars]
    by_cases h : n > 0 <;> simp [h]
  | cons cell cs ih =>
    cases cell with
    | none => simp only [List.foldl_cons, rankStep, enc]; exact ih _ _
    | some x =>
      obtain ⟨c, k⟩ := x
      simp only [List.foldl_cons, rankStep, enc, runChars]
      rw [ih]
      by_cases h : n > 0 <;> simp [h]

/-- (a) The rank string of `Encode` is the run-length encoding of the cells. -/
theorem rankStrOf_toList (cells : List Cell) : (rankStrOf cells).toList = enc 0 cells := by
  unfold rankStrOf; rw [rankFlush_foldl]; simp

/-! ## The decoder, rank by rank -/

/-- Cells described by a rank string: a digit `d` is `d` blanks, a letter is a piece. -/
def cellsOf : List Char → List Cell
  | [] => []
  | r :: rs =>
    if '1' ≤ r && r ≤ '8' then List.replicate (r.toNat - '0'.toNat) none ++ cellsOf rs
    else parsePiece r :: cellsOf rs

/-- The placements of a list of cells, the first cell on square `sq`, going down. -/
def piecesOf : Int → List Cell → List (Nat × Color × Piece)
  | _, [] => []
  | sq, none :: cs => piecesOf (sq - 1) cs
  | sq, some (c, k) :: cs => (sq.toNat, c, k) :: piecesOf (sq - 1) cs

/-- The characters of a rank string: digits `1`–`8` and the twelve piece letters. -/
def RankChars (rk : List Char) : Prop :=
  ∀ c ∈ rk, ('1' ≤ c && c ≤ '8') = true ∨ (parsePiece c).isSome = true

theorem piecesOf_replicate (d : Nat) (sq : Int) (cs : List Cell) :
    piecesOf sq (List.replicate d none ++ cs) = piecesOf (sq - d) cs := by
  induction d generalizing sq with
  | zero => simp
  | succ d ih =>
    rw [List.replicate_succ, List.cons_append, piecesOf, ih]
    congr 1; omega

theorem slash_not_rank18 : ('1' ≤ '/' && '/' ≤ '8') = false := by decide
theorem parsePiece_slash : parsePiece '/' = none := by decide

theorem ne_slash_of_rank18 {r : Char} (h : ('1' ≤ r && r ≤ '8') = true) : r ≠ '/' := by
  intro e; rw [e, slash_not_rank18] at h; cases h

theorem ne_slash_of_piece {r : Char} (h : (parsePiece r).isSome = true) : r ≠ '/' := by
  intro e; rw [e, parsePiece_slash] at h; cases h

/-- (b, one rank) The placement loop on a rank string places `piecesOf (cellsOf _)` and moves the
    cursor down by the width, provided the cursor does not run below `-1`. -/
theorem placements_rank (rk tl : List Char) (sq : Int) (acc : List (Nat × Color × Piece))
    (hc : RankChars rk) (hsq : -1 ≤ sq - ((cellsOf rk).length : Int)) :
    placements (rk ++ tl) sq acc =
      placements tl (sq - ((cellsOf rk).length : Int)) ((piecesOf sq (cellsOf rk)).reverse ++ acc) := by
  induction rk generalizing sq acc with
  | nil => simp [cellsOf, piecesOf]
  | cons r rs ih =>
    have hrs : RankChars rs := fun c h => hc c (List.mem_cons_of_mem _ h)
    by_cases hd : ('1' ≤ r && r ≤ '8') = true
    · have hne := ne_slash_of_rank18 hd
      simp only [cellsOf, hd, if_true, List.length_append, List.length_replicate] at hsq ⊢
      rw [List.cons_append, placements, if_neg hne, if_pos hd, ih _ _ hrs (by omega), piecesOf_replicate]
      congr 1; omega
    · have hp : (parsePiece r).isSome = true := by
        rcases hc r (List.mem_cons_self ..) with h | h
        · exact absurd h hd
        · exact h
      have hne := ne_slash_of_piece hp
      obtain ⟨⟨c, k⟩, hck⟩ := Option.isSome_iff_exists.mp hp
      have hcell : cellsOf (r :: rs) = some (c, k) :: cellsOf rs := by rw [cellsOf, if_neg hd, hck]
      rw [hcell] at hsq ⊢
      simp only [List.length_cons] at hsq ⊢
      have hneg : ¬ sq < 0 := by omega
      rw [List.cons_append, placements, if_neg hne, if_neg hd]
      simp only [hck, if_neg hneg, piecesOf]
      rw [ih _ _ hrs (by omega)]
      simp only [List.reverse_cons, List.append_assoc, List.singleton_append]
      congr 1; omega

/-! ## Digits of a run -/

theorem run_spec : ∀ n, n < 9 → n ≠ 0 →
    (toString n).toList = [Nat.digitChar n] ∧ ('1' ≤ Nat.digitChar n && Nat.digitChar n ≤ '8') = true ∧
      (Nat.digitChar n).toNat - '0'.toNat = n := by decide

theorem runChars_of_pos {n : Nat} (h0 : n ≠ 0) (h8 : n ≤ 8) : runChars n = [Nat.digitChar n] := by
  unfold runChars
  rw [if_pos (by omega), (run_spec n (by omega) h0).1]

theorem runChars_zero : runChars 0 = [] := rfl

/-- A digit `1`–`8` is the run string of its value. -/
theorem runChars_of_rank18 {c : Char} (h : ('1' ≤ c && c ≤ '8') = true) :
    runChars (c.toNat - '0'.toNat) = [c] ∧ c.toNat - '0'.toNat ≠ 0 ∧ c.toNat - '0'.toNat ≤ 8 := by
  rw [rank18_iff] at h
  have h48 : '0'.toNat = 48 := rfl
  have : c.toNat = 49 ∨ c.toNat = 50 ∨ c.toNat = 51 ∨ c.toNat = 52 ∨ c.toNat = 53 ∨ c.toNat = 54 ∨
      c.toNat = 55 ∨ c.toNat = 56 := by omega
  rcases this with e | e | e | e | e | e | e | e <;>
    (rw [char_eq_ofNat e]; decide)

theorem cellsOf_runChars_append {n : Nat} (h8 : n ≤ 8) (rest : List Char) :
    cellsOf (runChars n ++ rest) = List.replicate n none ++ cellsOf rest := by
  by_cases h0 : n = 0
  · subst h0; simp [runChars_zero]
  · obtain ⟨_, h2, h3⟩ := run_spec n (by omega) h0
    rw [runChars_of_pos h0 h8, List.singleton_append, cellsOf, if_pos h2, h3]

theorem rankChars_runChars {n : Nat} (h8 : n ≤ 8) : RankChars (runChars n) := by
  by_cases h0 : n = 0
  · subst h0; intro c hc; cases hc
  · rw [runChars_of_pos h0 h8]
    intro c hc
    rw [List.mem_singleton] at hc
    subst hc
    exact Or.inl (run_spec n (by omega) h0).2.1

/-! ## Piece letters -/

theorem printPiece_not_rank18 (c : Color) (k : Piece) :
    ('1' ≤ printPiece c k && printPiece c k ≤ '8') = false := by
  cases c <;> cases k <;> decide

theorem parsePiece_printPiece (c : Color) {k : Piece} (hk : k ≠ .none) :
    parsePiece (printPiece c k) = some (c, k) := by
  cases c <;> cases k <;> first | contradiction | decide

/-- Every accepted piece letter is the letter `printPiece` writes, and names a real piece. -/
theorem printPiece_parsePiece {r : Char} {c : Color} {k : Piece} (h : parsePiece r = some (c, k)) :
    printPiece c k = r ∧ k ≠ .none := by
  unfold parsePiece at h
  split at h <;> first
    | (cases h; exact ⟨rfl, by decide⟩)
    | cases h

theorem piece_not_rank18 {r : Char} (h : (parsePiece r).isSome = true) : ('1' ≤ r && r ≤ '8') = false := by
  obtain ⟨⟨c, k⟩, hck⟩ := Option.isSome_iff_exists.mp h
  rw [← (printPiece_parsePiece hck).1]; exact printPiece_not_rank18 c k

/-! ## `cellsOf ∘ enc = id` -/

/-- Cells hold real pieces. -/
def CellsWF (cells : List Cell) : Prop := ∀ c k, some (c, k) ∈ cells → k ≠ Piece.none

theorem CellsWF.tail {x : Cell} {cs : List Cell} (h : CellsWF (x :: cs)) : CellsWF cs :=
  fun c k hm => h c k (List.mem_cons_of_mem _ hm)

theorem cellsOf_enc (cells : List Cell) (n : Nat) (hwf : CellsWF cells) (hlen : n + cells.length ≤ 8) :
    cellsOf (enc n cells) = List.replicate n none ++ cells := by
  induction cells generalizing n with
  | nil =>
    have := cellsOf_runChars_append (n := n) (by simpa using hlen) []
    simpa [enc, cellsOf] using this
  | cons cell cs ih =>
    cases cell with
    | none =>
      rw [enc, ih (n + 1) hwf.tail (by simp at hlen ⊢; omega), List.replicate_succ']
      simp
    | some x =>
      obtain ⟨c, k⟩ := x
      have hk : k ≠ .none := hwf c k (List.mem_cons_self ..)
      rw [enc, cellsOf_runChars_append (by omega), cellsOf, printPiece_not_rank18,
        parsePiece_printPiece c hk, ih 0 hwf.tail (by simp at hlen ⊢; omega)]
      simp

theorem rankChars_enc (cells : List Cell) (n : Nat) (hwf : CellsWF cells) (hlen : n + cells.length ≤ 8) :
    RankChars (enc n cells) := by
  induction cells generalizing n with
  | nil => exact rankChars_runChars (by simpa using hlen)
  | cons cell cs ih =>
    cases cell with
    | none => rw [enc]; exact ih (n + 1) hwf.tail (by simp at hlen ⊢; omega)
    | some x =>
      obtain ⟨c, k⟩ := x
      have hk : k ≠ .none := hwf c k (List.mem_cons_self ..)
      rw [enc]
      intro ch hch
      rcases List.mem_append.mp hch with h | h
      · exact rankChars_runChars (by omega) ch h
      · rcases List.mem_cons.mp h with h | h
        · right; rw [h, parsePiece_printPiece c hk]; rfl
        · exact ih 0 hwf.tail (by simp at hlen ⊢; omega) ch h

/-! ## `enc ∘ cellsOf = id` on rank strings with maximal digit runs -/

/-- A rank string in the standard grammar: digits `1`–`8` and piece letters, no two digits
    adjacent (every run of blanks is written as one digit). -/
def canonRank : List Char → Bool
  | [] => true
  | c :: rest =>
    if '1' ≤ c && c ≤ '8' then
      (match rest with
       | [] => true
       | d :: _ => (parsePiece d).isSome) && canonRank rest
    else (parsePiece c).isSome && canonRank rest

theorem enc_replicate (d n : Nat) (cs : List Cell) :
    enc n (List.replicate d none ++ cs) = enc (n + d) cs := by
  induction d generalizing n with
  | zero => simp
  | succ d ih => rw [List.replicate_succ, List.cons_append, enc, ih]; congr 1; omega

theorem canonRank_chars {rk : List Char} (h : canonRank rk = true) : RankChars rk := by
  induction rk with
  | nil => intro c hc; cases hc
  | cons r rs ih =>
    unfold canonRank at h
    intro c hc
    by_cases hd : ('1' ≤ r && r ≤ '8') = true
    · rw [if_pos hd, Bool.and_eq_true] at h
      rcases List.mem_cons.mp hc with e | hc
      · exact Or.inl (e ▸ hd)
      · exact ih h.2 c hc
    · rw [if_neg hd, Bool.and_eq_true] at h
      rcases List.mem_cons.mp hc with e | hc
      · exact Or.inr (e ▸ h.1)
      · exact ih h.2 c hc

theorem enc_cellsOf (rk : List Char) (h : canonRank rk = true) : enc 0 (cellsOf rk) = rk := by
  induction rk with
  | nil => rfl
  | cons r rs ih =>
    unfold canonRank at h
    by_cases hd : ('1' ≤ r && r ≤ '8') = true
    · rw [if_pos hd, Bool.and_eq_true] at h
      obtain ⟨hrun, hne, h8⟩ := runChars_of_rank18 hd
      rw [cellsOf, if_pos hd, enc_replicate, Nat.zero_add]
      cases rs with
      | nil => simpa [cellsOf, enc] using hrun
      | cons e rs' =>
        have hp : (parsePiece e).isSome = true := h.1
        have he := piece_not_rank18 hp
        obtain ⟨⟨c, k⟩, hck⟩ := Option.isSome_iff_exists.mp hp
        have ih' := ih h.2
        rw [cellsOf, he] at ih' ⊢
        simp only [Bool.false_eq_true, if_false, hck, enc, runChars_zero, List.nil_append] at ih' ⊢
        rw [hrun, ih']; rfl
    · rw [if_neg hd, Bool.and_eq_true] at h
      obtain ⟨⟨c, k⟩, hck⟩ := Option.isSome_iff_exists.mp h.1
      rw [cellsOf, if_neg hd, hck, enc, runChars_zero, ih h.2, (printPiece_parsePiece hck).1]; rfl

theorem cellsOf_wf (rk : List Char) : CellsWF (cellsOf rk) := by
  induction rk with
  | nil => intro c k h; cases h
  | cons r rs ih =>
    intro c k hm
    unfold cellsOf at hm
    split at hm
    · rcases List.mem_append.mp hm with h | h
      · rw [List.mem_replicate] at h; cases h.2
      · exact ih c k h
    · rcases List.mem_cons.mp hm with h | h
      · exact (printPiece_parsePiece h.symm).2
      · exact ih c k h

end Morlock.Proofs.Fen
