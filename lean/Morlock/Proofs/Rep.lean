import Morlock.Proofs.RepBits
/-!
# The views invariant `Rep`

`Rep p b`: the bitboard position `p` (occupancy, per-colour sets, per-piece sets, three rotated
occupancies) represents the mailbox board `b`. All redundant views of `p` are pinned down by `b`.
-/
namespace Morlock.Proofs
open Morlock Morlock.Model

/-- A mailbox board: content of every square (squares ≥ 64 are always empty under `Rep`). -/
abbrev Board := Nat → Option (Color × Piece)

/-- Point update of a board. -/
def upd (b : Board) (sq : Nat) (v : Option (Color × Piece)) : Board :=
  fun s => if s = sq then v else b s

@[simp] theorem upd_same (b : Board) (sq : Nat) (v) : upd b sq v sq = v := by simp [upd]
theorem upd_other (b : Board) {sq s : Nat} (v) (h : s ≠ sq) : upd b sq v s = b s := by simp [upd, h]

theorem upd_comm (b : Board) {s1 s2 : Nat} (v1 v2) (h : s1 ≠ s2) :
    upd (upd b s1 v1) s2 v2 = upd (upd b s2 v2) s1 v1 := by
  funext s; simp only [upd]
  by_cases e1 : s = s1
  · subst e1; simp [h]
  · by_cases e2 : s = s2
    · subst e2; simp [e1]
    · simp [e1, e2]

/-- Is the square occupied by a piece of colour `c`? -/
def colAt (b : Board) (sq : Nat) (c : Color) : Bool :=
  match b sq with
  | some (c', _) => c' == c
  | none => false

def emptyBoard : Board := fun _ => none

/-! ## Table facts (the generated rotation tables are permutations of `0..63`) -/

theorem rot90_lt : ∀ sq, sq < 64 → Gen.rot90[sq]! < 64 := by decide +kernel
theorem rot45L_lt : ∀ sq, sq < 64 → Gen.rot45L[sq]! < 64 := by decide +kernel
theorem rot45R_lt : ∀ sq, sq < 64 → Gen.rot45R[sq]! < 64 := by decide +kernel
theorem rot90_inj : ∀ a, a < 64 → ∀ b, b < 64 → Gen.rot90[a]! = Gen.rot90[b]! → a = b := by decide +kernel
theorem rot45L_inj : ∀ a, a < 64 → ∀ b, b < 64 → Gen.rot45L[a]! = Gen.rot45L[b]! → a = b := by decide +kernel
theorem rot45R_inj : ∀ a, a < 64 → ∀ b, b < 64 → Gen.rot45R[a]! = Gen.rot45R[b]! → a = b := by decide +kernel

/-! ## The relation -/

/-- `Rep p b`: every view stored in `p` agrees with the mailbox board `b`. -/
structure Rep (p : Position) (b : Board) : Prop where
  /-- occupancy bit -/
  rot : ∀ sq, sq < 64 → p.rotated.rot.testBit sq = (b sq).isSome
  /-- per-colour bit -/
  all : ∀ c sq, sq < 64 → (p.pieces c .none).testBit sq = colAt b sq c
  /-- per-piece bits -/
  one : ∀ c k sq, k ≠ .none → sq < 64 → (p.pieces c k).testBit sq = decide (b sq = some (c, k))
  /-- the board never holds `NoPiece` -/
  wf : ∀ sq c, b sq ≠ some (c, .none)
  /-- nothing outside the 64 squares -/
  out : ∀ sq, 64 ≤ sq → b sq = none
  /-- no bits ≥ 64 anywhere -/
  piecesLt : ∀ c k, p.pieces c k < 2 ^ 64
  rotLt : p.rotated.rot < 2 ^ 64
  rot90Lt : p.rotated.rot90 < 2 ^ 64
  rot45LLt : p.rotated.rot45L < 2 ^ 64
  rot45RLt : p.rotated.rot45R < 2 ^ 64
  /-- the rotated occupancies are the table permutations of `rot` -/
  r90 : ∀ sq, sq < 64 → p.rotated.rot90.testBit (Gen.rot90[sq]!) = p.rotated.rot.testBit sq
  r45L : ∀ sq, sq < 64 → p.rotated.rot45L.testBit (Gen.rot45L[sq]!) = p.rotated.rot.testBit sq
  r45R : ∀ sq, sq < 64 → p.rotated.rot45R.testBit (Gen.rot45R[sq]!) = p.rotated.rot.testBit sq

/-! ## `xor` on the fields -/

theorem pieces_xor (p : Position) (sq : Nat) (c : Color) (k : Piece) (hk : k ≠ .none)
    (c' : Color) (k' : Piece) :
    (p.xor sq c k).pieces c' k' =
      if c' = c ∧ (k' = .none ∨ k' = k) then p.pieces c' k' ^^^ bitMask sq else p.pieces c' k' := by
  cases c <;> cases c' <;> cases k <;> cases k' <;>
    simp [Position.xor, Position.pieces, Position.side, Position.setSide, Side.get, Side.set] at hk ⊢

@[simp] theorem rotated_xor (p : Position) (sq : Nat) (c : Color) (k : Piece) :
    (p.xor sq c k).rotated = p.rotated.xor sq := by
  cases c <;> simp [Position.xor, Position.setSide]

@[simp] theorem castling_xor (p : Position) (sq : Nat) (c : Color) (k : Piece) :
    (p.xor sq c k).castling = p.castling := by
  cases c <;> simp [Position.xor, Position.setSide]

@[simp] theorem enpassant_xor (p : Position) (sq : Nat) (c : Color) (k : Piece) :
    (p.xor sq c k).enpassant = p.enpassant := by
  cases c <;> simp [Position.xor, Position.setSide]

/-- A rotated view stays the table permutation of `rot` when both are toggled at `sq`. -/
theorem rotView_xor (tbl : Array Nat)
    (hlt : ∀ sq, sq < 64 → tbl[sq]! < 64)
    (hinj : ∀ a, a < 64 → ∀ b, b < 64 → tbl[a]! = tbl[b]! → a = b)
    (rot rotX sq : Nat) (hsq : sq < 64)
    (h : ∀ s, s < 64 → rotX.testBit (tbl[s]!) = rot.testBit s) :
    ∀ s, s < 64 → (rotX ^^^ bitMask (tbl[sq]!)).testBit (tbl[s]!) = (rot ^^^ bitMask sq).testBit s := by
  intro s hs
  rw [testBit_xor_bitMask _ (hlt sq hsq), testBit_xor_bitMask _ hsq, h s hs]
  congr 1
  by_cases e : s = sq
  · simp [e]
  · have : tbl[s]! ≠ tbl[sq]! := fun c => e (hinj _ hs _ hsq c)
    simp [e, this]

/-- Core step: toggling `(c, k)` at `sq`, when `sq` is empty or holds exactly `(c, k)`. -/
theorem Rep.xor_toggle {p : Position} {b : Board} (h : Rep p b) {sq : Nat} (hsq : sq < 64)
    (c : Color) {k : Piece} (hk : k ≠ .none) (v' : Option (Color × Piece))
    (hv : (b sq = none ∧ v' = some (c, k)) ∨ (b sq = some (c, k) ∧ v' = none)) :
    Rep (p.xor sq c k) (upd b sq v') where
  rot := by
    intro s hs
    simp only [rotated_xor, Rotated.xor, testBit_xor_bitMask _ hsq, h.rot s hs, upd]
    by_cases e : s = sq
    · subst e; rcases hv with ⟨h1, h2⟩ | ⟨h1, h2⟩ <;> simp [h1, h2]
    · simp [e]
  all := by
    intro c' s hs
    rw [pieces_xor _ _ _ _ hk]
    by_cases e : s = sq
    · subst e
      by_cases ec : c' = c
      · subst ec
        rcases hv with ⟨h1, h2⟩ | ⟨h1, h2⟩ <;>
          simp [testBit_xor_bitMask _ hsq, h.all _ _ hs, colAt, h1, h2]
      · have hc : ¬ (c' = c ∧ (Piece.none = Piece.none ∨ Piece.none = k)) := fun x => ec x.1
        rw [if_neg hc, h.all _ _ hs]
        rcases hv with ⟨h1, h2⟩ | ⟨h1, h2⟩ <;> simp [colAt, h1, h2]
        · exact fun x => ec x.symm
        · exact fun x => ec x.symm
    · have : colAt (upd b sq v') s c' = colAt b s c' := by simp [colAt, upd, e]
      rw [this]
      split
      · rw [testBit_xor_bitMask _ hsq, h.all _ _ hs]; simp [e]
      · exact h.all _ _ hs
  one := by
    intro c' k' s hk' hs
    rw [pieces_xor _ _ _ _ hk]
    by_cases e : s = sq
    · subst e
      by_cases ec : c' = c ∧ k' = k
      · obtain ⟨rfl, rfl⟩ := ec
        rcases hv with ⟨h1, h2⟩ | ⟨h1, h2⟩ <;>
          simp [testBit_xor_bitMask _ hsq, h.one _ _ _ hk' hs, h1, h2]
      · have hc : ¬ (c' = c ∧ (k' = Piece.none ∨ k' = k)) := by
          intro ⟨a, bb⟩; rcases bb with bb | bb
          · exact hk' bb
          · exact ec ⟨a, bb⟩
        rw [if_neg hc, h.one _ _ _ hk' hs]
        rcases hv with ⟨h1, h2⟩ | ⟨h1, h2⟩ <;> simp [h1, h2]
        · intro a bb; exact ec ⟨a.symm, bb.symm⟩
        · intro a bb; exact ec ⟨a.symm, bb.symm⟩
    · have : upd b sq v' s = b s := upd_other b v' e
      rw [this]
      split
      · rw [testBit_xor_bitMask _ hsq, h.one _ _ _ hk' hs]; simp [e]
      · exact h.one _ _ _ hk' hs
  wf := by
    intro s c'
    simp only [upd]
    by_cases e : s = sq
    · subst e
      rcases hv with ⟨_, h2⟩ | ⟨_, h2⟩ <;> simp [h2]
      intro _; exact hk
    · simp [e]; exact h.wf s c'
  out := by
    intro s hs
    have e : s ≠ sq := by omega
    rw [upd_other b v' e]; exact h.out s hs
  piecesLt := by
    intro c' k'
    rw [pieces_xor _ _ _ _ hk]
    split
    · exact xor_bitMask_lt (h.piecesLt _ _) _
    · exact h.piecesLt _ _
  rotLt := by simp only [rotated_xor, Rotated.xor]; exact xor_bitMask_lt h.rotLt _
  rot90Lt := by simp only [rotated_xor, Rotated.xor]; exact xor_bitMask_lt h.rot90Lt _
  rot45LLt := by simp only [rotated_xor, Rotated.xor]; exact xor_bitMask_lt h.rot45LLt _
  rot45RLt := by simp only [rotated_xor, Rotated.xor]; exact xor_bitMask_lt h.rot45RLt _
  r90 := by
    simp only [rotated_xor, Rotated.xor]
    exact rotView_xor Gen.rot90 rot90_lt rot90_inj _ _ sq hsq h.r90
  r45L := by
    simp only [rotated_xor, Rotated.xor]
    exact rotView_xor Gen.rot45L rot45L_lt rot45L_inj _ _ sq hsq h.r45L
  r45R := by
    simp only [rotated_xor, Rotated.xor]
    exact rotView_xor Gen.rot45R rot45R_lt rot45R_inj _ _ sq hsq h.r45R

/-- `xor` on an empty square places the piece. -/
theorem Rep.xor_place {p : Position} {b : Board} (h : Rep p b) {sq : Nat} (hsq : sq < 64)
    (c : Color) {k : Piece} (hk : k ≠ .none) (hempty : b sq = none) :
    Rep (p.xor sq c k) (upd b sq (some (c, k))) :=
  h.xor_toggle hsq c hk _ (Or.inl ⟨hempty, rfl⟩)

/-- `xor` on a square holding exactly `(c, k)` removes the piece. -/
theorem Rep.xor_remove {p : Position} {b : Board} (h : Rep p b) {sq : Nat} {c : Color} {k : Piece}
    (hfull : b sq = some (c, k)) : Rep (p.xor sq c k) (upd b sq none) := by
  have hsq : sq < 64 := by
    apply Classical.byContradiction; intro hn
    have := h.out sq (by omega); rw [hfull] at this; cases this
  have hk : k ≠ .none := fun e => h.wf sq c (e ▸ hfull)
  exact h.xor_toggle hsq c hk _ (Or.inr ⟨hfull, rfl⟩)

/-! ## Reading the position back -/

theorem Rep.square_eq {p : Position} {b : Board} (h : Rep p b) (sq : Nat) : p.square sq = b sq := by
  by_cases hsq : sq < 64
  · unfold Position.square Position.isEmpty
    simp only [isSet_lt _ hsq, h.rot sq hsq]
    cases hb : b sq with
    | none => simp
    | some x =>
      obtain ⟨c, k⟩ := x
      have hk : k ≠ .none := fun e => h.wf sq c (e ▸ hb)
      have hone : ∀ c' k', k' ≠ Piece.none → (p.pieces c' k').testBit sq = decide (c = c' ∧ k = k') := by
        intro c' k' hk'; rw [h.one c' k' sq hk' hsq, hb]; simp
      cases c <;> cases k <;>
        simp [Position.piecesInOrder, List.find?, h.all _ _ hsq, hone, colAt, hb] at hk ⊢
  · have hsq' : 64 ≤ sq := by omega
    unfold Position.square Position.isEmpty
    simp [isSet_ge _ hsq', h.out sq hsq']

/-- The board is determined by the position: it is `p.square`. -/
theorem Rep.board_eq {p : Position} {b : Board} (h : Rep p b) : b = p.square :=
  funext fun sq => (h.square_eq sq).symm

theorem Rep.unique {p : Position} {b b' : Board} (h : Rep p b) (h' : Rep p b') : b = b' :=
  h.board_eq.trans h'.board_eq.symm

theorem Rep.isEmpty_eq {p : Position} {b : Board} (h : Rep p b) (sq : Nat) :
    p.isEmpty sq = (b sq).isNone := by
  unfold Position.isEmpty
  by_cases hsq : sq < 64
  · rw [isSet_lt _ hsq, h.rot sq hsq]; cases b sq <;> rfl
  · rw [isSet_ge _ (by omega), h.out sq (by omega)]; rfl

/-- Membership in a piece set. -/
theorem Rep.isSet_pieces {p : Position} {b : Board} (h : Rep p b) (c : Color) {k : Piece}
    (hk : k ≠ .none) (sq : Nat) : isSet (p.pieces c k) sq = decide (b sq = some (c, k)) := by
  by_cases hsq : sq < 64
  · rw [isSet_lt _ hsq, h.one c k sq hk hsq]
  · rw [isSet_ge _ (by omega), h.out sq (by omega)]; simp

/-- Membership in a colour set. -/
theorem Rep.isSet_all {p : Position} {b : Board} (h : Rep p b) (c : Color) (sq : Nat) :
    isSet (p.pieces c .none) sq = colAt b sq c := by
  by_cases hsq : sq < 64
  · rw [isSet_lt _ hsq, h.all c sq hsq]
  · rw [isSet_ge _ (by omega)]; simp [colAt, h.out sq (by omega)]

theorem Rep.lt_of_some {p : Position} {b : Board} (h : Rep p b) {sq : Nat} {x} (hb : b sq = some x) :
    sq < 64 := by
  apply Classical.byContradiction; intro hn
  have := h.out sq (by omega); rw [hb] at this; cases this

theorem Rep.ne_none_of_some {p : Position} {b : Board} (h : Rep p b) {sq : Nat} {c k}
    (hb : b sq = some (c, k)) : k ≠ .none := fun e => h.wf sq c (e ▸ hb)

/-! ## `newPosition` -/

/-- The board described by a placement list (later entries win; irrelevant when duplicate-free). -/
def placeAll (b : Board) : List (Nat × Color × Piece) → Board
  | [] => b
  | (sq, c, k) :: rest => placeAll (upd b sq (some (c, k))) rest

/-- Placements name real squares and real pieces. -/
def ValidPlacements (pl : List (Nat × Color × Piece)) : Prop :=
  ∀ x ∈ pl, x.1 < 64 ∧ x.2.2 ≠ Piece.none

theorem rep_empty (castling ep : Nat) :
    Rep { castling := castling, enpassant := ep } emptyBoard where
  rot := by intro sq _; simp [emptyBoard]
  all := by intro c sq _; cases c <;> simp [emptyBoard, colAt, Position.pieces, Position.side, Side.get]
  one := by
    intro c k sq _ _
    cases c <;> cases k <;> simp [emptyBoard, Position.pieces, Position.side, Side.get]
  wf := by intro sq c; simp [emptyBoard]
  out := by intro sq _; rfl
  piecesLt := by
    intro c k; cases c <;> cases k <;> simp [Position.pieces, Position.side, Side.get] <;> decide
  rotLt := by show (0:Nat) < 2 ^ 64; decide
  rot90Lt := by show (0:Nat) < 2 ^ 64; decide
  rot45LLt := by show (0:Nat) < 2 ^ 64; decide
  rot45RLt := by show (0:Nat) < 2 ^ 64; decide
  r90 := by intro sq _; simp
  r45L := by intro sq _; simp
  r45R := by intro sq _; simp

theorem placementsXor_rep {pl : List (Nat × Color × Piece)} :
    ∀ {p p' : Position} {b : Board}, Rep p b → ValidPlacements pl →
      Position.placementsXor p pl = some p' →
      Rep p' (placeAll b pl) ∧ p'.castling = p.castling ∧ p'.enpassant = p.enpassant := by
  induction pl with
  | nil => intro p p' b h _ hp; simp [Position.placementsXor] at hp; subst hp; exact ⟨h, rfl, rfl⟩
  | cons x rest ih =>
    intro p p' b h hv hp
    obtain ⟨sq, c, k⟩ := x
    have hx := hv (sq, c, k) (List.mem_cons_self ..)
    simp only [Position.placementsXor] at hp
    split at hp
    · cases hp
    · rename_i he
      have hempty : b sq = none := by
        have := h.isEmpty_eq sq
        cases hb : b sq with
        | none => rfl
        | some _ => rw [hb] at this; simp [this] at he
      have h1 := h.xor_place hx.1 c hx.2 hempty
      have := ih h1 (fun y hy => hv y (List.mem_cons_of_mem _ hy)) hp
      simpa [placeAll] using this

/-- `NewPosition` of a (necessarily duplicate-free) valid placement list represents the board
    that has exactly the listed pieces. -/
theorem newPosition_rep {pl : List (Nat × Color × Piece)} {castling ep : Nat} {p : Position}
    (hv : ValidPlacements pl) (hp : Position.newPosition pl castling ep = some p) :
    Rep p (placeAll emptyBoard pl) ∧ p.castling = castling ∧ p.enpassant = ep :=
  placementsXor_rep (rep_empty castling ep) hv hp

theorem placeAll_not_mem {pl : List (Nat × Color × Piece)} :
    ∀ {b : Board} {sq : Nat}, sq ∉ pl.map (·.1) → placeAll b pl sq = b sq := by
  induction pl with
  | nil => intros; rfl
  | cons x rest ih =>
    intro b sq hn
    obtain ⟨s, c, k⟩ := x
    simp only [List.map_cons, List.mem_cons, not_or] at hn
    rw [placeAll, ih hn.2, upd_other _ _ hn.1]

theorem placeAll_mem {pl : List (Nat × Color × Piece)} :
    ∀ {b : Board} {sq : Nat} {c k}, (pl.map (·.1)).Nodup → (sq, c, k) ∈ pl →
      placeAll b pl sq = some (c, k) := by
  induction pl with
  | nil => intro _ _ _ _ _ hm; cases hm
  | cons x rest ih =>
    intro b sq c k hnd hm
    obtain ⟨s, c', k'⟩ := x
    simp only [List.map_cons, List.nodup_cons] at hnd
    rcases List.mem_cons.mp hm with e | hm'
    · cases e
      rw [placeAll, placeAll_not_mem hnd.1, upd_same]
    · rw [placeAll]; exact ih hnd.2 hm'

theorem placementsXor_isSome {pl : List (Nat × Color × Piece)} :
    ∀ {p : Position} {b : Board}, Rep p b → ValidPlacements pl →
      ((Position.placementsXor p pl).isSome ↔
        ((∀ x ∈ pl, b x.1 = none) ∧ (pl.map (·.1)).Nodup)) := by
  induction pl with
  | nil => intro p b _ _; simp [Position.placementsXor]
  | cons x rest ih =>
    intro p b h hv
    obtain ⟨sq, c, k⟩ := x
    have hx := hv (sq, c, k) (List.mem_cons_self ..)
    have hv' : ValidPlacements rest := fun y hy => hv y (List.mem_cons_of_mem _ hy)
    simp only [Position.placementsXor, h.isEmpty_eq]
    cases hb : b sq with
    | some y => simp [hb]
    | none =>
      have h1 := h.xor_place hx.1 c hx.2 hb
      simp only [Option.isNone_none, Bool.not_true, Bool.false_eq_true, if_false, ih h1 hv']
      simp only [List.mem_cons, forall_eq_or_imp, hb, true_and, List.map_cons, List.nodup_cons]
      constructor
      · intro ⟨ha, hn⟩
        have hns : sq ∉ rest.map (·.1) := by
          intro hm
          obtain ⟨y, hy, e⟩ := List.mem_map.mp hm
          have := ha y hy
          rw [e, upd_same] at this; cases this
        refine ⟨fun y hy => ?_, hns, hn⟩
        have := ha y hy
        have hne : y.1 ≠ sq := fun e => hns (List.mem_map.mpr ⟨y, hy, e⟩)
        rwa [upd_other _ _ hne] at this
      · intro ⟨ha, hns, hn⟩
        refine ⟨fun y hy => ?_, hn⟩
        have hne : y.1 ≠ sq := fun e => hns (List.mem_map.mpr ⟨y, hy, e⟩)
        rw [upd_other _ _ hne]; exact ha y hy

/-- `NewPosition` succeeds exactly on duplicate-free lists. -/
theorem newPosition_isSome_iff {pl : List (Nat × Color × Piece)} (castling ep : Nat)
    (hv : ValidPlacements pl) :
    (Position.newPosition pl castling ep).isSome ↔ (pl.map (·.1)).Nodup := by
  unfold Position.newPosition
  rw [placementsXor_isSome (rep_empty castling ep) hv]
  simp [emptyBoard]

/-! ## `Rep` determines every view -/

theorem rot90_surj : ∀ i, i < 64 → ∃ sq, sq < 64 ∧ Gen.rot90[sq]! = i := by decide +kernel
theorem rot45L_surj : ∀ i, i < 64 → ∃ sq, sq < 64 ∧ Gen.rot45L[sq]! = i := by decide +kernel
theorem rot45R_surj : ∀ i, i < 64 → ∃ sq, sq < 64 ∧ Gen.rot45R[sq]! = i := by decide +kernel

theorem testBit_high {x i : Nat} (hx : x < 2 ^ 64) (hi : 64 ≤ i) : x.testBit i = false :=
  Nat.testBit_lt_two_pow (Nat.lt_of_lt_of_le hx (Nat.pow_le_pow_right (by decide : 2 > 0) hi))

theorem eq_of_low_bits {x y : Nat} (hx : x < 2 ^ 64) (hy : y < 2 ^ 64)
    (h : ∀ i, i < 64 → x.testBit i = y.testBit i) : x = y := by
  apply Nat.eq_of_testBit_eq
  intro i
  by_cases hi : i < 64
  · exact h i hi
  · rw [testBit_high hx (by omega), testBit_high hy (by omega)]

theorem Side.ext_get {s t : Side} (h : ∀ k, s.get k = t.get k) : s = t := by
  have h0 := h .none; have h1 := h .pawn; have h2 := h .bishop; have h3 := h .knight
  have h4 := h .rook; have h5 := h .queen; have h6 := h .king
  cases s; cases t
  simp only [Side.get] at h0 h1 h2 h3 h4 h5 h6
  simp [h0, h1, h2, h3, h4, h5, h6]

/-- `Rep` pins down every stored view: two positions representing the same board have identical
    piece sets and rotated occupancies (they can differ only in castling rights / en-passant). -/
theorem Rep.views_eq {p q : Position} {b : Board} (hp : Rep p b) (hq : Rep q b) :
    p.white = q.white ∧ p.black = q.black ∧ p.rotated = q.rotated := by
  have hpieces : ∀ c k, p.pieces c k = q.pieces c k := by
    intro c k
    apply eq_of_low_bits (hp.piecesLt c k) (hq.piecesLt c k)
    intro i hi
    by_cases hk : k = .none
    · subst hk; rw [hp.all c i hi, hq.all c i hi]
    · rw [hp.one c k i hk hi, hq.one c k i hk hi]
  have hrot : p.rotated.rot = q.rotated.rot :=
    eq_of_low_bits hp.rotLt hq.rotLt fun i hi => by rw [hp.rot i hi, hq.rot i hi]
  refine ⟨Side.ext_get (hpieces .white), Side.ext_get (hpieces .black), ?_⟩
  have h90 : p.rotated.rot90 = q.rotated.rot90 :=
    eq_of_low_bits hp.rot90Lt hq.rot90Lt fun i hi => by
      obtain ⟨sq, hsq, e⟩ := rot90_surj i hi
      rw [← e, hp.r90 sq hsq, hq.r90 sq hsq, hrot]
  have h45L : p.rotated.rot45L = q.rotated.rot45L :=
    eq_of_low_bits hp.rot45LLt hq.rot45LLt fun i hi => by
      obtain ⟨sq, hsq, e⟩ := rot45L_surj i hi
      rw [← e, hp.r45L sq hsq, hq.r45L sq hsq, hrot]
  have h45R : p.rotated.rot45R = q.rotated.rot45R :=
    eq_of_low_bits hp.rot45RLt hq.rot45RLt fun i hi => by
      obtain ⟨sq, hsq, e⟩ := rot45R_surj i hi
      rw [← e, hp.r45R sq hsq, hq.r45R sq hsq, hrot]
  cases hr : p.rotated; cases hr' : q.rotated
  simp only [hr, hr'] at hrot h90 h45L h45R
  simp [hrot, h90, h45L, h45R]

end Morlock.Proofs
