import Morlock.Proofs.BernsteinMirror
/-!
# A bit-level mirror relation for positions that need not represent a board

After a phantom en-passant capture (`Props/C20Bernstein`, defect 1) the position `Position.Move` tests for check is not the
image of any mailbox board (a pawn of each colour on one square, which the occupancy says is empty). `BitMir X X'` relates two such
positions bit by bit — rank-reversed, colours swapped — and is enough for the attack queries: they only look at the piece sets of
one colour and at the (consistent) rotated occupancy.
-/
namespace Morlock.Proofs.Bernstein
open Morlock Morlock.Model Morlock.Proofs.Gen Morlock.Proofs.Attack Morlock.Proofs.Mirror

/-- officer attack boards under the rotated-bitboard invariant alone -/
theorem attackboard_of_inv {r : Rotated} (h : RotInv r.rot r) {fr : Nat} (hfr : fr < 64)
    {piece : Piece} (hp : piece ≠ .none) (hpw : piece ≠ .pawn) :
    attackboard r fr piece = some (toBB (Spec.officerTargets (fun s => r.rot.testBit s) (kindOf piece) fr)) := by
  cases piece <;> simp only [attackboard, kindOf, ne_eq, not_true_eq_false] at hp hpw ⊢
  · rw [bishop_of_inv h hfr]
  · rw [knight_of_lt _ hfr]
  · rw [rook_of_inv h hfr]
  · rw [queen_of_inv h hfr]
  · rw [king_of_lt _ hfr]

/-- `sq` is attacked by a `(c, k)` bit of `X` -/
def AttBits (X : Position) (c : Color) (k : Piece) (sq : Nat) : Prop :=
  ∃ s, s < 64 ∧ (X.pieces c k).testBit s = true ∧
    if k = .pawn then sq ∈ Spec.pawnTargets (absColor c) s
    else sq ∈ Spec.officerTargets (fun x => X.rotated.rot.testBit x) (kindOf k) s

/-- the consistency `IsAttackedBy` needs: rotated boards agree with the occupancy, no bits above 63 -/
structure BitOK (X : Position) : Prop where
  inv : RotInv X.rotated.rot X.rotated
  lt : ∀ c k, X.pieces c k < 2 ^ 64

theorem BitOK.of_rep {p : Position} {b : Board} (h : Rep p b) : BitOK p := ⟨h.rotInv, h.piecesLt⟩

theorem isAttackedBy_iff_bits {X : Position} (h : BitOK X) (c : Color) {sq : Nat} (hsq : sq < 64)
    (list : List Piece) (hl : ∀ k ∈ list, k ≠ .none) :
    X.isAttackedBy c sq list = true ↔ ∃ k ∈ list, AttBits X c.opp k sq := by
  unfold Position.isAttackedBy
  simp only [List.any_eq_true]
  have hpawn : ((pawnCaptureboard c.opp (X.pieces c.opp .pawn) &&& bitMask sq) != 0) = true ↔ AttBits X c.opp .pawn sq := by
    rw [Attack.bitMask_eq hsq, and_two_pow_ne_zero, pawnSet_testBit c.opp _ sq (h.lt c.opp .pawn)]
    unfold AttBits
    simp only [if_true]
  have hoff : ∀ piece, piece ≠ .none → piece ≠ .pawn →
      ((X.pieces c.opp piece != 0 && ((attackboard X.rotated sq piece).getD 0 &&& X.pieces c.opp piece) != 0) = true ↔
        AttBits X c.opp piece sq) := by
    intro piece hp hpw
    rw [attackboard_of_inv h.inv hsq hp hpw, Option.getD_some, Bool.and_eq_true, and_ne_zero_iff]
    simp only [testBit_toBB]
    unfold AttBits
    simp only [if_neg hpw]
    constructor
    · rintro ⟨_, t, ht, hbit⟩
      have ht64 := officerTargets_lt _ _ _ _ ht
      exact ⟨t, ht64, hbit, officerTargets_symm hsq ht⟩
    · rintro ⟨s, hs, hbit, hm⟩
      refine ⟨?_, s, officerTargets_symm hs hm, hbit⟩
      rw [bne_iff_ne]
      intro e; rw [e] at hbit; simp at hbit
  constructor
  · rintro ⟨k, hk, ht⟩
    refine ⟨k, hk, ?_⟩
    by_cases hp : k = .pawn
    · subst hp
      simp only [if_true] at ht
      exact hpawn.mp ht
    · rw [if_neg hp] at ht
      exact (hoff k (hl k hk) hp).mp ht
  · rintro ⟨k, hk, ha⟩
    refine ⟨k, hk, ?_⟩
    by_cases hp : k = .pawn
    · subst hp
      simp only [if_true]
      exact hpawn.mpr ha
    · rw [if_neg hp]
      exact (hoff k (hl k hk) hp).mpr ha

/-- `X'` is, bit by bit, the rank-reversed and colour-swapped image of `X` -/
structure BitMir (X X' : Position) : Prop where
  ok : BitOK X
  ok' : BitOK X'
  rot : ∀ s, s < 64 → X'.rotated.rot.testBit (Spec.mirrorSq s) = X.rotated.rot.testBit s
  pcs : ∀ c k s, s < 64 → (X'.pieces c.opp k).testBit (Spec.mirrorSq s) = (X.pieces c k).testBit s

theorem BitMir.symm {X X' : Position} (h : BitMir X X') : BitMir X' X where
  ok := h.ok'
  ok' := h.ok
  rot := by
    intro s hs
    have := h.rot (Spec.mirrorSq s) (Spec.mirrorSq_lt hs)
    rw [Spec.mirrorSq_mirrorSq] at this
    exact this.symm
  pcs := by
    intro c k s hs
    have := h.pcs c.opp k (Spec.mirrorSq s) (Spec.mirrorSq_lt hs)
    rw [Spec.mirrorSq_mirrorSq, opp_opp] at this
    exact this.symm

theorem BitMir.of_rep {p q : Position} {b : Board} (hp : Rep p b) (hq : Rep q (mirrorBoard b)) : BitMir p q where
  ok := BitOK.of_rep hp
  ok' := BitOK.of_rep hq
  rot := by
    intro s hs
    rw [hq.rot _ (Spec.mirrorSq_lt hs), hp.rot s hs, mirrorBoard_mirrorSq]
    cases b s <;> rfl
  pcs := by
    intro c k s hs
    by_cases hk : k = .none
    · subst hk
      rw [hq.all _ _ (Spec.mirrorSq_lt hs), hp.all c s hs]
      unfold colAt
      rw [mirrorBoard_mirrorSq]
      cases hb : b s with
      | none => rfl
      | some v => obtain ⟨c', k'⟩ := v; cases c <;> cases c' <;> rfl
    · rw [hq.one _ _ _ hk (Spec.mirrorSq_lt hs), hp.one c k s hk hs]
      apply decide_eq_decide.mpr
      rw [mirrorBoard_some_iff, Spec.mirrorSq_mirrorSq, opp_opp]

theorem attBits_mirror_imp {X X' : Position} (h : BitMir X X') {c : Color} {k : Piece} {sq : Nat}
    (ha : AttBits X c k sq) : AttBits X' c.opp k (Spec.mirrorSq sq) := by
  obtain ⟨s, hs, hbit, hm⟩ := ha
  refine ⟨Spec.mirrorSq s, Spec.mirrorSq_lt hs, by rw [h.pcs c k s hs]; exact hbit, ?_⟩
  by_cases hk : k = .pawn
  · rw [if_pos hk] at hm ⊢
    rw [absColor_opp]
    exact Spec.mem_pawnTargets_mirror _ hs hm
  · rw [if_neg hk] at hm ⊢
    exact Spec.mem_officerTargets_mirror (fun t ht => h.rot t ht) _ hs hm

theorem attBits_mirror {X X' : Position} (h : BitMir X X') (c : Color) (k : Piece) (sq : Nat) :
    AttBits X' c.opp k (Spec.mirrorSq sq) ↔ AttBits X c k sq := by
  constructor
  · intro ha
    have := attBits_mirror_imp h.symm ha
    rwa [opp_opp, Spec.mirrorSq_mirrorSq] at this
  · exact attBits_mirror_imp h

theorem isAttackedBy_bitMir {X X' : Position} (h : BitMir X X') (c : Color) {sq : Nat} (hsq : sq < 64)
    (list : List Piece) (hl : ∀ k ∈ list, k ≠ .none) :
    X'.isAttackedBy c.opp (Spec.mirrorSq sq) list = X.isAttackedBy c sq list := by
  rw [Bool.eq_iff_iff, isAttackedBy_iff_bits h.ok' c.opp (Spec.mirrorSq_lt hsq) list hl,
    isAttackedBy_iff_bits h.ok c hsq list hl]
  constructor
  · rintro ⟨k, hk, ha⟩; exact ⟨k, hk, (attBits_mirror h c.opp k sq).mp ha⟩
  · rintro ⟨k, hk, ha⟩; exact ⟨k, hk, (attBits_mirror h c.opp k sq).mpr ha⟩

/-- at most one bit in the king set of colour `c` -/
def OneKingBit (X : Position) (c : Color) : Prop :=
  ∀ s1 s2, (X.pieces c .king).testBit s1 = true → (X.pieces c .king).testBit s2 = true → s1 = s2

/-- **`IsChecked` under the bit-level mirror** -/
theorem isChecked_bitMir {X X' : Position} (h : BitMir X X') {c : Color} (hu : OneKingBit X c) :
    X'.isChecked c.opp = X.isChecked c := by
  unfold Position.isChecked
  by_cases h0 : X.pieces c .king = 0
  · have h0' : X'.pieces c.opp .king = 0 := by
      apply eq_zero_of_no_bits
      intro i
      by_cases hi : i < 64
      · have := h.pcs c .king (Spec.mirrorSq i) (Spec.mirrorSq_lt hi)
        rw [Spec.mirrorSq_mirrorSq, h0] at this
        simpa using this
      · exact testBit_high (h.ok'.lt _ _) (by omega)
    rw [h0, h0']
    have : lastPopSquare 0 = 64 := rfl
    simp [this]
  · obtain ⟨h64, hbit, _⟩ := lastPopSquare_spec h0 (h.ok.lt c .king)
    have hbit' : (X'.pieces c.opp .king).testBit (Spec.mirrorSq (lastPopSquare (X.pieces c .king))) = true := by
      rw [h.pcs c .king _ h64]; exact hbit
    have h0' : X'.pieces c.opp .king ≠ 0 := by
      intro e; rw [e] at hbit'; simp at hbit'
    obtain ⟨h64', hb2, _⟩ := lastPopSquare_spec h0' (h.ok'.lt _ _)
    have hks : lastPopSquare (X'.pieces c.opp .king) = Spec.mirrorSq (lastPopSquare (X.pieces c .king)) := by
      have := h.pcs c .king (Spec.mirrorSq (lastPopSquare (X'.pieces c.opp .king))) (Spec.mirrorSq_lt h64')
      rw [Spec.mirrorSq_mirrorSq, hb2] at this
      have e := hu _ _ this.symm hbit
      rw [← e, Spec.mirrorSq_mirrorSq]
    have hne : (lastPopSquare (X.pieces c .king) != 64) = true := by rw [bne_iff_ne]; omega
    have hne' : (lastPopSquare (X'.pieces c.opp .king) != 64) = true := by rw [bne_iff_ne]; omega
    simp only [hne, hne', if_true]
    rw [hks]
    exact isAttackedBy_bitMir h c h64 _ allPieces_ne_none

/-! ## `xor` and the status fields keep the relation -/

theorem BitOK.xor {X : Position} (h : BitOK X) {sq : Nat} (hsq : sq < 64) (c : Color) {k : Piece} (hk : k ≠ .none) :
    BitOK (X.xor sq c k) where
  inv := by
    rw [rotated_xor]
    have := xor_inv hsq h.inv
    have e : (X.rotated.xor sq).rot = X.rotated.rot ^^^ bitMask sq := rfl
    rw [e]; exact this
  lt := by
    intro c' k'
    rw [pieces_xor _ _ _ _ hk]
    split
    · exact Nat.xor_lt_two_pow (h.lt c' k') (Attack.bitMask_lt hsq)
    · exact h.lt c' k'

theorem BitMir.xor {X X' : Position} (h : BitMir X X') {sq : Nat} (hsq : sq < 64) (c : Color) {k : Piece}
    (hk : k ≠ .none) : BitMir (X.xor sq c k) (X'.xor (Spec.mirrorSq sq) c.opp k) where
  ok := h.ok.xor hsq c hk
  ok' := h.ok'.xor (Spec.mirrorSq_lt hsq) c.opp hk
  rot := by
    intro s hs
    rw [rotated_xor, rotated_xor]
    show (X'.rotated.rot ^^^ bitMask (Spec.mirrorSq sq)).testBit (Spec.mirrorSq s) = (X.rotated.rot ^^^ bitMask sq).testBit s
    rw [xor_bitMask_testBit _ _ (Spec.mirrorSq_lt hsq), xor_bitMask_testBit _ _ hsq, h.rot s hs]
    congr 1
    apply decide_eq_decide.mpr
    constructor
    · exact fun e => Spec.mirrorSq_inj e
    · exact fun e => by rw [e]
  pcs := by
    intro c' k' s hs
    rw [pieces_xor _ _ _ _ hk, pieces_xor _ _ _ _ hk]
    have hc : (c'.opp = c.opp ∧ (k' = .none ∨ k' = k)) ↔ (c' = c ∧ (k' = .none ∨ k' = k)) := by
      cases c <;> cases c' <;> simp [Color.opp]
    by_cases hcond : c' = c ∧ (k' = .none ∨ k' = k)
    · rw [if_pos (hc.mpr hcond), if_pos hcond, xor_bitMask_testBit _ _ (Spec.mirrorSq_lt hsq),
        xor_bitMask_testBit _ _ hsq, h.pcs c' k' s hs]
      congr 1
      apply decide_eq_decide.mpr
      constructor
      · exact fun e => Spec.mirrorSq_inj e
      · exact fun e => by rw [e]
    · rw [if_neg (fun x => hcond (hc.mp x)), if_neg hcond]
      exact h.pcs c' k' s hs

theorem BitMir.with_meta {X X' : Position} (h : BitMir X X') (e c e' c' : Nat) :
    BitMir { X with enpassant := e, castling := c } { X' with enpassant := e', castling := c' } := by
  have hp : ∀ (Y : Position) (e c : Nat) c0 k, ({ Y with enpassant := e, castling := c } : Position).pieces c0 k = Y.pieces c0 k := by
    intro Y e c c0 k; cases c0 <;> rfl
  exact
  { ok := ⟨h.ok.inv, by intro c0 k; rw [hp]; exact h.ok.lt c0 k⟩
    ok' := ⟨h.ok'.inv, by intro c0 k; rw [hp]; exact h.ok'.lt c0 k⟩
    rot := h.rot
    pcs := by intro c0 k s hs; rw [hp, hp]; exact h.pcs c0 k s hs }

end Morlock.Proofs.Bernstein
