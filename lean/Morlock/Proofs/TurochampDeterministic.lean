import Morlock.Proofs.TurochampOrder
import Morlock.Proofs.TurochampMob
/-!
# `Eval.Evaluate` does not depend on the iteration order of the mobility maps (C18)

`PositionPlay` is order dependent in its last bits, but stays within `2^-10` of the exact value `idealPlay/10`
(`positionPlayOrdN`); the difference of the two calls is within `2^-9 + 2^-15` of a multiple of 1/10, so
`math.Round(float64(pp)*100)` is the same integer `10·(idealPlay(self) − idealPlay(opponent))` whatever the orders, and
everything after it is a function of that integer and the material.
-/
namespace Morlock.Proofs.Turochamp
open Morlock Morlock.Model Morlock.Model.Flt Morlock.Model.Turochamp Morlock.Proofs.Gen

/-- what `Eval.Evaluate` computes from the material ratio and the rounded position-play difference `r` (hundredths) -/
def combineR (mat : Q) (r : Int) : Option Q :=
  (mul f64 mat (Q.ofInt 100)).bind fun m100 =>
  (mul f64 (Q.ofInt m100.roundAway) (Q.ofInt 10)).bind fun m64 =>
  (rnd f32 m64).bind fun m =>
  (div f64 (Q.ofInt r) (Q.ofInt 1000)).bind fun p64 =>
  (rnd f32 p64).bind fun p =>
  add f32 m p

theorem combine_of_round {mat pp y : Q} (hy : mul f64 pp (Q.ofInt 100) = some y) :
    combine mat pp = combineR mat y.roundAway := by
  unfold combine combineR
  simp only [hy, Option.bind_some]

/-- the rounded difference is determined by the exact values -/
theorem round_pp {pp : Q} {d : Int} {E : Nat} (h : Near pp d E) (hd : d.natAbs ≤ 5080) (hE : E ≤ 2181038080) :
    ∃ y, mul f64 pp (Q.ofInt 100) = some y ∧ y.roundAway = 10 * d := by
  have hz : Near (Q.mul pp (Q.ofInt ((100 : Nat) : Int))) (d * ((100 : Nat) : Int)) (E * 100) := h.mul_nat 100
  have hE100 : E * 100 ≤ 218103808000 := Nat.mul_le_mul_right _ hE
  have hb : Bd (Q.mul pp (Q.ofInt ((100 : Nat) : Int))) 65536 := hz.bd (by omega) (by omega)
  obtain ⟨y, hy, _⟩ := fltFacts.abs_le64 _ 65536 (by decide) hb
  have hy' : mul f64 pp (Q.ofInt 100) = some y := hy
  refine ⟨y, hy', ?_⟩
  have hn := hz.rnd64 (by simpa using hb.2) hy
  have e : d * ((100 : Nat) : Int) = 10 * (10 * d) := by omega
  rw [e] at hn
  exact hn.roundAway (by omega)

/-- **Closed form of `Eval.Evaluate`**: for small positions and any two iteration orders it is a function of the
material ratio and the exact position-play difference. -/
theorem evaluateCoreOrd_closed {pos : Position} {turn : Color} (hS : Small pos turn) (hO : Small pos turn.opp)
    (cs co : Bool) (oS oO : List (Nat × Nat) → List (Nat × Nat))
    (hpS : ∀ l, (oS l).Perm l) (hpO : ∀ l, (oO l).Perm l) :
    evaluateCoreOrd oS oO pos cs co turn =
      (materialEvaluate pos turn).bind fun mat =>
        combineR mat (10 * (idealPlay pos cs turn - idealPlay pos co turn.opp)) := by
  obtain ⟨ppS, hS1, nS, bS⟩ := positionPlayOrdN hS cs oS hpS
  obtain ⟨ppO, hO1, nO, bO⟩ := positionPlayOrdN hO co oO hpO
  obtain ⟨pp, hpp, npp⟩ := sub32N' nS nO (by omega) (by decide)
  obtain ⟨y, hy, hr⟩ := round_pp npp (by omega) (by decide)
  unfold evaluateCoreOrd
  cases hm : materialEvaluate pos turn with
  | none => rfl
  | some mat =>
    rw [Option.bind_some, Option.bind_some, hS1, Option.bind_some, hO1, Option.bind_some, hpp, Option.bind_some,
      combine_of_round hy, hr]

/-! ## small positions -/

/-- at most 16 men, at most 15 of them rooks, knights, bishops and pawns, no pawn on the first or last rank -/
structure Sane (pos : Position) (c : Color) : Prop where
  men : (toSquares (pos.pieces c .none)).length ≤ 16
  officers : (toSquares (middle pos c)).length + (toSquares (pos.pieces c .pawn)).length ≤ 15
  ranks : ∀ sq ∈ toSquares (pos.pieces c .pawn), pawnRanks c sq ≤ 5

theorem small_of_sane {pos : Position} {t c : Color} (hw : WF pos t) (hs : Sane pos c) : Small pos c := by
  have h := hw.rep
  refine ⟨?_, (mobOK_of_wf hw).2, hs.officers, hs.ranks⟩
  obtain ⟨hnd, hkeys, _⟩ := mobFold_inv (pos.legalMoves c) [] [] (by simp) (by simp) (by simp)
  simp only [List.nil_append] at hkeys
  rw [← mobility_eq] at hnd hkeys
  have hsub : (mobility pos c).map (·.1) ⊆ toSquares (pos.pieces c .none) := by
    intro k hk
    obtain ⟨m, hm, hP, rfl⟩ := hkeys k hk
    have hml : m ∈ pos.pseudoLegalMoves c := by
      unfold Position.legalMoves at hm
      exact (List.mem_filter.mp hm).1
    obtain ⟨pc, hst⟩ := mobMove_step hw hml hP
    have h64 := h.lt_of_some hst.1
    rw [mem_toSquares (h.piecesLt c .none), h.all c _ h64]
    unfold colAt
    rw [hst.1]
    simp
  have := hnd.length_le_of_subset hsub
  have hm := hs.men
  simp only [List.length_map] at this
  omega

end Morlock.Proofs.Turochamp
