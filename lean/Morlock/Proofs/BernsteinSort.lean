import Morlock.Model.Bernstein
/-!
# List lemmas for the Bernstein model: the stable sort is a permutation, `truncate` is a prefix,
`search.Selection` picks exactly the listed moves, length bounds for `flatMap`.
-/
namespace Morlock.Proofs.Bernstein
open Morlock Morlock.Model Morlock.Model.Bernstein

/-! ## stable insertion sort -/

theorem stableInsert_perm {α : Type} (less : α → α → Bool) (x : α) :
    ∀ l : List α, (stableInsert less x l).Perm (x :: l)
  | [] => List.Perm.refl _
  | y :: ys => by
    unfold stableInsert
    split
    · exact ((stableInsert_perm less x ys).cons y).trans (List.Perm.swap x y ys)
    · exact List.Perm.refl _

theorem stableSort_perm {α : Type} (less : α → α → Bool) :
    ∀ l : List α, (stableSort less l).Perm l
  | [] => List.Perm.refl _
  | x :: xs => by
    unfold stableSort
    exact (stableInsert_perm less x _).trans ((stableSort_perm less xs).cons x)

theorem mem_stableSort {α : Type} (less : α → α → Bool) (l : List α) (x : α) :
    x ∈ stableSort less l ↔ x ∈ l := (stableSort_perm less l).mem_iff

theorem stableSort_length {α : Type} (less : α → α → Bool) (l : List α) :
    (stableSort less l).length = l.length := (stableSort_perm less l).length_eq

theorem stableSort_nodup {α : Type} (less : α → α → Bool) {l : List α} (h : l.Nodup) :
    (stableSort less l).Nodup := (stableSort_perm less l).nodup_iff.mpr h

theorem stableSort_ne_nil {α : Type} (less : α → α → Bool) {l : List α} (h : l ≠ []) :
    stableSort less l ≠ [] := by
  intro e
  have := stableSort_length less l
  rw [e] at this
  exact h (List.length_eq_zero_iff.mp this.symm)

/-! ### what `sort.SliceStable` guarantees: sorted by the key, equal keys in the original order -/

section Key
variable {α : Type} (less : α → α → Bool) (k : α → Int) (hkey : ∀ a b, less a b = decide (k a < k b))
include hkey

theorem stableInsert_sorted (x : α) : ∀ l : List α, l.Pairwise (fun a b => k a ≤ k b) →
    (stableInsert less x l).Pairwise (fun a b => k a ≤ k b)
  | [], _ => by simp [stableInsert]
  | y :: ys, h => by
    unfold stableInsert
    have hy := List.pairwise_cons.mp h
    rw [hkey y x]
    by_cases hyx : k y < k x
    · rw [decide_eq_true hyx, if_pos rfl]
      refine List.pairwise_cons.mpr ⟨?_, stableInsert_sorted x ys hy.2⟩
      intro z hz
      rcases List.mem_cons.mp ((stableInsert_perm less x ys).mem_iff.mp hz) with rfl | hz
      · omega
      · exact hy.1 z hz
    · rw [decide_eq_false hyx, if_neg (by simp)]
      refine List.pairwise_cons.mpr ⟨?_, h⟩
      intro z hz
      rcases List.mem_cons.mp hz with rfl | hz
      · omega
      · have := hy.1 z hz; omega

/-- the result of the sort is ordered by the key -/
theorem stableSort_sorted : ∀ l : List α, (stableSort less l).Pairwise (fun a b => k a ≤ k b)
  | [] => by simp [stableSort]
  | x :: xs => by
    unfold stableSort
    exact stableInsert_sorted less k hkey x _ (stableSort_sorted xs)

theorem stableInsert_filter_key (x : α) (v : Int) : ∀ l : List α,
    (stableInsert less x l).filter (fun y => decide (k y = v)) = (x :: l).filter (fun y => decide (k y = v))
  | [] => by simp [stableInsert]
  | y :: ys => by
    unfold stableInsert
    rw [hkey y x]
    by_cases hyx : k y < k x
    · rw [decide_eq_true hyx, if_pos rfl, List.filter_cons, stableInsert_filter_key x v ys]
      by_cases hy : k y = v
      · have hx : ¬ k x = v := by omega
        simp [hy, hx]
      · simp [List.filter_cons, hy]
    · rw [decide_eq_false hyx, if_neg (by simp)]

/-- … and stable: the elements with any given key come out in their original order -/
theorem stableSort_filter_key (v : Int) : ∀ l : List α,
    (stableSort less l).filter (fun y => decide (k y = v)) = l.filter (fun y => decide (k y = v))
  | [] => by simp [stableSort]
  | x :: xs => by
    unfold stableSort
    rw [stableInsert_filter_key less k hkey x v, List.filter_cons, List.filter_cons, stableSort_filter_key v xs]

end Key

/-- **The contract of `sort.SliceStable` determines the result**: two lists that are ordered by the key and have, for every key
value, the same elements of that key in the same order, are equal. -/
theorem sorted_stable_unique {α : Type} (k : α → Int) : ∀ (l1 l2 : List α),
    l1.Pairwise (fun a b => k a ≤ k b) → l2.Pairwise (fun a b => k a ≤ k b) →
    (∀ v, l1.filter (fun y => decide (k y = v)) = l2.filter (fun y => decide (k y = v))) → l1 = l2
  | [], l2, _, _, h => by
    cases l2 with
    | nil => rfl
    | cons y ys =>
      have := h (k y)
      simp at this
  | x :: xs, [], _, _, h => by
    have := h (k x)
    simp at this
  | x :: xs, y :: ys, h1, h2, h => by
    have hx1 := List.pairwise_cons.mp h1
    have hy2 := List.pairwise_cons.mp h2
    have hxy : x = y := by
      by_cases hk : k y = k x
      · have := h (k x)
        simp only [List.filter_cons, decide_true, if_true, hk] at this
        exact (List.cons.inj this).1
      · exfalso
        -- `x` occurs in `l2` after `y`, and `y` occurs in `l1` after `x`
        have hxin : x ∈ (y :: ys).filter (fun z => decide (k z = k x)) := by
          rw [← h (k x)]; simp
        have hxys : x ∈ ys := by
          rcases List.mem_cons.mp (List.mem_filter.mp hxin).1 with e | e
          · exact absurd (by rw [e]) hk
          · exact e
        have hyin : y ∈ (x :: xs).filter (fun z => decide (k z = k y)) := by
          rw [h (k y)]; simp
        have hyxs : y ∈ xs := by
          rcases List.mem_cons.mp (List.mem_filter.mp hyin).1 with e | e
          · exact absurd (by rw [e]) hk
          · exact e
        have a := hx1.1 y hyxs
        have b := hy2.1 x hxys
        omega
    subst hxy
    congr 1
    apply sorted_stable_unique k xs ys hx1.2 hy2.2
    intro v
    have := h v
    simp only [List.filter_cons] at this
    by_cases hv : k x = v
    · simp only [hv, decide_true, if_true] at this
      exact (List.cons.inj this).2
    · simpa [hv] using this

/-- `SortByPriority` sorts by descending priority … -/
theorem sortByPriority_sorted (fn : Move → Int) (l : List Move) :
    (sortByPriority l fn).Pairwise (fun a b => fn a ≥ fn b) := by
  have h := stableSort_sorted (fun a b => decide (fn a > fn b)) (fun m => - fn m)
    (fun a b => by apply decide_eq_decide.mpr; omega) l
  exact h.imp (fun {a b} hab => by omega)

/-- … stably. -/
theorem sortByPriority_stable (fn : Move → Int) (l : List Move) (v : Int) :
    (sortByPriority l fn).filter (fun m => decide (fn m = v)) = l.filter (fun m => decide (fn m = v)) := by
  have h := stableSort_filter_key (fun a b => decide (fn a > fn b)) (fun m => - fn m)
    (fun a b => by apply decide_eq_decide.mpr; omega) (-v) l
  have e : (fun m : Move => decide (-fn m = -v)) = (fun m => decide (fn m = v)) := by
    funext m; apply decide_eq_decide.mpr; omega
  rw [e] at h
  exact h

theorem sortByPriority_perm (fn : Move → Int) (l : List Move) : (sortByPriority l fn).Perm l :=
  stableSort_perm _ l

/-- `SortByNominalValue` sorts by ascending nominal value, stably. -/
theorem sortByNominalValue_sorted (l : List Placement) :
    (sortByNominalValue l).Pairwise (fun a b => nominalValue a.piece ≤ nominalValue b.piece) :=
  stableSort_sorted _ (fun pl => nominalValue pl.piece) (fun _ _ => rfl) l

theorem sortByNominalValue_stable (l : List Placement) (v : Int) :
    (sortByNominalValue l).filter (fun pl => decide (nominalValue pl.piece = v)) =
      l.filter (fun pl => decide (nominalValue pl.piece = v)) :=
  stableSort_filter_key _ (fun pl => nominalValue pl.piece) (fun _ _ => rfl) v l

theorem sortByNominalValue_perm (l : List Placement) : (sortByNominalValue l).Perm l :=
  stableSort_perm _ l

/-! ## `truncate` -/

theorem truncate_prefix {α : Type} (l : List α) (limit : Int) : truncate l limit <+: l := by
  unfold truncate
  split
  · exact List.take_prefix _ _
  · exact List.prefix_refl _

theorem truncate_length_le {α : Type} (l : List α) {limit : Int} (h : 0 < limit) :
    ((truncate l limit).length : Int) ≤ limit := by
  unfold truncate
  split
  · rw [List.length_take]; omega
  · rename_i hc
    simp only [Bool.and_eq_true, decide_eq_true_eq, not_and] at hc
    have := hc h
    omega

theorem truncate_ne_nil {α : Type} {l : List α} (hl : l ≠ []) (limit : Int) : truncate l limit ≠ [] := by
  unfold truncate
  split
  · rename_i hc
    simp only [Bool.and_eq_true, decide_eq_true_eq] at hc
    intro e
    have hlen := congrArg List.length e
    rw [List.length_take] at hlen
    have : 0 < l.length := List.length_pos_iff.mpr hl
    simp only [List.length_nil] at hlen
    omega
  · exact hl

theorem truncate_of_nonpos {α : Type} (l : List α) {limit : Int} (h : limit ≤ 0) : truncate l limit = l := by
  unfold truncate
  rw [if_neg]
  simp only [Bool.and_eq_true, decide_eq_true_eq, not_and]
  intro h'; omega

/-! ## `search.Selection` -/

theorem lookup_isSome_iff (r : RankMap) (m : Move) : (r.lookup m).isSome = true ↔ ∃ v, (m, v) ∈ r := by
  induction r with
  | nil => simp
  | cons x xs ih =>
    obtain ⟨a, v⟩ := x
    rw [List.lookup_cons]
    by_cases h : m == a
    · rw [h]
      have : m = a := by simpa using h
      subst this
      simp
    · have hne : (m == a) = false := by simpa using h
      rw [hne]
      have hne' : m ≠ a := by simpa using h
      simp only [ih, List.mem_cons, Prod.mk.injEq]
      constructor
      · rintro ⟨w, hw⟩; exact ⟨w, Or.inr hw⟩
      · rintro ⟨w, hw | hw⟩
        · exact absurd hw.1 hne'
        · exact ⟨w, hw⟩

theorem selection_fold_keys (n : Int) : ∀ (l : List (Move × Nat)) (r : RankMap) (m : Move),
    (∃ v, (m, v) ∈ l.foldl (fun (r : RankMap) (mi : Move × Nat) => r.set mi.1 (n - (mi.2 : Int))) r) ↔
      (∃ v, (m, v) ∈ r) ∨ ∃ i, (m, i) ∈ l
  | [], r, m => by simp
  | x :: xs, r, m => by
    rw [List.foldl_cons, selection_fold_keys n xs]
    simp only [RankMap.set, List.mem_cons, Prod.mk.injEq]
    constructor
    · rintro (⟨v, ⟨h1, _⟩ | h⟩ | ⟨i, h⟩)
      · exact Or.inr ⟨x.2, Or.inl (by rw [h1])⟩
      · exact Or.inl ⟨v, h⟩
      · exact Or.inr ⟨i, Or.inr h⟩
    · rintro (⟨v, h⟩ | ⟨i, h | h⟩)
      · exact Or.inl ⟨v, Or.inr h⟩
      · exact Or.inl ⟨n - (x.2 : Int), Or.inl ⟨by rw [← h], rfl⟩⟩
      · exact Or.inr ⟨i, h⟩

/-- **`pick` of `search.Selection(list)` selects exactly the moves of the list.** -/
theorem selection_pick_iff (list : List Move) (m : Move) : (selection list).2 m = true ↔ m ∈ list := by
  unfold selection
  simp only [RankMap.has]
  rw [lookup_isSome_iff, selection_fold_keys]
  simp only [List.not_mem_nil, exists_false, false_or]
  constructor
  · rintro ⟨i, h⟩
    exact (List.mem_zipIdx_iff_getElem?.mp h |> fun h => List.mem_of_getElem? h)
  · intro h
    obtain ⟨i, hi, rfl⟩ := List.getElem_of_mem h
    exact ⟨i, List.mem_zipIdx_iff_getElem?.mpr (by simp [hi])⟩

/-! ## length bounds -/

theorem length_flatMap_le {α β : Type} (f : α → List β) (k : Nat) :
    ∀ l : List α, (∀ x ∈ l, (f x).length ≤ k) → (l.flatMap f).length ≤ l.length * k
  | [], _ => by simp
  | x :: xs, h => by
    rw [List.flatMap_cons, List.length_append, List.length_cons, Nat.add_mul, Nat.one_mul]
    have h1 := h x (List.mem_cons_self ..)
    have h2 := length_flatMap_le f k xs (fun y hy => h y (List.mem_cons_of_mem _ hy))
    omega

theorem toSquaresAux_length_le : ∀ (fuel b : Nat), (toSquaresAux fuel b).length ≤ fuel
  | 0, _ => by simp [toSquaresAux]
  | fuel + 1, b => by
    unfold toSquaresAux
    split
    · simp
    · simp only [List.length_cons]
      have := toSquaresAux_length_le fuel (b ^^^ bitMask (lastPopSquare b))
      omega

theorem toSquares_length_le (b : Nat) : (toSquares b).length ≤ 64 := toSquaresAux_length_le 64 b

theorem popCountAux_le : ∀ (fuel b : Nat), popCountAux fuel b ≤ fuel
  | 0, _ => by simp [popCountAux]
  | fuel + 1, b => by
    unfold popCountAux
    have := popCountAux_le fuel (b / 2)
    omega

theorem popCount_le (b : Nat) : popCount b ≤ 64 := popCountAux_le 64 b

end Morlock.Proofs.Bernstein
