import Morlock.Proofs.ABTTRef
/-!
# `alphabeta` with a sound transposition table and with cancellation (helper for C11 / C12)

`alphabeta_recTT`: by induction on the depth, `alphabeta` satisfies the node contract `RecTT` with the table
invariant `Sound`: the table stays sound whatever happens (also when the search is cancelled at any poll),
and a search that is still live at its end returns the clipped negamax value and a sound PV.
-/
namespace Morlock.Proofs.AB
open Morlock Morlock.Model Morlock.Model.Score Morlock.Spec
open Morlock.Props.C09
variable {P : Type}

/-- What `alphabeta` does at depth 0 after `abEnter` let it pass. -/
def leafBody (g : Game P) (le : LeafEval P) (p : P) (a b : Score) (st : SState) : Score × List Move × SState :=
  let (score, st) := quietSearch g le p a b st
  let (c, st) := poll st
  if c then (invalidScore, [], st) else
  let st := if a.less score && score.less b
    then { st with tt := (st.tt.write (g.hash p) 0 (g.ply p) 0 score {}).1 } else st
  (score, [], st)

/-- What `alphabeta` does at depth `d + 1` after `abEnter` let it pass with table move `best`. -/
def abBody (g : Game P) (ex : P → Explore) (le : LeafEval P) (rootPly : Int) (d : Nat) (p : P) (a b : Score)
    (best : Move) (st : SState) : Score × List Move × SState :=
  let st := { st with nodes := st.nodes + 1 }
  let order := heapOrder (g.moves p) (firstPrio best (ex p).prio)
  let (alpha, pv, hasLegal, wasCut, st) := abLoop g ex (alphabeta g ex le rootPly d) p b order a [] false st
  let (c, st) := poll st
  if c then (invalidScore, [], st) else
  if !hasLegal then ((if g.inCheck p then negInfScore else zeroScore), [], st) else
  let st := if !wasCut && !pv.isEmpty
    then { st with tt := (st.tt.write (g.hash p) 0 (g.ply p) ((d + 1 : Nat) : Int) alpha (firstOrNone pv)).1 } else st
  (alpha, pv, st)

theorem alphabeta_zero_eq (g : Game P) (ex : P → Explore) (le : LeafEval P) (rootPly : Int) (p : P) (a b : Score)
    (st : SState) :
    alphabeta g ex le rootPly 0 p a b st =
      match abEnter g rootPly 0 p st with
      | .inl r => r
      | .inr (_, st) => leafBody g le p a b st := by
  simp only [alphabeta, leafBody]
  cases abEnter g rootPly 0 p st <;> rfl

theorem alphabeta_succ_eq (g : Game P) (ex : P → Explore) (le : LeafEval P) (rootPly : Int) (d : Nat) (p : P)
    (a b : Score) (st : SState) :
    alphabeta g ex le rootPly (d + 1) p a b st =
      match abEnter g rootPly (d + 1) p st with
      | .inl r => r
      | .inr (best, st) => abBody g ex le rootPly d p a b best st := by
  simp only [alphabeta, abBody]
  cases abEnter g rootPly (d + 1) p st <;> rfl

/-- `abEnter` under a sound table: either it answers at once (cancelled, draw, exact table hit below the
    root) — then the table is untouched and a live answer is the exact value with an empty PV — or it lets
    the search proceed from the ticked state, which is live, at a position that is not adjudicated drawn. -/
theorem abEnter_tt {g : Game P} (ex : P → Explore) (le : LeafEval P) {rootPly : Int} {R U : Nat → P → Prop}
    (hcl : Closed g ex R) (hRU : ∀ n q, R n q → U n q) (hrf : RootFreeOn g R rootPly)
    (depth : Nat) (p : P) (hp : R depth p) (st : SState) (hs : SoundOn g ex le U st.tt) :
    (∀ r, abEnter g rootPly depth p st = .inl r →
      r.2.2 = tick st ∧ (Live r.2.2 → r.1 = V g ex le rootPly depth p ∧ r.2.1 = [])) ∧
    (∀ best st1, abEnter g rootPly depth p st = .inr (best, st1) →
      st1 = tick st ∧ Live st1 ∧ (!(g.ply p == rootPly) && g.isDraw p) = false) := by
  simp only [abEnter, poll_eq]
  by_cases hc : cancelled st = true
  · simp only [hc, if_true]
    refine ⟨?_, ?_⟩
    · intro r hr
      cases hr
      exact ⟨rfl, fun hl => absurd hl (not_live_of_cancelled hc)⟩
    · intro best st1 hr; cases hr
  · have hc' : cancelled st = false := by simpa using hc
    have hlive : Live (tick st) := (cancelled_false_iff st).1 hc'
    simp only [hc', Bool.false_eq_true, if_false]
    by_cases hd : (!(g.ply p == rootPly) && g.isDraw p) = true
    · simp only [hd, if_true]
      refine ⟨?_, ?_⟩
      · intro r hr
        cases hr
        refine ⟨rfl, fun _ => ⟨?_, rfl⟩⟩
        cases depth <;> simp only [V, hd, if_true]
      · intro best st1 hr; cases hr
    · have hd' : (!(g.ply p == rootPly) && g.isDraw p) = false := by simpa using hd
      simp only [hd', Bool.false_eq_true, if_false]
      cases hread : (tick st).tt.read (g.hash p) with
      | none =>
        dsimp only
        refine ⟨?_, ?_⟩
        · intro r hr; cases hr
        · intro best st1 hr
          cases hr
          exact ⟨rfl, hlive, trivial⟩
      | some e =>
        dsimp only
        by_cases hhit : (!(g.ply p == rootPly) && depth == e.depth && e.bound == 0) = true
        · simp only [hhit, if_true]
          refine ⟨?_, ?_⟩
          · intro r hr
            cases hr
            refine ⟨rfl, fun _ => ⟨?_, rfl⟩⟩
            simp only [Bool.and_eq_true, beq_iff_eq] at hhit
            obtain ⟨⟨_, hdep⟩, hbound⟩ := hhit
            obtain ⟨hmem, hhash⟩ := read_some hread
            have := hs e hmem hbound p (by rw [← hdep]; exact hRU _ _ hp) hhash.symm
            dsimp only
            rw [this, V_eq_V'_on ex le hcl hrf depth p hp, hdep]
          · intro best st1 hr; cases hr
        · simp only [hhit, Bool.false_eq_true, if_false]
          refine ⟨?_, ?_⟩
          · intro r hr; cases hr
          · intro best st1 hr
            cases hr
            exact ⟨rfl, hlive, trivial⟩

/-- The leaf evaluation: the table is untouched; a live result is the clipped leaf value. -/
theorem quietSearch_tt {g : Game P} (hev : EvalOk g) (le : LeafEval P) (K : Nat) (hK : leafGrade le ≤ K)
    (hK127 : K ≤ 127) (p : P) (a b : Score) (st : SState) (ha : okN K a) (hb : okN K b) :
    Same st (quietSearch g le p a b st).2 ∧
    (Live (quietSearch g le p a b st).2 →
      okN K (quietSearch g le p a b st).1 ∧
      ((quietSearch g le p a b st).1 = leafV g le p ∨ rank a ≤ rank (quietSearch g le p a b st).1) ∧
      (rank a < rank b → Clip (rank a) (rank b) (rank (leafV g le p)) (rank (quietSearch g le p a b st).1))) := by
  cases le with
  | static =>
    simp only [quietSearch, leafV]
    exact ⟨⟨rfl, rfl, Nat.le_refl _⟩, fun _ => ⟨okN_mono (okN_heuristic (hev p).1 (hev p).2) (by omega),
      Or.inl trivial, fun _ => clip_self _ _ _⟩⟩
  | quiescence ex' fuel =>
    have hfK : fuel ≤ K := hK
    have e : K - fuel + fuel = K := by omega
    have HQ := quiesce_recTT hev ex' (fun _ => True) (K - fuel) fuel (by omega)
    rw [e] at HQ
    obtain ⟨_, _, q⟩ := HQ.node p a b st trivial trivial (fun _ => ⟨ha, hb⟩)
    simp only [wrapQ] at q
    simp only [quietSearch, leafV]
    refine ⟨quiesce_same g ex' fuel p a b st, fun hl => ?_⟩
    obtain ⟨q1, q2, q3, _⟩ := q hl
    exact ⟨q1, q2, q3⟩

theorem sound_of_tt_eq {g : Game P} {ex : P → Explore} {le : LeafEval P} {U : Nat → P → Prop} {t t' : TTState}
    (h : t' = t) (hs : SoundOn g ex le U t) : SoundOn g ex le U t' := by rw [h]; exact hs

/-- Depth 0 after `abEnter`. -/
theorem leafBody_tt {g : Game P} (hev : EvalOk g) (ex : P → Explore) (le : LeafEval P) {rootPly : Int}
    {R U : Nat → P → Prop} (hcl : Closed g ex R) (hRU : ∀ n q, R n q → U n q)
    (hrf : RootFreeOn g R rootPly) (hh : HashOKOn g ex le U) (K : Nat) (hK : leafGrade le ≤ K) (hK127 : K ≤ 127)
    (p : P) (hp : R 0 p) (a b : Score) (st : SState) (hs : SoundOn g ex le U st.tt) (ha : okN K a) (hb : okN K b)
    (hdraw : (!(g.ply p == rootPly) && g.isDraw p) = false) :
    ∀ r, leafBody g le p a b st = r →
      Mono st r.2.2 ∧ SoundOn g ex le U r.2.2.tt ∧
      (Live r.2.2 → okN K r.1 ∧
        (r.1 = V g ex le rootPly 0 p ∨ rank a ≤ rank r.1) ∧
        (rank a < rank b → Clip (rank a) (rank b) (rank (V g ex le rootPly 0 p)) (rank r.1)) ∧
        PathOK g ex le rootPly 0 p r.1 r.2.1) := by
  intro r hr
  simp only [leafBody, poll_eq] at hr
  obtain ⟨hsame, hq⟩ := quietSearch_tt hev le K hK hK127 p a b st ha hb
  generalize quietSearch g le p a b st = qs at hr hsame hq
  have hV : V g ex le rootPly 0 p = leafV g le p := by
    rw [V]; simp only [hdraw, Bool.false_eq_true, if_false]
  rw [hV]
  have hstt : SoundOn g ex le U (tick qs.2).tt := sound_of_tt_eq (by rw [tick_tt, hsame.1]) hs
  have hmono : Mono st (tick qs.2) := hsame.2.trans (mono_tick _)
  by_cases hc : cancelled qs.2 = true
  · simp only [hc, if_true] at hr
    subst hr
    exact ⟨hmono, hstt, fun hl => absurd hl (not_live_of_cancelled hc)⟩
  · have hc' : cancelled qs.2 = false := by simpa using hc
    have hlive : Live (tick qs.2) := (cancelled_false_iff _).1 hc'
    obtain ⟨q1, q2, q3⟩ := hq ((mono_tick _).live hlive)
    simp only [hc', Bool.false_eq_true, if_false] at hr
    by_cases hcond : (a.less qs.1 && qs.1.less b) = true
    · simp only [hcond, if_true] at hr
      subst hr
      refine ⟨⟨hmono.1, hmono.2⟩, ?_, fun _ => ⟨q1, q2, q3, pathOK_nil _ _ _ _ _ _ _⟩⟩
      dsimp only
      apply write_soundOn hstt
      intro q hqU hq'
      simp only [Bool.and_eq_true] at hcond
      have h1 := (lt_iff_rank _ _ ha.1 q1.1).1 hcond.1
      have h2 := (lt_iff_rank _ _ q1.1 hb.1).1 hcond.2
      obtain ⟨c1, c2, c3⟩ := q3 (by omega)
      have hex : qs.1 = leafV g le p := by
        apply rank_injective _ _ q1.1 (leafV_ok hev le p (by omega)).1
        by_cases x1 : rank (leafV g le p) ≤ rank a
        · have := c2 x1; omega
        · by_cases x2 : rank b ≤ rank (leafV g le p)
          · have := c3 x2; omega
          · exact c1 ⟨by omega, by omega⟩
      have hu : u16 0 = 0 := by decide
      rw [hu] at hqU
      rw [hu, hex, ← hV, V_eq_V'_on ex le hcl hrf 0 p hp]
      exact hh 0 p q (hRU _ _ hp) hqU hq'.symm
    · simp only [hcond, Bool.false_eq_true, if_false] at hr
      subst hr
      exact ⟨hmono, hstt, fun _ => ⟨q1, q2, q3, pathOK_nil _ _ _ _ _ _ _⟩⟩

/-- Depth `d + 1` after `abEnter`, given the node contract one level down. -/
theorem abBody_tt {g : Game P} (hev : EvalOk g) (ex : P → Explore) (le : LeafEval P) {rootPly : Int}
    {R U : Nat → P → Prop} (hcl : Closed g ex R) (hRU : ∀ n q, R n q → U n q)
    (hrf : RootFreeOn g R rootPly) (hh : HashOKOn g ex le U) (K : Nat) (hK : leafGrade le ≤ K) (d : Nat)
    (hKd : K + d + 1 ≤ 127)
    (IH : RecTT (SoundOn g ex le U) (R d) (K + d) (V g ex le rootPly d) (PathOK g ex le rootPly d)
      (alphabeta g ex le rootPly d))
    (p : P) (hp : R (d + 1) p) (a b : Score) (best : Move) (st : SState) (hs : SoundOn g ex le U st.tt)
    (ha : okN (K + d + 1) a) (hb : okN (K + d + 1) b)
    (hdraw : (!(g.ply p == rootPly) && g.isDraw p) = false) :
    ∀ r, abBody g ex le rootPly d p a b best st = r →
      Mono st r.2.2 ∧ SoundOn g ex le U r.2.2.tt ∧
      (Live r.2.2 → okN (K + d + 1) r.1 ∧
        (r.1 = V g ex le rootPly (d + 1) p ∨ rank a ≤ rank r.1) ∧
        (rank a < rank b → Clip (rank a) (rank b) (rank (V g ex le rootPly (d + 1) p)) (rank r.1)) ∧
        PathOK g ex le rootPly (d + 1) p r.1 r.2.1 ∧
        (legalAny g p (g.moves p) = true → r.2.1 = [] → r.1 = a)) := by
  intro r hr
  simp only [abBody, poll_eq] at hr
  have hperm := ABHeap.heapOrder_perm (g.moves p) (firstPrio best (ex p).prio)
  obtain ⟨hm, hi, hpost⟩ := abLoop_tt (g := g) (ex := ex) (p := p) IH (by omega) (b := b)
    (heapOrder (g.moves p) (firstPrio best (ex p).prio))
    (fun m hm c hpush hpk => hcl d p m c hp (hperm.mem_iff.1 hm) hpk hpush)
    a [] false { st with nodes := st.nodes + 1 } hs
    (fun _ => ⟨ha, hb⟩) _ rfl
  generalize abLoop g ex (alphabeta g ex le rootPly d) p b (heapOrder (g.moves p) (firstPrio best (ex p).prio)) a []
    false { st with nodes := st.nodes + 1 } = res at hr hm hi hpost
  have hmono : Mono st (tick res.2.2.2.2) := Mono.trans (s2 := res.2.2.2.2) ⟨hm.1, hm.2⟩ (mono_tick _)
  have hstt : SoundOn g ex le U (tick res.2.2.2.2).tt := hi
  by_cases hc : cancelled res.2.2.2.2 = true
  · simp only [hc, if_true] at hr
    subst hr
    exact ⟨hmono, hstt, fun hl => absurd hl (not_live_of_cancelled hc)⟩
  · have hc' : cancelled res.2.2.2.2 = false := by simpa using hc
    have hlive : Live (tick res.2.2.2.2) := (cancelled_false_iff _).1 hc'
    obtain ⟨h2, h3, h4, h5, _, h6, h7⟩ := hpost ((mono_tick _).live hlive)
    rw [legalAny_perm g p hperm, Bool.false_or] at h4
    rw [maxR_perm (kidsR_perm g ex p (V g ex le rootPly d) hperm)] at h5
    simp only [hc', Bool.false_eq_true, if_false] at hr
    by_cases hl : legalAny g p (g.moves p) = true
    · rw [hl] at h4
      simp only [h4, Bool.not_true, Bool.false_eq_true, if_false] at hr
      have rV := rank_V_succ hev ex le rootPly K hK d p hKd hdraw hl
      have Na := okN_rankN ha
      have hmax : Max.max (rank a) (-1099511627776) = rank a := by unfold rankN at Na; omega
      have hM : maxR (rank a) (kidsR g ex p (V g ex le rootPly d) (g.moves p)) =
          Max.max (rank a) (rank (V g ex le rootPly (d + 1) p)) := by
        rw [rV, ← maxR_max, hmax]
      rw [hM] at h5
      have hv1 := V_ok hev ex le rootPly K hK (d + 1) p hKd
      -- facts about the PV
      have hpath : PathOK g ex le rootPly (d + 1) p res.1 res.2.1 := by
        rcases h7 with ⟨e, _⟩ | ⟨m, c, s, rem, e1, e2, e3, e4, e5, e6, e7, _, e8⟩
        · rw [e]; exact pathOK_nil _ _ _ _ _ _ _
        · rw [e1]
          refine ⟨⟨c, e3, e4, e5.1⟩, ?_⟩
          intro hex
          have hle : rank (lift (V g ex le rootPly d c)) ≤ rank (V g ex le rootPly (d + 1) p) := by
            rw [rV]; exact maxR_mem _ (mem_kidsR (hperm.mem_iff.1 e2) e3 e4)
          have hvc := IH.vok c
          have heq : rank (lift s) = rank (lift (V g ex le rootPly d c)) := by
            rw [← e7]; rw [hex] at e8 ⊢; omega
          have hs' : s = V g ex le rootPly d c := lift_inj e6 hvc (by omega) heq
          refine ⟨c, e3, e4, ?_, e5.2 hs'⟩
          exact rank_injective _ _ (okN_lift hvc (by omega)).1 hv1.1 (by rw [hex] at e8; omega)
      have hnil : res.2.1 = [] → res.1 = a := by
        intro hn
        rcases h7 with ⟨_, e⟩ | ⟨m, c, s, rem, e1, _⟩
        · exact e
        · rw [e1] at hn; cases hn
      have hclip : rank a < rank b →
          Clip (rank a) (rank b) (rank (V g ex le rootPly (d + 1) p)) (rank res.1) := by
        intro hab
        obtain ⟨q1, q2⟩ := h5 hab
        unfold Clip; omega
      by_cases hcond : (!res.2.2.2.1 && !res.2.1.isEmpty) = true
      · simp only [hcond, if_true] at hr
        subst hr
        refine ⟨⟨hmono.1, hmono.2⟩, ?_, fun _ => ⟨h2, Or.inr h3, hclip, hpath, fun _ => hnil⟩⟩
        dsimp only
        apply write_soundOn hstt
        intro q hqU hq'
        simp only [Bool.and_eq_true, Bool.not_eq_true'] at hcond
        obtain ⟨hw, hne⟩ := hcond
        -- alpha was raised and there was no cutoff: the value is exact
        have hex : res.1 = V g ex le rootPly (d + 1) p := by
          apply rank_injective _ _ h2.1 hv1.1
          rcases h7 with ⟨e, _⟩ | ⟨m, c, s, rem, e1, e2, e3, e4, e5, e6, e7, e8, e9⟩
          · rw [e] at hne; simp at hne
          · rcases h6 hw with hlt | heq
            · obtain ⟨q1, q2⟩ := h5 (by omega)
              omega
            · rw [heq] at e8; omega
        have hu : u16 ((d + 1 : Nat) : Int) = d + 1 := u16_nat _ (by omega)
        rw [hu] at hqU
        rw [hu, hex, V_eq_V'_on ex le hcl hrf (d + 1) p hp]
        exact hh (d + 1) p q (hRU _ _ hp) hqU hq'.symm
      · simp only [hcond, Bool.false_eq_true, if_false] at hr
        subst hr
        exact ⟨hmono, hstt, fun _ => ⟨h2, Or.inr h3, hclip, hpath, fun _ => hnil⟩⟩
    · have hl' : legalAny g p (g.moves p) = false := by simpa using hl
      rw [hl'] at h4
      simp only [h4, Bool.not_false, if_true] at hr
      subst hr
      have hV : V g ex le rootPly (d + 1) p = terminal g p := by
        rw [V]; simp only [hdraw, hl', Bool.false_eq_true, if_false, Bool.not_false, if_true]
      rw [hV]
      exact ⟨hmono, hstt, fun _ => ⟨okN_mono (okN_terminal g p) (by omega), Or.inl rfl,
        fun _ => clip_self _ _ _, pathOK_nil _ _ _ _ _ _ _, fun h => by rw [hl'] at h; cases h⟩⟩

/-- At the root ply `abEnter` never answers from the table: a search that is not cancelled proceeds. -/
theorem abEnter_root {g : Game P} {rootPly : Int} (depth : Nat) (p : P) (st : SState)
    (hroot : g.ply p = rootPly) (hc : cancelled st = false) :
    ∃ best, abEnter g rootPly depth p st = .inr (best, tick st) := by
  have hr : (g.ply p == rootPly) = true := by simp [hroot]
  simp only [abEnter, poll_eq, hc, hr, Bool.not_true, Bool.false_and, Bool.false_eq_true, if_false]
  cases (tick st).tt.read (g.hash p) with
  | none => exact ⟨_, rfl⟩
  | some e => exact ⟨_, rfl⟩

/-- Node contract of `alphabeta` with a sound table and cancellation, by induction on the depth. -/
theorem alphabeta_recTT {g : Game P} (hev : EvalOk g) (ex : P → Explore) (le : LeafEval P) {rootPly : Int}
    {R U : Nat → P → Prop} (hcl : Closed g ex R) (hRU : ∀ n q, R n q → U n q)
    (hrf : RootFreeOn g R rootPly) (hh : HashOKOn g ex le U) (K : Nat) (hK : leafGrade le ≤ K) :
    ∀ d, K + d ≤ 127 →
      RecTT (SoundOn g ex le U) (R d) (K + d) (V g ex le rootPly d) (PathOK g ex le rootPly d)
        (alphabeta g ex le rootPly d) := by
  intro d
  induction d with
  | zero =>
    intro hKd
    refine ⟨fun c => V_ok hev ex le rootPly K hK 0 c hKd, ?_⟩
    intro p a b st hp hs hab
    obtain ⟨hinl, hinr⟩ := abEnter_tt ex le hcl hRU hrf 0 p hp st hs
    rw [alphabeta_zero_eq]
    cases h : abEnter g rootPly 0 p st with
    | inl r =>
      obtain ⟨e1, e2⟩ := hinl r h
      dsimp only
      refine ⟨by rw [e1]; exact mono_tick st, by rw [e1]; exact hs, fun hl => ?_⟩
      obtain ⟨e3, e4⟩ := e2 hl
      rw [e3, e4]
      exact ⟨V_ok hev ex le rootPly K hK 0 p hKd, Or.inl rfl, fun _ => clip_self _ _ _, pathOK_nil _ _ _ _ _ _ _⟩
    | inr x =>
      obtain ⟨best, st1⟩ := x
      obtain ⟨e1, hlive1, hdraw⟩ := hinr best st1 h
      subst e1
      obtain ⟨ha, hb⟩ := hab ((mono_tick st).live hlive1)
      dsimp only
      obtain ⟨h1, h2, h3⟩ := leafBody_tt hev ex le hcl hRU hrf hh K hK (by omega) p hp a b (tick st) hs ha hb
        hdraw _ rfl
      exact ⟨(mono_tick st).trans h1, h2, h3⟩
  | succ d ih =>
    intro hKd
    have IH := ih (by omega)
    refine ⟨fun c => V_ok hev ex le rootPly K hK (d + 1) c hKd, ?_⟩
    intro p a b st hp hs hab
    obtain ⟨hinl, hinr⟩ := abEnter_tt ex le hcl hRU hrf (d + 1) p hp st hs
    rw [alphabeta_succ_eq]
    cases h : abEnter g rootPly (d + 1) p st with
    | inl r =>
      obtain ⟨e1, e2⟩ := hinl r h
      dsimp only
      refine ⟨by rw [e1]; exact mono_tick st, by rw [e1]; exact hs, fun hl => ?_⟩
      obtain ⟨e3, e4⟩ := e2 hl
      rw [e3, e4]
      exact ⟨V_ok hev ex le rootPly K hK (d + 1) p hKd, Or.inl rfl, fun _ => clip_self _ _ _,
        pathOK_nil _ _ _ _ _ _ _⟩
    | inr x =>
      obtain ⟨best, st1⟩ := x
      obtain ⟨e1, hlive1, hdraw⟩ := hinr best st1 h
      subst e1
      obtain ⟨ha, hb⟩ := hab ((mono_tick st).live hlive1)
      dsimp only
      obtain ⟨h1, h2, h3⟩ := abBody_tt hev ex le hcl hRU hrf hh K hK d (by omega) IH p hp a b best (tick st) hs
        ha hb hdraw _ rfl
      refine ⟨(mono_tick st).trans h1, h2, fun hl => ?_⟩
      obtain ⟨q1, q2, q3, q4, _⟩ := h3 hl
      exact ⟨q1, q2, q3, q4⟩

end Morlock.Proofs.AB
