import Morlock.Proofs.FltMono
/-! # `rndPos` returns a number of the format that is nearest to `a / b` among all numbers of the format -/
namespace Morlock.Model.Flt

/-- `|x − y|` on naturals -/
def adiff (x y : Nat) : Nat := (x - y) + (y - x)

theorem adiff_mul (x y c : Nat) : adiff (x * c) (y * c) = adiff x y * c := by
  unfold adiff; rw [Nat.add_mul, Nat.sub_mul, Nat.sub_mul]

/-- an integer within `1/2` of `X / U` is nearest among the integers -/
theorem nearest_int (U m0 k X : Nat) (h1 : 2 * (m0 * U) ≤ 2 * X + U) (h2 : 2 * X ≤ 2 * (m0 * U) + U) :
    adiff X (m0 * U) ≤ adiff X (k * U) := by
  unfold adiff
  rcases Nat.lt_trichotomy k m0 with h | h | h
  · have : (k + 1) * U ≤ m0 * U := Nat.mul_le_mul_right _ h
    rw [Nat.add_mul] at this
    omega
  · subst h; exact Nat.le_refl _
  · have : (m0 + 1) * U ≤ k * U := Nat.mul_le_mul_right _ h
    rw [Nat.add_mul] at this
    omega

/-- the pair before renormalisation is nearest: for every number `m'·2^e'` of the format (`m' < 2^p`, `emin ≤ e'`)
`|a/b − m₀·2^e₀| ≤ |a/b − m'·2^e'|` -/
theorem pre_nearest (f : Fmt) (hp : 1 ≤ f.p) {a b : Nat} (ha : 0 < a) (hb : 0 < b) (m' : Nat) (e' : Int)
    (hm' : m' < 2 ^ f.p) (he' : f.emin ≤ e') :
    adiff (a * pd (expo f a b)) (sig0 f a b * b * pn (expo f a b)) * pd e' ≤
      adiff (a * pd e') (m' * b * pn e') * pd (expo f a b) := by
  have hE := expo_spec f hp ha hb
  have hs2 : 0 < b * pn (expo f a b) := Nat.mul_pos hb (pn_pos _)
  have hspec := rhe_spec (a * pd (expo f a b)) (b * pn (expo f a b)) hs2
  have hsig : roundHalfEven (a * pd (expo f a b)) (b * pn (expo f a b)) = sig0 f a b := rfl
  rw [hsig] at hspec
  generalize sig0 f a b = m0 at *
  generalize expo f a b = e0 at *
  rw [← adiff_mul, ← adiff_mul]
  -- common scale
  have hX : a * pd e' * pd e0 = a * pd e0 * pd e' := by grind
  have hV : m0 * b * pn e0 * pd e' = m0 * (b * pn e0 * pd e') := by grind
  rw [hX, hV]
  have h1 : 2 * (m0 * (b * pn e0 * pd e')) ≤ 2 * (a * pd e0 * pd e') + b * pn e0 * pd e' := by
    have := Nat.mul_le_mul_right (pd e') hspec.1
    calc 2 * (m0 * (b * pn e0 * pd e')) = 2 * m0 * (b * pn e0) * pd e' := by grind
      _ ≤ (2 * (a * pd e0) + b * pn e0) * pd e' := this
      _ = 2 * (a * pd e0 * pd e') + b * pn e0 * pd e' := by grind
  have h2 : 2 * (a * pd e0 * pd e') ≤ 2 * (m0 * (b * pn e0 * pd e')) + b * pn e0 * pd e' := by
    have := Nat.mul_le_mul_right (pd e') hspec.2
    calc 2 * (a * pd e0 * pd e') = 2 * (a * pd e0) * pd e' := by grind
      _ ≤ (2 * m0 * (b * pn e0) + b * pn e0) * pd e' := this
      _ = 2 * (m0 * (b * pn e0 * pd e')) + b * pn e0 * pd e' := by grind
  rcases Int.lt_or_le e' e0 with hlt | hle
  · -- the candidate lies in a lower binade: it is below 2^(p-1+e0) ≤ a/b
    obtain ⟨K, hK⟩ : ∃ K : Nat, e0 = e' + K := ⟨(e0 - e').toNat, by omega⟩
    have hK0 : 0 < K := by omega
    have hs := pn_pd_shift e' K
    rw [← hK] at hs
    have hl : 2 ^ (f.p - 1) * b * pn e0 ≤ a * pd e0 := by
      rcases hE.lower with h0 | h0
      · omega
      · exact h0
    have hL : 2 ^ (f.p - 1) * (b * pn e0 * pd e') ≤ a * pd e0 * pd e' := by
      calc 2 ^ (f.p - 1) * (b * pn e0 * pd e') = 2 ^ (f.p - 1) * b * pn e0 * pd e' := by grind
        _ ≤ a * pd e0 * pd e' := Nat.mul_le_mul_right _ hl
    have h2K : 2 ≤ 2 ^ K := by
      calc 2 = 2 ^ 1 := rfl
        _ ≤ 2 ^ K := Nat.pow_le_pow_right (by decide) hK0
    have hW : 0 < b * pn e' * pd e0 := Nat.mul_pos (Nat.mul_pos hb (pn_pos _)) (pd_pos _)
    have hY : m' * b * pn e' * pd e0 < 2 ^ (f.p - 1) * (b * pn e0 * pd e') := by
      calc m' * b * pn e' * pd e0 = m' * (b * pn e' * pd e0) := by grind
        _ < 2 ^ f.p * (b * pn e' * pd e0) := (Nat.mul_lt_mul_right hW).mpr hm'
        _ = 2 * 2 ^ (f.p - 1) * (b * pn e' * pd e0) := by rw [two_pow_pred hp]
        _ ≤ 2 ^ K * 2 ^ (f.p - 1) * (b * pn e' * pd e0) := Nat.mul_le_mul_right _ (Nat.mul_le_mul_right _ h2K)
        _ = 2 ^ (f.p - 1) * (b * (2 ^ K * pn e' * pd e0) * 1) := by grind
        _ = 2 ^ (f.p - 1) * (b * (pn e0 * pd e') * 1) := by rw [hs]
        _ = 2 ^ (f.p - 1) * (b * pn e0 * pd e') := by grind
    have hn := nearest_int (b * pn e0 * pd e') m0 (2 ^ (f.p - 1)) (a * pd e0 * pd e') h1 h2
    unfold adiff at hn ⊢
    omega
  · -- the candidate is a multiple of the unit in the last place 2^e0
    obtain ⟨K, hK⟩ : ∃ K : Nat, e' = e0 + K := ⟨(e' - e0).toNat, by omega⟩
    have hs := pn_pd_shift e0 K
    rw [← hK] at hs
    have hY : m' * b * pn e' * pd e0 = m' * 2 ^ K * (b * pn e0 * pd e') := by
      calc m' * b * pn e' * pd e0 = m' * b * (pn e' * pd e0) := by grind
        _ = m' * b * (2 ^ K * pn e0 * pd e') := by rw [hs]
        _ = m' * 2 ^ K * (b * pn e0 * pd e') := by grind
    rw [hY]
    exact nearest_int _ m0 (m' * 2 ^ K) _ h1 h2

/-- **`rndPos` rounds to nearest**: if `rndPos f a b = some (m, e)` then for every number `m'·2^e'` of the format
(`m' < 2^p`, `emin ≤ e'`; no upper bound on `e'`, so also compared with the numbers beyond the overflow threshold)
`|a/b − m·2^e| ≤ |a/b − m'·2^e'|`; with the denominators `b·pd e`, `b·pd e'` cleared -/
theorem rndPos_nearest (f : Fmt) (hp : 1 ≤ f.p) {a b m : Nat} {e : Int} (ha : 0 < a) (hb : 0 < b)
    (h : rndPos f a b = some (m, e)) (m' : Nat) (e' : Int) (hm' : m' < 2 ^ f.p) (he' : f.emin ≤ e') :
    adiff (a * pd e) (m * b * pn e) * pd e' ≤ adiff (a * pd e') (m' * b * pn e') * pd e := by
  have hpre := pre_nearest f hp ha hb m' e' hm' he'
  have hcv := carry_val f hp (sig0 f a b) (expo f a b)
  rw [rndPos_eq_fin] at h
  split at h
  · simp at h
  have hfin : carry f (sig0 f a b) (expo f a b) = (m, e) := by simpa [rndFin] using h
  rw [hfin] at hcv
  simp only [] at hcv
  generalize sig0 f a b = m0 at *
  generalize expo f a b = e0 at *
  -- the same distance at the two scales
  have hsame : adiff (a * pd e) (m * b * pn e) * pd e0 = adiff (a * pd e0) (m0 * b * pn e0) * pd e := by
    rw [← adiff_mul, ← adiff_mul]
    have e1 : a * pd e * pd e0 = a * pd e0 * pd e := by grind
    have e2 : m * b * pn e * pd e0 = m0 * b * pn e0 * pd e := by
      calc m * b * pn e * pd e0 = b * (m * pn e * pd e0) := by grind
        _ = b * (m0 * pn e0 * pd e) := by rw [hcv]
        _ = m0 * b * pn e0 * pd e := by grind
    rw [e1, e2]
  have : adiff (a * pd e) (m * b * pn e) * pd e' * pd e0 ≤ adiff (a * pd e') (m' * b * pn e') * pd e * pd e0 := by
    calc adiff (a * pd e) (m * b * pn e) * pd e' * pd e0
        = adiff (a * pd e) (m * b * pn e) * pd e0 * pd e' := by grind
      _ = adiff (a * pd e0) (m0 * b * pn e0) * pd e * pd e' := by rw [hsame]
      _ = adiff (a * pd e0) (m0 * b * pn e0) * pd e' * pd e := by grind
      _ ≤ adiff (a * pd e') (m' * b * pn e') * pd e0 * pd e := Nat.mul_le_mul_right _ hpre
      _ = adiff (a * pd e') (m' * b * pn e') * pd e * pd e0 := by grind
  exact Nat.le_of_mul_le_mul_right this (pd_pos _)


/-! ### the bridge between `rnd` and its unsigned kernel `rndPos` -/

/-- `rnd` is `rndPos` on `|x|` with the sign put back: `rnd f x = some y` iff `x = 0 ∧ y = 0`, or `x ≠ 0` and `y` is the
value `ofME (x < 0) m e` (`= ± m·2^e`, see `ofME_spec`) of the pair returned by `rndPos f |x.num| x.den` -/
theorem rnd_eq_some_iff (f : Fmt) (x y : Q) :
    rnd f x = some y ↔
      (x.num = 0 ∧ y = ⟨0, 1⟩) ∨
      (x.num ≠ 0 ∧ ∃ m e, rndPos f x.num.natAbs x.den = some (m, e) ∧ y = ofME (decide (x.num < 0)) m e) := by
  by_cases h0 : x.num = 0
  · rw [rnd_of_num_eq_zero f h0]
    constructor
    · intro h; left; exact ⟨h0, by simpa using h.symm⟩
    · rintro (⟨_, rfl⟩ | ⟨hne, _⟩)
      · rfl
      · exact absurd h0 hne
  · constructor
    · intro h; right; exact ⟨h0, rnd_eq_some f h0 h⟩
    · rintro (⟨hz, _⟩ | ⟨_, m, e, hr, rfl⟩)
      · exact absurd hz h0
      · rw [rnd_of_num_ne_zero f h0, hr]; rfl

/-- **`rnd` rounds to nearest**: for `x ≠ 0`, `rnd f x = some y` means `y = ± m·2^e` (sign of `x`, lowest terms,
`|y|·2^-e = m`) for a pair `(m, e)` of the format such that `|x|` is at least as close to `m·2^e` as to every other number
`m'·2^e'` of the format -/
theorem rnd_nearest (f : Fmt) (hp : 1 ≤ f.p) {x y : Q} (hd : 0 < x.den) (h0 : x.num ≠ 0) (h : rnd f x = some y) :
    ∃ m e, y = ofME (decide (x.num < 0)) m e ∧
      y.Canon ∧ y.num.natAbs * pd e = m * pn e * y.den ∧ (y.num < 0 ↔ (x.num < 0 ∧ 0 < m)) ∧
      m < 2 ^ f.p ∧ f.emin ≤ e ∧ e + ((f.p : Int) - 1) ≤ f.emax ∧ (2 ^ (f.p - 1) ≤ m ∨ e = f.emin) ∧
      ∀ (m' : Nat) (e' : Int), m' < 2 ^ f.p → f.emin ≤ e' →
        adiff (x.num.natAbs * pd e) (m * x.den * pn e) * pd e' ≤
          adiff (x.num.natAbs * pd e') (m' * x.den * pn e') * pd e := by
  obtain ⟨m, e, hr, rfl⟩ := rnd_eq_some f h0 h
  obtain ⟨hc, hv, hs, _⟩ := ofME_spec (decide (x.num < 0)) m e
  obtain ⟨hm, he, hmax, hn, _, _⟩ := rndPos_spec f hp (by omega) hd hr
  refine ⟨m, e, rfl, hc, hv, ?_, hm, he, hmax, hn, ?_⟩
  · rw [hs]; simp
  · intro m' e' hm' he'
    exact rndPos_nearest f hp (by omega) hd hr m' e' hm' he'

end Morlock.Model.Flt
