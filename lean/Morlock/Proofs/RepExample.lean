import Morlock.Proofs.RepAbs
import Morlock.Proofs.ZobristFold
/-!
# A concrete position used by the `example`s of C02 and C07

`r3k2r/1P6/8/3pP3/8/8/8/R3K2R w KQkq d6`: all four castling rights, an en-passant capture
(e5xd6), a promotion (b7-b8) and a capture-promotion (b7xa8), rook captures on rook home squares.
-/
namespace Morlock.Proofs
open Morlock Morlock.Model

def exPl : List (Nat × Color × Piece) :=
  [(3, .white, .king), (7, .white, .rook), (0, .white, .rook), (35, .white, .pawn), (54, .white, .pawn),
   (59, .black, .king), (63, .black, .rook), (56, .black, .rook), (36, .black, .pawn)]

def exPos : Position := (Position.newPosition exPl 15 44).getD {}

theorem exPl_valid : ValidPlacements exPl := by
  intro x hx
  simp only [exPl, List.mem_cons, List.not_mem_nil, or_false] at hx
  rcases hx with rfl | rfl | rfl | rfl | rfl | rfl | rfl | rfl | rfl <;> simp

theorem exPos_eq : Position.newPosition exPl 15 44 = some exPos := by decide +kernel

theorem exPos_rep : Rep exPos (placeAll emptyBoard exPl) := (newPosition_rep exPl_valid exPos_eq).1

/-- e5xd6 en passant. -/
def exEP : Move := { ty := .enPassant, «from» := 35, to := 44, piece := .pawn }
/-- O-O. -/
def exOO : Move := { ty := .kingSideCastle, «from» := 3, to := 1, piece := .king }
/-- b7xa8=N. -/
def exCP : Move := { ty := .capturePromotion, «from» := 54, to := 63, piece := .pawn, promotion := .knight, capture := .rook }

/-- 1. exd6 e.p. Rxa1+ 2. Ke2. -/
def exLine : List Move :=
  [exEP,
   { ty := .capture, «from» := 63, to := 7, piece := .rook, capture := .rook },
   { ty := .normal, «from» := 3, to := 11, piece := .king }]

/-- A sample Zobrist table (any functions with `enpassant 0 = 0` do). -/
def exZ : ZTable where
  pieces c k sq := 1000003 * (64 * (7 * c.code + k.code) + sq + 1) % 18446744073709551557
  castling c := 7919 * (c + 1)
  enpassant e := 104729 * e
  turn c := 15485863 * (c.code + 1)


/-- "Kiwipete" `r3k2r/p1ppqpb1/bn2pnp1/3PN3/1p2P3/2N2Q1p/PPPBBPPP/R3K2R w KQkq -`. -/
def kiwiPl : List (Nat × Color × Piece) :=
  [(63, .black, .rook), (59, .black, .king), (56, .black, .rook), (55, .black, .pawn), (53, .black, .pawn), (52, .black, .pawn), (51, .black, .queen), (50, .black, .pawn), (49, .black, .bishop), (47, .black, .bishop), (46, .black, .knight), (43, .black, .pawn), (42, .black, .knight), (41, .black, .pawn), (36, .white, .pawn), (35, .white, .knight), (30, .black, .pawn), (27, .white, .pawn), (21, .white, .knight), (18, .white, .queen), (16, .black, .pawn), (15, .white, .pawn), (14, .white, .pawn), (13, .white, .pawn), (12, .white, .bishop), (11, .white, .bishop), (10, .white, .pawn), (9, .white, .pawn), (8, .white, .pawn), (7, .white, .rook), (3, .white, .king), (0, .white, .rook)]
def kiwiPos : Position := (Position.newPosition kiwiPl 15 0).getD {}

/-- `r3k2r/8/8/8/3Pp3/8/1p6/R3K2R b KQkq d3` (the colour-mirrored `exPos`). -/
def exPlB : List (Nat × Color × Piece) :=
  [(63, .black, .rook), (59, .black, .king), (56, .black, .rook), (28, .white, .pawn), (27, .black, .pawn), (14, .black, .pawn), (7, .white, .rook), (3, .white, .king), (0, .white, .rook)]
def exPosB : Position := (Position.newPosition exPlB 15 20).getD {}

theorem kiwiPos_eq : Position.newPosition kiwiPl 15 0 = some kiwiPos := by decide +kernel
theorem exPosB_eq : Position.newPosition exPlB 15 20 = some exPosB := by decide +kernel

theorem kiwiPos_rep : Rep kiwiPos kiwiPos.square := by
  have hv : ValidPlacements kiwiPl := by
    intro x hx
    have : (kiwiPl.all fun x => decide (x.1 < 64) && (x.2.2 != Piece.none)) = true := by decide +kernel
    have := List.all_eq_true.mp this x hx
    simpa using this
  exact (newPosition_rep hv kiwiPos_eq).1.self

theorem exPosB_rep : Rep exPosB exPosB.square := by
  have hv : ValidPlacements exPlB := by
    intro x hx
    have : (exPlB.all fun x => decide (x.1 < 64) && (x.2.2 != Piece.none)) = true := by decide +kernel
    have := List.all_eq_true.mp this x hx
    simpa using this
  exact (newPosition_rep hv exPosB_eq).1.self

end Morlock.Proofs
