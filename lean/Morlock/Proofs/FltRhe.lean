import Morlock.Proofs.FltPow
/-! # `roundHalfEven a b`: the integer nearest to `a / b`, ties to even -/
namespace Morlock.Model.Flt

theorem rhe_cases (a b : Nat) (hb : 0 < b) : ∃ q r m, roundHalfEven a b = m ∧ a = b * q + r ∧ r < b ∧
    ((2 * r < b ∧ m = q) ∨ (2 * r > b ∧ m = q + 1) ∨
     (2 * r = b ∧ q % 2 = 0 ∧ m = q) ∨ (2 * r = b ∧ q % 2 = 1 ∧ m = q + 1)) := by
  refine ⟨a / b, a % b, _, rfl, (Nat.div_add_mod a b).symm, Nat.mod_lt a hb, ?_⟩
  unfold roundHalfEven
  simp only []
  by_cases h1 : 2 * (a % b) < b
  · simp [h1]
  · by_cases h2 : 2 * (a % b) > b
    · simp [h1, h2]
    · have h3 : 2 * (a % b) = b := by omega
      by_cases h4 : a / b % 2 = 0
      · simp [h3, h4]
      · have : a / b % 2 = 1 := by omega
        simp [h3, this]

/-- `|a/b - q| ≤ 1/2` -/
theorem rhe_spec (a b : Nat) (hb : 0 < b) :
    2 * roundHalfEven a b * b ≤ 2 * a + b ∧ 2 * a ≤ 2 * roundHalfEven a b * b + b := by
  obtain ⟨q, r, m, hm, ha, hr, hc⟩ := rhe_cases a b hb
  rw [hm]; subst ha
  have hqb : 2 * (q + 1) * b = 2 * (b * q) + 2 * b := by grind
  have hqb' : 2 * q * b = 2 * (b * q) := by grind
  rcases hc with ⟨h, e⟩ | ⟨h, e⟩ | ⟨h, _, e⟩ | ⟨h, _, e⟩ <;> subst e <;> omega

/-- ties go to the even neighbour -/
theorem rhe_tie (a b : Nat) (hb : 0 < b)
    (h : 2 * roundHalfEven a b * b = 2 * a + b ∨ 2 * a = 2 * roundHalfEven a b * b + b) :
    roundHalfEven a b % 2 = 0 := by
  obtain ⟨q, r, m, hm, ha, hr, hc⟩ := rhe_cases a b hb
  rw [hm] at h ⊢; subst ha
  have hqb : 2 * (q + 1) * b = 2 * (b * q) + 2 * b := by grind
  have hqb' : 2 * q * b = 2 * (b * q) := by grind
  rcases hc with ⟨h', e⟩ | ⟨h', e⟩ | ⟨h', hp, e⟩ | ⟨h', hp, e⟩ <;> subst e <;> omega

theorem rhe_exact (k b : Nat) (hb : 0 < b) : roundHalfEven (k * b) b = k := by
  unfold roundHalfEven
  simp [Nat.mul_mod_left, Nat.mul_div_cancel _ hb, hb]

/-- monotone in the ratio -/
theorem rhe_mono {a b a' b' : Nat} (hb : 0 < b) (hb' : 0 < b') (h : a * b' ≤ a' * b) :
    roundHalfEven a b ≤ roundHalfEven a' b' := by
  obtain ⟨q, r, m, hm, ha, hlt, hc⟩ := rhe_cases a b hb
  obtain ⟨q', r', m', hm', ha', hlt', hc'⟩ := rhe_cases a' b' hb'
  rw [hm, hm']
  have hX : 0 < b * b' := Nat.mul_pos hb hb'
  have e1 : a * b' = q * (b * b') + r * b' := by rw [ha]; grind
  have e2 : a' * b = q' * (b * b') + r' * b := by rw [ha']; grind
  have hrb : r * b' < b * b' := (Nat.mul_lt_mul_right hb').mpr hlt
  have hrb' : r' * b < b * b' := by
    have := (Nat.mul_lt_mul_right hb).mpr hlt'
    rw [Nat.mul_comm b' b] at this; exact this
  have hqq : q ≤ q' := by
    apply Nat.le_of_not_lt
    intro hlt2
    have : (q' + 1) * (b * b') ≤ q * (b * b') := Nat.mul_le_mul_right _ hlt2
    rw [Nat.add_mul] at this
    omega
  rcases Nat.lt_or_eq_of_le hqq with hlt2 | heq
  · have hle : m ≤ q + 1 := by
      rcases hc with ⟨_, e⟩ | ⟨_, e⟩ | ⟨_, _, e⟩ | ⟨_, _, e⟩ <;> omega
    have hge : q' ≤ m' := by
      rcases hc' with ⟨_, e⟩ | ⟨_, e⟩ | ⟨_, _, e⟩ | ⟨_, _, e⟩ <;> omega
    omega
  · subst heq
    have hrr : r * b' ≤ r' * b := by omega
    -- 2 r > b (or = b) transfers to r'
    have k1 : 2 * r * b' ≤ 2 * r' * b := by
      calc 2 * r * b' = 2 * (r * b') := by grind
        _ ≤ 2 * (r' * b) := Nat.mul_le_mul_left 2 hrr
        _ = 2 * r' * b := by grind
    have t1 : b < 2 * r → b' < 2 * r' := by
      intro hh
      have : b * b' < 2 * r * b' := (Nat.mul_lt_mul_right hb').mpr hh
      have : b * b' < 2 * r' * b := by omega
      have : b' * b < 2 * r' * b := by rw [Nat.mul_comm]; exact this
      exact Nat.lt_of_mul_lt_mul_right this
    have t2 : b ≤ 2 * r → b' ≤ 2 * r' := by
      intro hh
      have : b * b' ≤ 2 * r * b' := Nat.mul_le_mul_right _ hh
      have : b * b' ≤ 2 * r' * b := by omega
      have : b' * b ≤ 2 * r' * b := by rw [Nat.mul_comm]; exact this
      exact Nat.le_of_mul_le_mul_right this hb
    have t3 : 2 * r' ≤ b' → 2 * r ≤ b := by
      intro hh
      have h5 : 2 * r' * b ≤ b' * b := Nat.mul_le_mul_right _ hh
      have : 2 * r * b' ≤ b * b' := by rw [Nat.mul_comm b b']; omega
      exact Nat.le_of_mul_le_mul_right this hb'
    rcases hc with ⟨c, e⟩ | ⟨c, e⟩ | ⟨c, cp, e⟩ | ⟨c, cp, e⟩ <;>
    rcases hc' with ⟨c', e'⟩ | ⟨c', e'⟩ | ⟨c', cp', e'⟩ | ⟨c', cp', e'⟩ <;> omega

theorem rhe_congr {a b a' b' : Nat} (hb : 0 < b) (hb' : 0 < b') (h : a * b' = a' * b) :
    roundHalfEven a b = roundHalfEven a' b' :=
  Nat.le_antisymm (rhe_mono hb hb' (Nat.le_of_eq h)) (rhe_mono hb' hb (Nat.le_of_eq h.symm))

theorem rhe_le {a b k : Nat} (hb : 0 < b) (h : a ≤ k * b) : roundHalfEven a b ≤ k := by
  have := rhe_mono (a := a) (b := b) (a' := k * b) (b' := b) hb hb (Nat.mul_le_mul_right _ h)
  rwa [rhe_exact k b hb] at this

theorem le_rhe {a b k : Nat} (hb : 0 < b) (h : k * b ≤ a) : k ≤ roundHalfEven a b := by
  have := rhe_mono (a := k * b) (b := b) (a' := a) (b' := b) hb hb (Nat.mul_le_mul_right _ h)
  rwa [rhe_exact k b hb] at this

end Morlock.Model.Flt
