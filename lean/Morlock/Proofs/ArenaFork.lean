import Morlock.Proofs.ArenaPlay
/-!
# Forks: shared past, isolated future

* `view_fork_new` / `view_fork_old`: right after `fork`, the new board has exactly the view of the
  original, and no existing board's view changes;
* `Sep`: the separation invariant between two boards (the nodes one may still write to are not on the
  other's chain), established by `fork` (`sep_fork`) and preserved by moves and by take-backs that stay
  at or above the starting point (`step_sep`);
* `run2_view`: in an interleaved run of two separated boards, each board's view evolves exactly as if
  the other had not moved.
-/
namespace Morlock.Proofs.Arena
open Morlock Morlock.Model Morlock.Model.World

/-! ## fork -/

theorem fork_node_old {w : World} (b : Nat) {j : Nat} (hj : j < w.nodes.size) : (w.fork b).1.node j = w.node j := by
  rw [fork_node, if_neg (by omega)]

theorem anc_fork {w : World} (hw : WFWorld w) (b : Nat) {o : Option Nat} (ho : bound o ≤ w.nodes.size) :
    ancIdx (w.fork b).1 o = ancIdx w o ∧ anc (w.fork b).1 o = anc w o := by
  apply anc_congr
  intro j hj
  have := ancIdx_lt hw hj
  exact fork_node_old b (by omega)

/-- The fork sees exactly what the original sees (same view, hence the same observations, result included). -/
theorem view_fork_new {w : World} (hw : WFWorld w) (b : Nat) : view (w.fork b).1 (w.fork b).2 = view w b := by
  have hbd : (w.fork b).1.board (w.fork b).2 = { w.board b with current := w.nodes.size } := by
    rw [fork_board, fork_id, if_pos rfl]
  have hcur : (w.fork b).1.cur (w.fork b).2 = forkNode w b := by
    unfold cur
    rw [hbd, fork_node]
    simp
  unfold view
  rw [hbd, hcur]
  simp only [forkNode]
  rw [(anc_fork hw b (bound_cur_prev_le_size hw b)).2]

/-- `fork` does not change what existing boards see. -/
theorem view_fork_old {w : World} (hw : WFWorld w) (b : Nat) {a : Nat} (ha : a < w.boards.size) :
    view (w.fork b).1 a = view w a := by
  have hbd : (w.fork b).1.board a = w.board a := by
    rw [fork_board, if_neg (by omega)]
  have hc := hw.cur_lt a ha
  have hcur : (w.fork b).1.cur a = w.cur a := by
    unfold cur
    rw [hbd]
    exact fork_node_old b hc
  apply frame_view hbd <;> try rw [hcur]
  intro j hj
  have h1 := ancIdx_lt hw hj
  have h2 := bound_cur_prev_le_size hw a
  exact fork_node_old b (by omega)

/-! ## what an operation leaves alone -/

theorem push_node_prev {w w' : World} {z : ZTable} {x : Nat} {m : Move} (h : w.pushMove z x m = some w')
    {j : Nat} (hj : j < w.nodes.size) : (w'.node j).prev = (w.node j).prev := by
  obtain ⟨_, next, _, rfl⟩ := pushMove_some h
  rw [setBoard_node, pushArena_node_old _ _ _ _ hj]
  split <;> rfl

theorem push_board_other {w w' : World} {z : ZTable} {x y : Nat} {m : Move} (h : w.pushMove z x m = some w')
    (hxy : x ≠ y) : w'.board y = w.board y := by
  obtain ⟨_, next, _, rfl⟩ := pushMove_some h
  rw [setBoard_board, if_neg (fun c => hxy c.1)]
  rfl

theorem push_current {w w' : World} {z : ZTable} {x : Nat} {m : Move} (hx : x < w.boards.size)
    (h : w.pushMove z x m = some w') :
    (w'.board x).current = w.nodes.size ∧ (w'.node w.nodes.size).prev = some (w.board x).current := by
  obtain ⟨_, next, _, rfl⟩ := pushMove_some h
  rw [setBoard_board, if_pos ⟨rfl, hx⟩, setBoard_node, pushArena_node_new]
  exact ⟨rfl, rfl⟩

theorem pop_node_prev {w w' : World} {x : Nat} {m : Move} (h : w.popMove x = some (w', m)) (j : Nat) :
    (w'.node j).prev = (w.node j).prev := by
  obtain ⟨pi, _, _, rfl⟩ := popMove_some h
  rw [setBoard_node, setNode_node]
  split
  · rename_i hc; rw [← hc.1]
  · rfl

theorem pop_board_other {w w' : World} {x y : Nat} {m : Move} (h : w.popMove x = some (w', m))
    (hxy : x ≠ y) : w'.board y = w.board y := by
  obtain ⟨pi, _, _, rfl⟩ := popMove_some h
  rw [setBoard_board, if_neg (fun c => hxy c.1)]
  rfl

theorem pop_current {w w' : World} {x : Nat} {m : Move} (hx : x < w.boards.size)
    (h : w.popMove x = some (w', m)) : (w.cur x).prev = some (w'.board x).current := by
  obtain ⟨pi, hp, _, rfl⟩ := popMove_some h
  rw [setBoard_board, if_pos ⟨rfl, hx⟩]
  exact hp

/-- Index paths inside the old arena are not changed by a move (only `next` is written, and a node is appended). -/
theorem ancIdx_push {w w' : World} {z : ZTable} {x : Nat} {m : Move} (hw : WFWorld w)
    (h : w.pushMove z x m = some w') {o : Option Nat} (ho : bound o ≤ w.nodes.size) :
    ancIdx w' o = ancIdx w o := by
  apply path_congr
  intro j hj
  have := ancIdx_lt hw hj
  exact push_node_prev h (by omega)

theorem ancIdx_pop {w w' : World} {x : Nat} {m : Move} (h : w.popMove x = some (w', m)) (o : Option Nat) :
    ancIdx w' o = ancIdx w o := by
  apply path_congr
  intro j _
  exact pop_node_prev h j

/-! ## single-step frame lemmas -/

/-- A move on `x` does not change the view of another board `y`, unless `x`'s current node is a strict
ancestor of `y`'s current node (then `y` reads the `next` that the move overwrites). -/
theorem push_frame {w w' : World} {z : ZTable} {x y : Nat} {m : Move} (hw : WFWorld w) (hy : y < w.boards.size)
    (hxy : x ≠ y) (h : w.pushMove z x m = some w')
    (hsep : (w.board x).current ∉ ancIdx w (w.cur y).prev) : view w' y = view w y := by
  have hbd := push_board_other h hxy
  obtain ⟨_, next, _, rfl⟩ := pushMove_some h
  have hc := hw.cur_lt y hy
  have hcur : (((pushArena w x m (pushNode w z x m next)).setBoard x (pushBoard w x m (pushNode w z x m next))).cur y)
      = if (w.board x).current = (w.board y).current then { w.cur y with next := m } else w.cur y := by
    unfold cur
    rw [hbd, setBoard_node, pushArena_node_old _ _ _ _ hc]
  apply frame_view hbd
  · rw [hcur]; split <;> rfl
  · rw [hcur]; split <;> rfl
  · rw [hcur]; split <;> rfl
  · rw [hcur]; split <;> rfl
  · intro j hj
    have h1 := ancIdx_lt hw hj
    have h2 := bound_cur_prev_le_size hw y
    rw [setBoard_node, pushArena_node_old _ _ _ _ (by omega), if_neg]
    intro hc'
    exact hsep (hc' ▸ hj)

/-- A take-back on `x` does not change the view of another board `y`, unless the node `x` returns to is a
strict ancestor of `y`'s current node (then `y` reads the `next` that the take-back clears). -/
theorem pop_frame {w w' : World} {x y : Nat} {m : Move} (hxy : x ≠ y)
    (h : w.popMove x = some (w', m))
    (hsep : ∀ pi, (w.cur x).prev = some pi → pi ∉ ancIdx w (w.cur y).prev) : view w' y = view w y := by
  have hbd := pop_board_other h hxy
  obtain ⟨pi, hp, _, rfl⟩ := popMove_some h
  have hcur : (((w.setNode pi { w.node pi with next := {} }).setBoard x (popBoard w x pi)).cur y)
      = if pi = (w.board y).current ∧ (w.board y).current < w.nodes.size
          then { w.node pi with next := {} } else w.cur y := by
    unfold cur
    rw [hbd, setBoard_node, setNode_node]
  have hcur' : ∀ (hc : pi = (w.board y).current), w.node pi = w.cur y := by
    intro hc; rw [hc]; rfl
  apply frame_view hbd
  · rw [hcur]; split
    · rename_i hc; rw [← hcur' hc.1]
    · rfl
  · rw [hcur]; split
    · rename_i hc; rw [← hcur' hc.1]
    · rfl
  · rw [hcur]; split
    · rename_i hc; rw [← hcur' hc.1]
    · rfl
  · rw [hcur]; split
    · rename_i hc; rw [← hcur' hc.1]
    · rfl
  · intro j hj
    rw [setBoard_node, setNode_node, if_neg]
    intro hc'
    exact hsep pi hp (hc'.1 ▸ hj)

/-! ## the separation invariant -/

/-- The chain of board `x`: its current node and all ancestors (indices, nearest first). -/
def chainIdx (w : World) (x : Nat) : List Nat := ancIdx w (some (w.board x).current)

/-- `x`, being `d` moves above its starting point, cannot write into anything `y` reads: the `d + 1`
topmost nodes of `x`'s chain (the only ones whose `next` a move or an allowed take-back of `x` writes)
are not on `y`'s chain. -/
def Sep (w : World) (x y : Nat) (d : Nat) : Prop :=
  ∀ j ∈ (chainIdx w x).take (d + 1), j ∉ chainIdx w y

theorem chainIdx_eq {w : World} (hw : WFWorld w) (x : Nat) :
    chainIdx w x = (w.board x).current :: ancIdx w (w.cur x).prev := ancIdx_some hw _

theorem mem_take_of_mem_take {α} {l : List α} {a : α} {m n : Nat} (h : a ∈ l.take m) (hmn : m ≤ n) : a ∈ l.take n := by
  have : l.take m = (l.take n).take m := by rw [List.take_take, Nat.min_eq_left hmn]
  rw [this] at h
  exact List.mem_of_mem_take h

/-- After `fork`, the original and the fork are separated (depth 0 on both sides). -/
theorem sep_fork {w : World} (hw : WFWorld w) {b : Nat} (hb : b < w.boards.size) :
    Sep (w.fork b).1 b (w.fork b).2 0 ∧ Sep (w.fork b).1 (w.fork b).2 b 0 := by
  have hw1 := wf_fork hw b
  have hc := hw.cur_lt b hb
  have hbb : (w.fork b).1.board b = w.board b := by rw [fork_board, if_neg (by omega)]
  have hbf : ((w.fork b).1.board (w.fork b).2).current = w.nodes.size := by
    rw [fork_board, fork_id, if_pos rfl]
  have hcb : chainIdx (w.fork b).1 b = (w.board b).current :: ancIdx w (w.cur b).prev := by
    unfold chainIdx
    rw [hbb, (anc_fork hw b (o := some (w.board b).current) (by simp only [bound]; omega)).1, ancIdx_some hw]
    rfl
  have hcf : chainIdx (w.fork b).1 (w.fork b).2 = w.nodes.size :: ancIdx w (w.cur b).prev := by
    unfold chainIdx
    rw [hbf, ancIdx_some hw1, fork_node, if_pos rfl]
    simp only [forkNode]
    rw [(anc_fork hw b (bound_cur_prev_le_size hw b)).1]
  have hlt : ∀ j ∈ ancIdx w (w.cur b).prev, j < (w.board b).current := by
    intro j hj
    have h1 := ancIdx_lt hw hj
    have h2 : bound (w.cur b).prev ≤ (w.board b).current := bound_prev_le hw.prev_lt _
    omega
  constructor
  · intro j hj
    rw [hcb] at hj
    simp only [Nat.zero_add, List.take_succ_cons, List.take_zero, List.mem_singleton] at hj
    subst hj
    rw [hcf]
    simp only [List.mem_cons, not_or]
    exact ⟨by omega, fun hm => by have := hlt _ hm; omega⟩
  · intro j hj
    rw [hcf] at hj
    simp only [Nat.zero_add, List.take_succ_cons, List.take_zero, List.mem_singleton] at hj
    subst hj
    rw [hcb]
    simp only [List.mem_cons, not_or]
    exact ⟨by omega, fun hm => by have := hlt _ hm; omega⟩

/-- Depth bookkeeping: a move goes one up, a take-back one down and is only allowed above depth 0. -/
def Op.depth (o : Op) (d : Nat) : Option Nat :=
  match o, d with
  | .push _, d => some (d + 1)
  | .pop, 0 => none
  | .pop, d + 1 => some d

/-- One operation on `x` (staying at or above its starting point) leaves `y`'s view alone and keeps both
boards separated. -/
theorem step_sep {w w' : World} {z : ZTable} {x y : Nat} {dx dx' dy : Nat} {o : Op} (hw : WFWorld w)
    (hx : x < w.boards.size) (hy : y < w.boards.size) (hxy : x ≠ y)
    (hsx : Sep w x y dx) (hsy : Sep w y x dy) (hd : o.depth dx = some dx') (h : step z x w o = some w') :
    view w' y = view w y ∧ Sep w' x y dx' ∧ Sep w' y x dy := by
  have hcx := hw.cur_lt x hx
  have hcy := hw.cur_lt y hy
  have hchx := chainIdx_eq hw x
  have hchy := chainIdx_eq hw y
  cases o with
  | push m =>
    simp only [Op.depth, Option.some.injEq] at hd
    subst hd
    simp only [step] at h
    have hw' := wf_push hw hx h
    have hcur := push_current hx h
    have hby := push_board_other h hxy
    -- chains in the new world
    have hchy' : chainIdx w' y = chainIdx w y := by
      unfold chainIdx
      rw [hby]
      exact ancIdx_push hw h (by simp only [bound]; omega)
    have hchx' : chainIdx w' x = w.nodes.size :: chainIdx w x := by
      unfold chainIdx
      rw [hcur.1, ancIdx_some hw', hcur.2]
      congr 1
      exact ancIdx_push hw h (by simp only [bound]; omega)
    have hylt : ∀ j ∈ chainIdx w y, j < w.nodes.size := by
      intro j hj
      have := ancIdx_lt hw hj
      simp only [bound] at this; omega
    refine ⟨?_, ?_, ?_⟩
    · apply push_frame hw hy hxy h
      intro hm
      apply hsx (w.board x).current
      · rw [hchx]; simp
      · rw [hchy]; exact List.mem_cons_of_mem _ hm
    · intro j hj
      rw [hchx', List.take_succ_cons, List.mem_cons] at hj
      rw [hchy']
      rcases hj with hj | hj
      · subst hj; intro hm; have := hylt _ hm; omega
      · exact hsx j hj
    · intro j hj
      rw [hchy'] at hj
      rw [hchx', List.mem_cons, not_or]
      refine ⟨?_, hsy j hj⟩
      have := hylt j (List.mem_of_mem_take hj)
      omega
  | pop =>
    cases dx with
    | zero => simp [Op.depth] at hd
    | succ d =>
      simp only [Op.depth, Option.some.injEq] at hd
      subst hd
      simp only [step] at h
      cases hp : w.popMove x with
      | none => rw [hp] at h; cases h
      | some r =>
        obtain ⟨w1, m⟩ := r
        rw [hp] at h
        simp only [Option.map_some, Option.some.injEq] at h
        subst h
        have hprev := pop_current hx hp
        have hby := pop_board_other hp hxy
        have hchy' : chainIdx w1 y = chainIdx w y := by
          unfold chainIdx
          rw [hby]
          exact ancIdx_pop hp _
        have hchx' : chainIdx w x = (w.board x).current :: chainIdx w1 x := by
          rw [hchx]
          unfold chainIdx
          rw [ancIdx_pop hp, hprev]
        refine ⟨?_, ?_, ?_⟩
        · apply pop_frame hxy hp
          intro pi hpi hm
          rw [hprev, Option.some.injEq] at hpi
          apply hsx pi
          · rw [hchx', List.take_succ_cons]
            apply List.mem_cons_of_mem
            unfold chainIdx
            rw [← hpi, ancIdx_some (wf_pop hw hp)]
            simp
          · rw [hchy]; exact List.mem_cons_of_mem _ hm
        · intro j hj
          rw [hchy']
          apply hsx j
          rw [hchx', List.take_succ_cons]
          exact List.mem_cons_of_mem _ hj
        · intro j hj
          rw [hchy'] at hj
          intro hm
          apply hsy j hj
          rw [hchx']
          exact List.mem_cons_of_mem _ hm

/-! ## interleaved runs of two boards -/

/-- An interleaved sequence of operations on two boards: `(true, o)` is `o` on the first board,
`(false, o)` is `o` on the second. -/
def run2 (z : ZTable) (a b : Nat) : World → List (Bool × Op) → Option World
  | w, [] => some w
  | w, (s, o) :: r => (step z (if s then a else b) w o).bind (run2 z a b · r)

/-- The operations of one of the two boards. -/
def proj (s : Bool) : List (Bool × Op) → List Op
  | [] => []
  | (s', o) :: r => if s' = s then o :: proj s r else proj s r

/-- Neither board is ever taken back below the point where it started (`da`, `db`: current heights). -/
def above2 : Nat → Nat → List (Bool × Op) → Bool
  | _, _, [] => true
  | da, db, (true, o) :: r =>
    match o.depth da with
    | none => false
    | some da' => above2 da' db r
  | da, db, (false, o) :: r =>
    match o.depth db with
    | none => false
    | some db' => above2 da db' r

/-- In an interleaved run of two separated boards, each board's view evolves as if it were alone. -/
theorem run2_view {z : ZTable} {a b : Nat} (ops : List (Bool × Op)) :
    ∀ {w w' : World} {da db : Nat}, WFWorld w → a < w.boards.size → b < w.boards.size → a ≠ b →
      Sep w a b da → Sep w b a db → above2 da db ops = true → run2 z a b w ops = some w' →
      viewRun z (view w a) (proj true ops) = some (view w' a) ∧
      viewRun z (view w b) (proj false ops) = some (view w' b) := by
  induction ops with
  | nil =>
    intro w w' da db _ _ _ _ _ _ _ h
    simp only [run2, Option.some.injEq] at h
    subst h
    exact ⟨rfl, rfl⟩
  | cons so r ih =>
    intro w w' da db hw ha hb hab hsa hsb habove h
    obtain ⟨s, o⟩ := so
    cases s with
    | true =>
      simp only [run2, if_true] at h
      simp only [above2] at habove
      cases hd : o.depth da with
      | none => rw [hd] at habove; cases habove
      | some da' =>
        rw [hd] at habove
        cases hs : step z a w o with
        | none => rw [hs] at h; cases h
        | some w1 =>
          rw [hs] at h
          simp only [Option.bind_some] at h
          have hwf := step_wf hw ha hs
          obtain ⟨hv, hs1, hs2⟩ := step_sep hw ha hb hab hsa hsb hd hs
          have hrec := ih hwf.1 (by omega) (by omega) hab hs1 hs2 habove h
          have hstep : viewStep z (view w a) o = some (view w1 a) := by
            rw [← step_view hw ha o, hs]; rfl
          constructor
          · simp only [proj, if_true, viewRun, hstep, Option.bind_some]
            exact hrec.1
          · simp only [proj, Bool.true_eq_false, if_false]
            rw [← hv]; exact hrec.2
    | false =>
      simp only [run2, Bool.false_eq_true, if_false] at h
      simp only [above2] at habove
      cases hd : o.depth db with
      | none => rw [hd] at habove; cases habove
      | some db' =>
        rw [hd] at habove
        cases hs : step z b w o with
        | none => rw [hs] at h; cases h
        | some w1 =>
          rw [hs] at h
          simp only [Option.bind_some] at h
          have hwf := step_wf hw hb hs
          obtain ⟨hv, hs1, hs2⟩ := step_sep hw hb ha (Ne.symm hab) hsb hsa hd hs
          have hrec := ih hwf.1 (by omega) (by omega) hab hs2 hs1 habove h
          have hstep : viewStep z (view w b) o = some (view w1 b) := by
            rw [← step_view hw hb o, hs]; rfl
          constructor
          · simp only [proj, Bool.false_eq_true, if_false]
            rw [← hv]; exact hrec.1
          · simp only [proj, if_true, viewRun, hstep, Option.bind_some]
            exact hrec.2

theorem run2_wf {z : ZTable} {a b : Nat} (ops : List (Bool × Op)) :
    ∀ {w w' : World}, WFWorld w → a < w.boards.size → b < w.boards.size → run2 z a b w ops = some w' →
      WFWorld w' ∧ w'.boards.size = w.boards.size := by
  induction ops with
  | nil => intro w w' hw _ _ h; cases h; exact ⟨hw, rfl⟩
  | cons so r ih =>
    intro w w' hw ha hb h
    obtain ⟨s, o⟩ := so
    simp only [run2] at h
    cases hs : step z (if s = true then a else b) w o with
    | none => rw [hs] at h; cases h
    | some w1 =>
      rw [hs] at h
      have h1 := step_wf hw (by split <;> assumption) hs
      have h2 := ih h1.1 (by omega) (by omega) h
      exact ⟨h2.1, by omega⟩

end Morlock.Proofs.Arena
