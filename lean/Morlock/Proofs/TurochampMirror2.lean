import Morlock.Proofs.TurochampMirror
import Morlock.Proofs.TurochampDeterministic
/-!
# `Eval.Evaluate` is colour-blind, reduced to three facts about the legal moves under the mirror

By `evaluateCoreOrd_closed`, `Eval.Evaluate` is a function of `Material.Evaluate` and the exact sums `idealPlay`. Of
`idealPlay` the defence sum, the king-safety term, the pawn sum, the castling-right, has-castled and check terms are
mirror invariant (proved here). What remains (`MirrorGap`): `mayCheckMate`, `mayCastle` and the exact mobility sum.
-/
namespace Morlock.Proofs.Turochamp
open Morlock Morlock.Model Morlock.Model.Flt Morlock.Model.Turochamp Morlock.Proofs.Gen Morlock.Proofs.Mirror

/-- the squares of a bitboard and of its mirror image -/
theorem toSquares_mirror_perm {x y : Nat} (hx : x < 2 ^ 64) (hy : y < 2 ^ 64)
    (h : ∀ u, u < 64 → y.testBit u = x.testBit (Spec.mirrorSq u)) :
    ((toSquares y).map Spec.mirrorSq).Perm (toSquares x) := by
  apply (List.perm_ext_iff_of_nodup ?_ (toSquares_nodup hx)).mpr
  · intro a
    rw [Spec.mem_map_mirrorSq, mem_toSquares hy, mem_toSquares hx]
    by_cases ha : a < 64
    · rw [h _ (Spec.mirrorSq_lt ha), Spec.mirrorSq_mirrorSq]
    · have ha' : 64 ≤ a := by omega
      rw [Spec.mirrorSq_of_ge ha', Attack.testBit_ge_false hx ha', Attack.testBit_ge_false hy ha']
  · exact nodup_map_of_inj (toSquares_nodup hy) (fun a _ b _ e => Spec.mirrorSq_inj e)

theorem isum_map_mirror {x y : Nat} (hx : x < 2 ^ 64) (hy : y < 2 ^ 64)
    (h : ∀ u, u < 64 → y.testBit u = x.testBit (Spec.mirrorSq u)) (g g' : Nat → Int)
    (hg : ∀ u, u < 64 → g' u = g (Spec.mirrorSq u)) :
    isum ((toSquares y).map g') = isum ((toSquares x).map g) := by
  have e1 : (toSquares y).map g' = ((toSquares y).map Spec.mirrorSq).map g := by
    rw [List.map_map]
    apply List.map_congr_left
    intro u hu
    exact hg u (toSquares_lt hy hu)
  rw [e1]
  exact isum_perm ((toSquares_mirror_perm hx hy h).map g)

theorem middle_lt {p : Position} {b : Board} (hp : Rep p b) (c : Color) : middle p c < 2 ^ 64 := by
  unfold middle
  exact Nat.or_lt_two_pow (Nat.or_lt_two_pow (hp.piecesLt _ _) (hp.piecesLt _ _)) (hp.piecesLt _ _)

/-- the defence sum of part (2) -/
theorem defSum_mirror {p q : Position} {b : Board} (hp : Rep p b) (hq : Rep q (mirrorBoard b)) (c : Color) :
    defSum q c.opp (toSquares (middle q c.opp)) = defSum p c (toSquares (middle p c)) := by
  unfold defSum
  apply isum_map_mirror (middle_lt hp c) (middle_lt hq c.opp) (fun u hu => middle_mirror hp hq c hu)
  intro u hu
  have := defenders_mirror hp hq c (Spec.mirrorSq_lt hu)
  rw [Spec.mirrorSq_mirrorSq] at this
  rw [this]

/-- the pawn sum of part (4) -/
theorem pawnSum_mirror {p q : Position} {b : Board} (hp : Rep p b) (hq : Rep q (mirrorBoard b)) (c : Color) :
    pawnSum q c.opp (toSquares (q.pieces c.opp .pawn)) = pawnSum p c (toSquares (p.pieces c .pawn)) := by
  unfold pawnSum
  apply isum_map_mirror (hp.piecesLt _ _) (hq.piecesLt _ _) (fun u hu => pieces_mirror hp hq c .pawn hu)
  intro u hu
  have h1 := pawnRanks_mirror c (Spec.mirrorSq_lt hu)
  have h2 := officerDefended_mirror hp hq c (Spec.mirrorSq_lt hu) kqrnb (fun _ h => h)
  rw [Spec.mirrorSq_mirrorSq] at h1 h2
  unfold pawn10
  rw [h1, h2]

/-- the king-safety term of part (3) -/
theorem safety10_mirror {p q : Position} {t : Color} (hw : WF p t) {b : Board} (hp : Rep p b)
    (hq : Rep q (mirrorBoard b)) (c : Color) : safety10 q c.opp = safety10 p c := by
  unfold safety10
  by_cases hk : p.pieces c .king = 0
  · have hkq := (king_zero_mirror hp hq c).mpr hk
    simp [hk, hkq]
  · have hkq : q.pieces c.opp .king ≠ 0 := fun e => hk ((king_zero_mirror hp hq c).mp e)
    have hs := safety_mirror hw hp hq c hk
    simp [hk, hkq, hs]

/-- What is NOT proved about the mirror image: the two flags of loop (1) and the exact mobility sum, for one colour. -/
structure MirrorGap (p q : Position) (c : Color) : Prop where
  mate : mayCheckMate q c.opp = mayCheckMate p c
  castle : mayCastle q c.opp = mayCastle p c
  mob : mob10 (mobility q c.opp) = mob10 (mobility p c)

/-- **the exact position-play value is colour-blind**, given `MirrorGap` -/
theorem idealPlay_mirror {p q : Position} {t : Color} (hw : WF p t) {b : Board} (hp : Rep p b)
    (hq : Rep q (mirrorBoard b)) (habs : abs q t.opp = Spec.mirror (abs p t))
    (hwk : (q.castling &&& wK != 0) = (p.castling &&& bK != 0))
    (hwq : (q.castling &&& wQ != 0) = (p.castling &&& bQ != 0))
    (hbk : (q.castling &&& bK != 0) = (p.castling &&& wK != 0))
    (hbq : (q.castling &&& bQ != 0) = (p.castling &&& wQ != 0))
    (c : Color) (castled : Bool) (hg : MirrorGap p q c) :
    idealPlay q castled c.opp = idealPlay p castled c := by
  unfold idealPlay pre10
  have hchk := isChecked_mirror hw hp hq habs c.opp
  rw [castleRight_mirror c hwk hwq hbk hbq, hg.mate, hg.castle, hg.mob, defSum_mirror hp hq c, pawnSum_mirror hp hq c,
    safety10_mirror hw hp hq c, hchk]

/-- `Sane` is mirror invariant -/
theorem sane_mirror {p q : Position} {b : Board} (hp : Rep p b) (hq : Rep q (mirrorBoard b)) (c : Color)
    (hs : Sane p c) : Sane q c.opp := by
  have l1 := (toSquares_mirror_perm (hp.piecesLt c .none) (hq.piecesLt c.opp .none)
    (fun u hu => pieces_mirror hp hq c .none hu)).length_eq
  have l2 := (toSquares_mirror_perm (middle_lt hp c) (middle_lt hq c.opp) (fun u hu => middle_mirror hp hq c hu)).length_eq
  have l3 := (toSquares_mirror_perm (hp.piecesLt c .pawn) (hq.piecesLt c.opp .pawn)
    (fun u hu => pieces_mirror hp hq c .pawn hu)).length_eq
  simp only [List.length_map] at l1 l2 l3
  refine ⟨by rw [l1]; exact hs.men, by rw [l2, l3]; exact hs.officers, ?_⟩
  intro sq hsq
  have h64 := toSquares_lt (hq.piecesLt c.opp .pawn) hsq
  have hm : Spec.mirrorSq sq ∈ toSquares (p.pieces c .pawn) := by
    rw [mem_toSquares (hp.piecesLt _ _), ← pieces_mirror hp hq c .pawn h64, ← mem_toSquares (hq.piecesLt _ _)]
    exact hsq
  have := pawnRanks_mirror c (Spec.mirrorSq_lt h64)
  rw [Spec.mirrorSq_mirrorSq] at this
  rw [this]
  exact hs.ranks _ hm

/-- **`Eval.Evaluate` is colour-blind** (as a float32, for any iteration orders on both boards), given `MirrorGap` for the
two colours: the position `q` representing the mirrored board evaluates for `turn.opp` to what `p` evaluates for `turn`. -/
theorem evaluateCoreOrd_mirror {p q : Position} {t : Color} (hw : WF p t) (hwq : WF q t.opp) {b : Board} (hp : Rep p b)
    (hq : Rep q (mirrorBoard b)) (habs : abs q t.opp = Spec.mirror (abs p t))
    (hwk : (q.castling &&& wK != 0) = (p.castling &&& bK != 0))
    (hwq' : (q.castling &&& wQ != 0) = (p.castling &&& bQ != 0))
    (hbk : (q.castling &&& bK != 0) = (p.castling &&& wK != 0))
    (hbq : (q.castling &&& bQ != 0) = (p.castling &&& wQ != 0))
    (hW : Sane p .white) (hB : Sane p .black) (hgap : ∀ c, MirrorGap p q c)
    (cs co : Bool) (turn : Color) (oS oO oS' oO' : List (Nat × Nat) → List (Nat × Nat))
    (hpS : ∀ l, (oS l).Perm l) (hpO : ∀ l, (oO l).Perm l) (hpS' : ∀ l, (oS' l).Perm l) (hpO' : ∀ l, (oO' l).Perm l) :
    evaluateCoreOrd oS oO q cs co turn.opp = evaluateCoreOrd oS' oO' p cs co turn := by
  have hSp : ∀ c, Small p c := fun c => by cases c <;> exact small_of_sane hw (by assumption)
  have hSq : ∀ c, Small q c := fun c => by
    have : Sane q c := by
      have := sane_mirror hp hq c.opp (by cases c <;> assumption)
      rwa [opp_opp] at this
    exact small_of_sane hwq this
  rw [evaluateCoreOrd_closed (hSq turn.opp) (hSq turn.opp.opp) cs co oS oO hpS hpO,
    evaluateCoreOrd_closed (hSp turn) (hSp turn.opp) cs co oS' oO' hpS' hpO',
    materialEvaluate_mirror hp hq turn,
    idealPlay_mirror hw hp hq habs hwk hwq' hbk hbq turn cs (hgap turn)]
  have h2 := idealPlay_mirror hw hp hq habs hwk hwq' hbk hbq turn.opp co (hgap turn.opp)
  rw [h2]

end Morlock.Proofs.Turochamp
