import Morlock.Proofs.UciPosText
/-!
# Engine-level lemmas for C10: `extend` vs `play`, the new-position path on a well-formed line
-/
namespace Morlock.Proofs.UciPos
open Morlock.Model Morlock.Model.UciSeq Morlock.Model.UciPos Morlock.Proofs.UciPosText

variable {E : Type}

/-- Play the words that are not the literal `moves` (what `extend` does), as an `Option`. -/
def playSkip (eng : Eng E) (e : E) (ws : List (List Char)) : Option E :=
  play eng e (ws.filter (· ≠ kwMoves))

theorem play_append (eng : Eng E) (e : E) (a b : List (List Char)) :
    play eng e (a ++ b) = (play eng e a).bind fun e' => play eng e' b := by
  induction a generalizing e with
  | nil => simp [play]
  | cons m a ih =>
    simp only [List.cons_append, play]
    cases eng.move e m with
    | none => simp
    | some e' => simp [ih]

theorem playSkip_append (eng : Eng E) (e : E) (a b : List (List Char)) :
    playSkip eng e (a ++ b) = (playSkip eng e a).bind fun e' => playSkip eng e' b := by
  simp [playSkip, List.filter_append, play_append]

theorem playSkip_moves_cons (eng : Eng E) (e : E) (ws : List (List Char)) :
    playSkip eng e (kwMoves :: ws) = playSkip eng e ws := by
  simp [playSkip]

theorem playSkip_of_no_moves (eng : Eng E) (e : E) (ws : List (List Char)) (h : ∀ w ∈ ws, w ≠ kwMoves) :
    playSkip eng e ws = play eng e ws := by
  unfold playSkip
  rw [List.filter_eq_self.2]
  intro w hw; simpa using h w hw

/-- `extend` is `playSkip`, plus the engine it leaves behind when it fails. -/
theorem extend_ok_iff (eng : Eng E) (e e' : E) (ws : List (List Char)) :
    extend eng e ws = (e', true) ↔ playSkip eng e ws = some e' := by
  induction ws generalizing e with
  | nil => simp [extend, playSkip, play, eq_comm]
  | cons w ws ih =>
    by_cases hw : w = kwMoves
    · subst hw; rw [playSkip_moves_cons]; simp [extend, ih]
    · have : playSkip eng e (w :: ws) = (eng.move e w).bind fun e1 => playSkip eng e1 ws := by
        simp [playSkip, hw, play]
      rw [this]
      simp only [extend, hw, if_false]
      cases eng.move e w with
      | none => simp
      | some e1 => simp [ih]

theorem extend_fail_iff (eng : Eng E) (e : E) (ws : List (List Char)) :
    (extend eng e ws).2 = false ↔ playSkip eng e ws = none := by
  induction ws generalizing e with
  | nil => simp [extend, playSkip, play]
  | cons w ws ih =>
    by_cases hw : w = kwMoves
    · subst hw; rw [playSkip_moves_cons]; simp [extend, ih]
    · have : playSkip eng e (w :: ws) = (eng.move e w).bind fun e1 => playSkip eng e1 ws := by
        simp [playSkip, hw, play]
      rw [this]
      simp only [extend, hw, if_false]
      cases eng.move e w with
      | none => simp
      | some e1 => simp [ih]

theorem extend_of_playSkip (eng : Eng E) (e e' : E) (ws : List (List Char)) (h : playSkip eng e ws = some e') :
    extend eng e ws = (e', true) := (extend_ok_iff eng e e' ws).2 h

/-! ## Well-formed lines -/

/-- The position text of a well-formed command. -/
def fenStr (c : Cmd) : List Char :=
  match c.fen with
  | none => initialFen
  | some fs => joinSp fs

/-- The meaning of the command: reset, then play the moves. -/
def denoteC (eng : Eng E) (c : Cmd) : Option E := (eng.reset (fenStr c)).bind fun e => play eng e c.moves

theorem header_no_moves (c : Cmd) (hc : c.Ok) : ∀ w ∈ c.header, w ≠ kwMoves := by
  intro w hw
  unfold Cmd.header at hw
  cases hf : c.fen with
  | none => rw [hf] at hw; simp at hw; subst hw; decide
  | some fs =>
    rw [hf] at hw
    simp at hw
    rcases hw with h | h
    · subst h; decide
    · exact ((hc.1 fs hf).2 w h).2

theorem header_ne_nil (c : Cmd) : c.header ≠ [] := by
  unfold Cmd.header; cases c.fen <;> simp

theorem word_of_lit (w : List Char) (h : (w ≠ [] ∧ ∀ c ∈ w, Fen.isSpace c = false)) : Word w := h

/-- Every word of a well-formed command is a `Word`. -/
theorem words_word (c : Cmd) (hc : c.Ok) : ∀ w ∈ c.words, Word w := by
  intro w hw
  simp only [Cmd.words, List.mem_cons, List.mem_append] at hw
  rcases hw with h | h | h
  · subst h; exact word_of_lit _ (by decide)
  · unfold Cmd.header at h
    cases hf : c.fen with
    | none => rw [hf] at h; simp at h; subst h; exact word_of_lit _ (by decide)
    | some fs =>
      rw [hf] at h; simp at h
      rcases h with h | h
      · subst h; exact word_of_lit _ (by decide)
      · exact ((hc.1 fs hf).2 w h).1
  · unfold Cmd.tail at h
    split at h
    · simp at h
    · simp at h
      rcases h with h | h
      · subst h; exact word_of_lit _ (by decide)
      · exact (hc.2 w h).1

theorem words_no_space (c : Cmd) (hc : c.Ok) : ∀ w ∈ c.words, ' ' ∉ w :=
  fun w hw => Word.no_space (words_word c hc w hw)

theorem words_ne_nil_each (c : Cmd) (hc : c.Ok) : ∀ w ∈ c.words, w ≠ [] :=
  fun w hw => (words_word c hc w hw).1

theorem splitSpaces_render (c : Cmd) (hc : c.Ok) : Fen.splitSpaces c.render = c.words :=
  splitSpaces_joinSp c.words (by simp [Cmd.words]) (words_no_space c hc)

theorem argsOf_render (c : Cmd) (hc : c.Ok) (ht : Fen.trimSpace c.render = c.render) :
    argsOf c.render = c.header ++ c.tail := by
  simp [argsOf, ht, splitSpaces_render c hc, Cmd.words]

/-- The position text the handler picks is the one of the command — also with more words behind. -/
theorem fenOf_header (c : Cmd) (hc : c.Ok) (x : List (List Char)) : fenOf (c.header ++ x) = fenStr c := by
  unfold fenOf Cmd.header fenStr
  cases hf : c.fen with
  | none =>
    have : (kwStartpos = kwFen) = False := by decide
    simp [this]
  | some fs =>
    have hl := (hc.1 fs hf).1
    have h1 : (kwFen :: fs ++ x).length ≥ 7 := by simp; omega
    simp only [List.cons_append, List.head?_cons, List.drop_succ_cons, List.drop_zero]
    simp only [List.cons_append] at h1
    simp [List.take_append_of_le_length (Nat.le_of_eq hl.symm), List.take_of_length_le (Nat.le_of_eq hl)]
    intro h; omega

theorem afterMoves_of_no_moves (h x : List (List Char)) (hh : ∀ w ∈ h, w ≠ kwMoves) :
    afterMoves (h ++ x) = afterMoves x := by
  unfold afterMoves
  congr 1
  induction h with
  | nil => rfl
  | cons w h ih =>
    have hw : w ≠ kwMoves := hh w (by simp)
    simp only [List.cons_append, List.dropWhile_cons]
    simp only [hw, ne_eq, not_false_eq_true, decide_true, if_true]
    exact ih (fun v hv => hh v (by simp [hv]))

theorem afterMoves_moves_cons (x : List (List Char)) : afterMoves (kwMoves :: x) = x := by
  simp [afterMoves]

theorem afterMoves_nil : afterMoves [] = [] := rfl

/-- The move loop of the new-position path sees the tail without its `moves` keyword, and then more. -/
theorem playSkip_afterMoves_tail (eng : Eng E) (e : E) (c : Cmd) (x : List (List Char)) (hx : c.tail = [] → x = []) :
    playSkip eng e (afterMoves (c.tail ++ x)) = playSkip eng e (c.tail ++ x) := by
  unfold Cmd.tail at *
  split
  · rename_i h; simp [h] at hx; subst hx; simp [afterMoves_nil]
  · simp [afterMoves_moves_cons, playSkip_moves_cons]

theorem playSkip_tail (eng : Eng E) (e : E) (c : Cmd) (hc : c.Ok) : playSkip eng e c.tail = play eng e c.moves := by
  unfold Cmd.tail
  split
  · rename_i h; simp [h, playSkip, play]
  · rw [playSkip_moves_cons, playSkip_of_no_moves _ _ _ (fun w hw => (hc.2 w hw).2)]

theorem denoteC_eq (eng : Eng E) (c : Cmd) (hc : c.Ok) :
    denoteC eng c = (eng.reset (fenStr c)).bind fun e => playSkip eng e c.tail := by
  unfold denoteC; congr; funext e; exact (playSkip_tail eng e c hc).symm

/-- The independent reading `denote` of a rendered command is its meaning. -/
theorem denote_render (eng : Eng E) (c : Cmd) (hc : c.Ok) : denote eng c.render = denoteC eng c := by
  unfold denote
  rw [splitSpaces_render c hc]
  unfold Cmd.words Cmd.header denoteC fenStr
  have hpos : (kwPosition ≠ kwPosition) = False := by simp
  cases hf : c.fen with
  | none =>
    simp only [List.cons_append, List.nil_append, hpos, if_false, if_true]
    unfold denoteFrom Cmd.tail
    by_cases hm : c.moves = []
    · simp [hm, play]
    · simp [hm]
  | some fs =>
    have hl := (hc.1 fs hf).1
    have h1 : (kwFen = kwStartpos) = False := by decide
    have h2 : (fs ++ c.tail).length ≥ 6 := by simp; omega
    simp only [List.cons_append, hpos, if_false, h1, h2, and_self, if_true,
      List.take_append_of_le_length (Nat.le_of_eq hl.symm), List.take_of_length_le (Nat.le_of_eq hl)]
    have h3 : (fs ++ c.tail).drop 6 = c.tail := by rw [← hl]; simp
    rw [h3]
    unfold denoteFrom Cmd.tail
    by_cases hm : c.moves = []
    · simp [hm, play]
    · simp [hm]

/-- The new-position path on a well-formed, playable line: the line's meaning, whatever the engine was. -/
theorem fresh_render (eng : Eng E) (e d : E) (c : Cmd) (hc : c.Ok) (ht : Fen.trimSpace c.render = c.render)
    (hd : denoteC eng c = some d) : fresh eng e c.render = (d, c.render) := by
  unfold fresh
  simp only [argsOf_render c hc ht]
  rw [fenOf_header c hc]
  rw [denoteC_eq eng c hc] at hd
  cases hr : eng.reset (fenStr c) with
  | none => simp [hr] at hd
  | some e' =>
    simp only [hr, Option.bind_some] at hd
    rw [afterMoves_of_no_moves _ _ (header_no_moves c hc)]
    have h1 : playSkip eng e' (afterMoves c.tail) = some d := by
      have := playSkip_afterMoves_tail eng e' c [] (fun _ => rfl)
      simp only [List.append_nil] at this
      rw [this, hd]
    have h2 := extend_of_playSkip eng e' d _ h1
    simp [h2]

end Morlock.Proofs.UciPos
