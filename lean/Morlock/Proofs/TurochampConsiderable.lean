import Morlock.Model.Turochamp
import Morlock.Proofs.GenNodup
import Morlock.Proofs.Arena
import Morlock.Proofs.GenPseudo
/-!
# TUROCHAMP: the considerable-moves filter selects legal moves, in generator order, each once
-/
namespace Morlock.Proofs.Turochamp
open Morlock Morlock.Model Morlock.Model.Turochamp Morlock.Proofs.Arena Morlock.Proofs.Gen

/-- `PushMove` accepts only moves that `Position.Move` accepts. -/
theorem pushMove_some_move {w : World} {z : ZTable} {b : Nat} {m : Move} {w' : World}
    (h : w.pushMove z b m = some w') : ((w.cur b).pos.move m).isSome = true := by
  obtain ⟨_, next, hn, _⟩ := pushMove_some h
  rw [hn]; rfl

/-- What the loop returns is a sublist of the moves it was given that `Position.Move` accepts. -/
theorem considerableLoop_sublist (z : ZTable) (w : World) (b : Nat) :
    ∀ (ms l : List Move), considerableLoop z w b ms = some l →
      l.Sublist (ms.filter fun m => ((w.cur b).pos.move m).isSome)
  | [], l, h => by
    simp only [considerableLoop, Option.some.injEq] at h
    subst h; exact List.Sublist.refl _
  | m :: rest, l, h => by
    unfold considerableLoop at h
    cases hp : w.pushMove z b m with
    | none =>
      rw [hp] at h
      have ih := considerableLoop_sublist z w b rest l h
      rw [List.filter_cons]
      split
      · exact List.Sublist.cons _ ih
      · exact ih
    | some w' =>
      rw [hp] at h
      have hm := pushMove_some_move hp
      rw [List.filter_cons, if_pos hm]
      cases hc : considerablePick b w' m with
      | none => simp [hc] at h
      | some c =>
        cases hr : considerableLoop z w b rest with
        | none => simp [hc, hr] at h
        | some l' =>
          have ih := considerableLoop_sublist z w b rest l' hr
          simp only [hc, hr, Option.bind_some, Option.map_some, Option.some.injEq] at h
          subst h
          cases c
          · exact List.Sublist.cons _ ih
          · exact List.Sublist.cons_cons _ ih

/-- every selected move was accepted by `PushMove` and judged considerable on the board after it -/
theorem considerableLoop_mem (z : ZTable) (w : World) (b : Nat) :
    ∀ (ms l : List Move), considerableLoop z w b ms = some l → ∀ m ∈ l,
      ∃ w', w.pushMove z b m = some w' ∧ isConsiderableMove m w' b = some true
  | [], l, h, m, hm => by
    simp only [considerableLoop, Option.some.injEq] at h
    subst h; cases hm
  | x :: rest, l, h, m, hm => by
    unfold considerableLoop at h
    cases hp : w.pushMove z b x with
    | none =>
      rw [hp] at h
      exact considerableLoop_mem z w b rest l h m hm
    | some w' =>
      rw [hp] at h
      cases hc : considerablePick b w' x with
      | none => simp [hc] at h
      | some c =>
        cases hr : considerableLoop z w b rest with
        | none => simp [hc, hr] at h
        | some l' =>
          simp only [hc, hr, Option.bind_some, Option.map_some, Option.some.injEq] at h
          subst h
          cases c
          · exact considerableLoop_mem z w b rest l' hr m hm
          · rcases List.mem_cons.mp hm with e | hm'
            · subst e; exact ⟨w', hp, hc⟩
            · exact considerableLoop_mem z w b rest l' hr m hm'

/-- the test the loop applies to a generated move -/
def considerableTest (z : ZTable) (w : World) (b : Nat) (m : Move) : Bool :=
  match w.pushMove z b m with
  | some w' => isConsiderableMove m w' b == some true
  | none => false

/-- when nothing panics, the loop is a filter -/
theorem considerableLoop_eq_filter (z : ZTable) (w : World) (b : Nat) :
    ∀ (ms l : List Move), considerableLoop z w b ms = some l → l = ms.filter (considerableTest z w b)
  | [], l, h => by
    simp only [considerableLoop, Option.some.injEq] at h
    subst h; rfl
  | m :: rest, l, h => by
    unfold considerableLoop at h
    rw [List.filter_cons]
    cases hp : w.pushMove z b m with
    | none =>
      rw [hp] at h
      have ht : considerableTest z w b m = false := by unfold considerableTest; rw [hp]
      rw [ht]
      exact considerableLoop_eq_filter z w b rest l h
    | some w' =>
      rw [hp] at h
      cases hc : considerablePick b w' m with
      | none => simp [hc] at h
      | some c =>
        cases hr : considerableLoop z w b rest with
        | none => simp [hc, hr] at h
        | some l' =>
          have ih := considerableLoop_eq_filter z w b rest l' hr
          simp only [hc, hr, Option.bind_some, Option.map_some, Option.some.injEq] at h
          subst h
          have ht : considerableTest z w b m = c := by
            unfold considerableTest
            rw [hp]
            have : isConsiderableMove m w' b = some c := hc
            show (isConsiderableMove m w' b == some true) = c
            rw [this]
            cases c <;> rfl
          rw [ht, ih]

/-- `pieceValue` does not panic on real pieces. -/
theorem pieceValue_isSome {k : Piece} (hk : k ≠ .none) : (pieceValue k).isSome = true := by
  cases k <;> simp [pieceValue] at hk ⊢

/-- `IsConsiderableMove` does not panic on a move whose piece is real and whose capture field is real if it is a capture. -/
theorem isConsiderableCore_isSome (m : Move) (pos : Position) (turn : Color) (s : Option Move)
    (hp : m.piece ≠ .none) (hc : m.isCapture = true → m.capture ≠ .none) :
    (isConsiderableCore m pos turn s).isSome = true := by
  unfold isConsiderableCore
  by_cases hcap : m.isCapture = true
  · obtain ⟨a, ha⟩ := Option.isSome_iff_exists.mp (pieceValue_isSome hp)
    obtain ⟨c, hc'⟩ := Option.isSome_iff_exists.mp (pieceValue_isSome (hc hcap))
    simp [hcap, ha, hc']
  · simp [hcap]

/-- Generated moves carry a real piece, and a real captured piece if they are captures. -/
theorem pseudo_piece_capture_ok {p : Position} {turn t : Color} (hw : WF p t) {m : Move}
    (hm : m ∈ p.pseudoLegalMoves turn) : m.piece ≠ .none ∧ (m.isCapture = true → m.capture ≠ .none) := by
  have h := hw.rep
  have hstep : ∀ pc, StepMove p.square turn pc m → m.piece ≠ .none ∧ (m.isCapture = true → m.capture ≠ .none) := by
    intro pc ⟨hfr, hpc, _, _, hcase⟩
    refine ⟨by rw [hpc]; exact h.ne_none_of_some hfr, fun hcap => ?_⟩
    rcases hcase with ⟨_, hty, _⟩ | ⟨k, hk, _, hc⟩
    · simp [Move.isCapture, hty] at hcap
    · rw [hc]; exact h.ne_none_of_some hk
  rcases (mem_pseudoLegalMoves h hw.wfb m).mp hm with ⟨pc, _, hs⟩ | hp | hs | ⟨_, hc⟩
  · exact hstep pc hs
  · obtain ⟨_, hpc, hcase⟩ := hp
    refine ⟨by rw [hpc]; simp, fun hcap => ?_⟩
    rcases hcase with ⟨_, _, _, h4⟩ | ⟨_, _, _, _, _, _, hty, _⟩ | ⟨_, k, hk, hc, _⟩ | ⟨_, _, _, _, hty, _⟩
    · rcases h4 with ⟨_, hty, _⟩ | ⟨_, hty, _⟩ <;> simp [Move.isCapture, hty] at hcap
    · simp [Move.isCapture, hty] at hcap
    · rw [hc]; exact h.ne_none_of_some hk
    · simp [Move.isCapture, hty] at hcap
  · exact hstep .king hs
  · obtain ⟨cs, hcs, _, _, _, hty, hpc, _⟩ := hc
    refine ⟨by rw [hpc]; simp, fun hcap => ?_⟩
    cases turn <;> simp [castleParams] at hcs <;> rcases hcs with rfl | rfl <;> simp [Move.isCapture, hty] at hcap

/-- The loop does not panic when every move it is given carries real pieces. -/
theorem considerableLoop_isSome (z : ZTable) (w : World) (b : Nat) :
    ∀ ms : List Move, (∀ m ∈ ms, m.piece ≠ .none ∧ (m.isCapture = true → m.capture ≠ .none)) →
      (considerableLoop z w b ms).isSome = true
  | [], _ => rfl
  | m :: rest, hall => by
    have ih := considerableLoop_isSome z w b rest (fun x hx => hall x (List.mem_cons_of_mem _ hx))
    unfold considerableLoop
    cases hp : w.pushMove z b m with
    | none => exact ih
    | some w' =>
      obtain ⟨l, hl⟩ := Option.isSome_iff_exists.mp ih
      have hm := hall m (List.mem_cons_self ..)
      obtain ⟨c, hc⟩ := Option.isSome_iff_exists.mp
        (isConsiderableCore_isSome m (w'.cur b).pos (w'.board b).turn (w'.secondToLastMove b) hm.1 hm.2)
      simp [considerablePick, isConsiderableMove, hc, hl]

end Morlock.Proofs.Turochamp
