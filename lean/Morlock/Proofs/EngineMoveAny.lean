import Morlock.Proofs.EngineMove
import Morlock.Proofs.GenNodup
/-!
# `Engine.Move` on positions that are not well-formed (`Props/C19Any.lean`)

`Proofs/EngineMove.lean` characterises the texts `Engine.Move` accepts under `WF e.pos e.turn`. The only consequence
of `WF` that proof uses is C01 `pseudo_nodup` (through `find_equals`): no two generated moves share from, to and
promotion, so that "the first generated move that `Equals` the candidate passes `PushMove`" is the same as "some
generated move that `Equals` the candidate passes `PushMove`". Everything else (`move_accepted`, `legal_iff`,
`pushMove_isSome_iff`, `move_rejected_unchanged`) has no hypothesis on the position.

Here, without `WF`:
* `move_accepted_iff_first` / `move_accepted_iff_first_legal`: the faithful restatement, for every engine state;
* `firstDecides`: the exact (decidable) condition under which "the first match decides" agrees with "some match is
  legal" — `firstDecides_iff` (necessary and sufficient, per candidate), `move_accepted_iff_firstDecides`;
* `keyNodup → firstDecides`; `WF → keyNodup`;
* `pseudo_nodup_clean`: for every position that represents a mailbox board (`Rep`, which is what `fen.Decode` returns)
  the keys are distinct as soon as (a) the en-passant target does not hold a piece of the side not to move
  (`epClean`) and (b) a castle is only generated for a king on its home square (`castleClean`).
-/
namespace Morlock.Proofs.Engine
open Morlock Morlock.Model Morlock.Model.World Morlock.Proofs Morlock.Proofs.Gen Morlock.Proofs.Arena
open Morlock.Props

/-! ## The loop, restated -/

/-- The loop of `Engine.Move`: the first move of the list that `Equals` the candidate. -/
def firstMatch (cand : Move) (ms : List Move) : Option Move := ms.find? (fun m => cand.equals m)

/-- **`move_accepted_iff_first`.** For every engine state and every text, no hypothesis: `Engine.Move` accepts iff
    the text parses, some generated move `Equals` the candidate, and `PushMove` takes the FIRST such move. -/
theorem move_accepted_iff_first (z : ZTable) (e : EngineM) (txt : List Char) :
    (e.move z txt).2 = true ↔
      ∃ cand, Fen.parseMove txt = some cand ∧
        ∃ m, firstMatch cand (e.pos.pseudoLegalMoves e.turn) = some m ∧ (e.w.pushMove z 0 m).isSome = true := by
  unfold firstMatch EngineM.pos EngineM.turn
  cases hp : Fen.parseMove txt with
  | none => simp [EngineM.move, hp]
  | some cand =>
    cases hf : ((e.w.cur 0).pos.pseudoLegalMoves (e.w.board 0).turn).find? (fun m => cand.equals m) with
    | none => simp [EngineM.move, hp, hf]
    | some m =>
      cases hpush : e.w.pushMove z 0 m with
      | none => simp [EngineM.move, hp, hf, hpush]
      | some w' => simp [EngineM.move, hp, hf, hpush]

/-- The same with `PushMove` resolved (`pushMove_isSome_iff`): the board has not been adjudicated, and
    `Position.Move` accepts the first match. Still no hypothesis. -/
theorem move_accepted_iff_first_legal (z : ZTable) (e : EngineM) (txt : List Char) :
    (e.move z txt).2 = true ↔
      Open e ∧ ∃ cand, Fen.parseMove txt = some cand ∧
        ∃ m, firstMatch cand (e.pos.pseudoLegalMoves e.turn) = some m ∧ (e.pos.move m).isSome = true := by
  rw [move_accepted_iff_first]
  constructor
  · rintro ⟨cand, hp, m, hf, hpush⟩
    have := (pushMove_isSome_iff e.w z 0 m).1 hpush
    exact ⟨this.1, cand, hp, m, hf, this.2⟩
  · rintro ⟨ho, cand, hp, m, hf, hm⟩
    exact ⟨cand, hp, m, hf, (pushMove_isSome_iff e.w z 0 m).2 ⟨ho, hm⟩⟩

/-- What the loop does with a parsed candidate. -/
def acceptsCand (z : ZTable) (e : EngineM) (cand : Move) : Bool :=
  match firstMatch cand (e.pos.pseudoLegalMoves e.turn) with
  | none => false
  | some m => (e.w.pushMove z 0 m).isSome

theorem move_eq_acceptsCand (z : ZTable) (e : EngineM) (txt : List Char) :
    (e.move z txt).2 = match Fen.parseMove txt with
      | none => false
      | some cand => acceptsCand z e cand := by
  unfold acceptsCand firstMatch EngineM.pos EngineM.turn
  cases hp : Fen.parseMove txt with
  | none => simp [EngineM.move, hp]
  | some cand =>
    cases hf : ((e.w.cur 0).pos.pseudoLegalMoves (e.w.board 0).turn).find? (fun m => cand.equals m) with
    | none => simp [EngineM.move, hp, hf]
    | some m =>
      cases hpush : e.w.pushMove z 0 m with
      | none => simp [EngineM.move, hp, hf, hpush]
      | some w' => simp [EngineM.move, hp, hf, hpush]

/-! ## `Equals` is an equivalence on keys -/

theorem equals_refl (m : Move) : m.equals m = true := by simp [Move.equals]

theorem equals_congr {a b : Move} (h : a.equals b = true) (x : Move) : a.equals x = b.equals x := by
  simp only [Move.equals, Bool.and_eq_true, decide_eq_true_eq] at h
  obtain ⟨⟨h1, h2⟩, h3⟩ := h
  simp only [Move.equals, h1, h2, h3]

theorem firstMatch_congr {a b : Move} (h : a.equals b = true) (l : List Move) : firstMatch a l = firstMatch b l := by
  unfold firstMatch
  have : (fun m => a.equals m) = (fun m => b.equals m) := funext (equals_congr h)
  rw [this]

theorem firstMatch_isSome {cand m : Move} {l : List Move} (hm : m ∈ l) (he : cand.equals m = true) :
    ∃ m', firstMatch cand l = some m' := by
  unfold firstMatch
  cases hf : l.find? (fun m => cand.equals m) with
  | none =>
    have := List.find?_eq_none.1 hf m hm
    simp [he] at this
  | some m' => exact ⟨m', rfl⟩

theorem firstMatch_spec {cand m' : Move} {l : List Move} (h : firstMatch cand l = some m') :
    m' ∈ l ∧ cand.equals m' = true :=
  ⟨List.mem_of_find?_eq_some h, by simpa using List.find?_some h⟩

/-! ## The exact condition: "the first match decides" -/

/-- For every legal move, the first generated move with the same from, to and promotion is accepted by
    `Position.Move`. Decidable (a `Bool`); trivially true when no two generated moves share a key. -/
def firstDecides (p : Position) (turn : Color) : Bool :=
  (p.legalMoves turn).all fun m =>
    match firstMatch m (p.pseudoLegalMoves turn) with
    | some m' => (p.move m').isSome
    | none => true

theorem firstDecides_spec {p : Position} {turn : Color} (h : firstDecides p turn = true) {m m' : Move}
    (hm : m ∈ p.legalMoves turn) (hf : firstMatch m (p.pseudoLegalMoves turn) = some m') :
    (p.move m').isSome = true := by
  unfold firstDecides at h
  rw [List.all_eq_true] at h
  have := h m hm
  rw [hf] at this
  exact this

/-- Under `firstDecides` the loop accepts a candidate iff it `Equals` a legal move (of the model's `LegalMoves`). -/
theorem acceptsCand_iff_of_firstDecides (z : ZTable) (e : EngineM) (ho : Open e)
    (hf : firstDecides e.pos e.turn = true) (cand : Move) :
    acceptsCand z e cand = true ↔ ∃ m, m ∈ e.pos.legalMoves e.turn ∧ cand.equals m = true := by
  unfold acceptsCand
  constructor
  · intro h
    split at h
    · cases h
    · rename_i m hfm
      obtain ⟨hmem, heq⟩ := firstMatch_spec hfm
      refine ⟨m, ?_, heq⟩
      rw [C01.legal_iff]
      exact ⟨hmem, ((pushMove_isSome_iff e.w z 0 m).1 h).2⟩
  · rintro ⟨m, hm, he⟩
    have hm' := (C01.legal_iff _ _ _).1 hm
    obtain ⟨m', hfm⟩ := firstMatch_isSome hm'.1 he
    have hfm2 : firstMatch m (e.pos.pseudoLegalMoves e.turn) = some m' := by
      rw [← firstMatch_congr he]; exact hfm
    have hleg := firstDecides_spec hf hm hfm2
    rw [hfm]
    exact (pushMove_isSome_iff e.w z 0 m').2 ⟨ho, hleg⟩

/-- **`firstDecides` is exactly the condition.** On a board that has not been adjudicated: the loop's verdict on
    every candidate is "it `Equals` a legal move" **iff** `firstDecides` holds. -/
theorem firstDecides_iff (z : ZTable) (e : EngineM) (ho : Open e) :
    firstDecides e.pos e.turn = true ↔
      ∀ cand, (acceptsCand z e cand = true ↔ ∃ m, m ∈ e.pos.legalMoves e.turn ∧ cand.equals m = true) := by
  constructor
  · intro hf cand; exact acceptsCand_iff_of_firstDecides z e ho hf cand
  · intro h
    unfold firstDecides
    rw [List.all_eq_true]
    intro m hm
    have hacc := (h m).2 ⟨m, hm, equals_refl m⟩
    unfold acceptsCand at hacc
    split
    · rename_i m' hfm
      rw [hfm] at hacc
      exact ((pushMove_isSome_iff e.w z 0 m').1 hacc).2
    · rfl

/-- `Engine.Move` under `firstDecides` (instead of `WF`). -/
theorem move_accepted_iff_firstDecides (z : ZTable) (e : EngineM) (txt : List Char) (ho : Open e)
    (hf : firstDecides e.pos e.turn = true) :
    (e.move z txt).2 = true ↔
      ∃ cand m, Fen.parseMove txt = some cand ∧ m ∈ e.pos.legalMoves e.turn ∧ cand.equals m = true := by
  rw [move_eq_acceptsCand]
  cases hp : Fen.parseMove txt with
  | none => simp
  | some cand =>
    simp only [acceptsCand_iff_of_firstDecides z e ho hf cand, Option.some.injEq, exists_and_left, exists_eq_left']

/-! ## Distinct keys imply `firstDecides` -/

/-- No two generated moves share from, to and promotion (C01 `pseudo_nodup`, as a decidable predicate). -/
def keyNodup (p : Position) (turn : Color) : Bool := decide ((p.pseudoLegalMoves turn).map absMove).Nodup

theorem keyNodup_of_wf {p : Position} {turn : Color} (hw : WF p turn) : keyNodup p turn = true := by
  unfold keyNodup; exact decide_eq_true (C01.pseudo_nodup hw)

theorem firstDecides_of_keyNodup {p : Position} {turn : Color} (h : keyNodup p turn = true) :
    firstDecides p turn = true := by
  unfold keyNodup at h
  have hn := of_decide_eq_true h
  unfold firstDecides
  rw [List.all_eq_true]
  intro m hm
  have hm' := (C01.legal_iff _ _ _).1 hm
  split
  · rename_i m' hfm
    obtain ⟨hmem, heq⟩ := firstMatch_spec hfm
    have : m = m' := inj_of_nodup_map absMove _ hn m hm'.1 m' hmem ((equals_iff_absMove m m').1 heq)
    rw [← this]; exact hm'.2
  · rfl

/-! ## Distinct keys on every position that represents a board, under two local conditions -/

/-- What `absMove_inj` needs of a generated move: mover, captured piece and type are functions of the board and
    `(from, to, promotion)`. -/
def Feat (b : Board) (turn : Color) (m : Move) : Prop :=
  b m.from = some (turn, m.piece) ∧ m.capture = capAt b m.to turn ∧ m.ty = tyOf b m

theorem Feat.inj {b : Board} {turn : Color} {m1 m2 : Move} (h1 : Feat b turn m1) (h2 : Feat b turn m2)
    (e : absMove m1 = absMove m2) : m1 = m2 := by
  obtain ⟨a1, b1, c1⟩ := h1
  obtain ⟨a2, b2, c2⟩ := h2
  simp only [absMove, Spec.SMove.mk.injEq] at e
  obtain ⟨ef, et, ep'⟩ := e
  have epr := Gen.absKind_inj ep'
  have epc : m1.piece = m2.piece := by
    rw [ef, a2] at a1
    exact ((Prod.mk.inj (Option.some.inj a1)).2).symm
  have ecap : m1.capture = m2.capture := by rw [b1, b2, et]
  have ety : m1.ty = m2.ty := by
    rw [c1, c2]; unfold tyOf; rw [ef, et, epr]
  cases m1; cases m2
  simp only at ef et epr epc ecap ety
  subst ef et epr epc ecap ety
  rfl

/-- `PawnMove.features` with the only fact about the en-passant target it needs: no enemy piece stands on it. -/
theorem pawnMove_feat {b : Board} {ep : Nat} {turn : Color} (hep : ep ≠ 0 → ∀ k, b ep ≠ some (turn.opp, k))
    {m : Move} (hm : PawnMove b ep turn m) : Feat b turn m := by
  obtain ⟨hsq, hpc, hk⟩ := hm
  refine ⟨by rw [hpc]; exact hsq, ?_⟩
  unfold tyOf
  rw [hsq]
  simp only
  rcases hk with ⟨hst, hb, hcap, hr⟩ | ⟨t1, hst1, hst2, hstart, hb1, hb2, hty, hpr, hcap⟩ |
    ⟨ht, k, hk, hcap, hr⟩ | ⟨he, hto, ht, hown, hty, hpr, hcap⟩
  · obtain ⟨c1, c2⟩ := step_coords hst
    have hf : m.from % 8 = m.to % 8 := by omega
    have hr12 : ¬ (m.from / 8 + 2 = m.to / 8 ∨ m.to / 8 + 2 = m.from / 8) := by
      rcases fwd_cases turn with e | e <;> rw [e] at c2 <;> omega
    refine ⟨by rw [hcap, capAt_empty hb], ?_⟩
    rw [if_pos hf, if_neg hr12]
    rcases hr with ⟨_, hty, hpr⟩ | ⟨_, hty, hpr⟩
    · rw [if_pos hpr, hty]
    · rw [if_neg (ne_none_of_mem_promoPieces hpr), hty]
  · obtain ⟨c1, c2⟩ := step_coords hst1
    obtain ⟨d1, d2⟩ := step_coords hst2
    have hf : m.from % 8 = m.to % 8 := by omega
    have hdbl : m.from / 8 + 2 = m.to / 8 ∨ m.to / 8 + 2 = m.from / 8 := by
      rcases fwd_cases turn with e | e <;> rw [e] at c2 d2 <;> omega
    refine ⟨by rw [hcap, capAt_empty hb2], ?_⟩
    rw [if_pos hf, if_pos hdbl, hty]
  · have hf : ¬ (m.from % 8 = m.to % 8) := by
      rcases mem_pawnTargets_iff.mp ht with hst | hst <;> obtain ⟨c1, c2⟩ := step_coords hst <;> omega
    refine ⟨by rw [hcap, capAt_enemy hk], ?_⟩
    rw [if_neg hf, hk]
    simp only [Option.isNone_some, Bool.false_eq_true, if_false]
    rcases hr with ⟨_, hty, hpr⟩ | ⟨_, hty, hpr⟩
    · rw [if_pos hpr, hty]
    · rw [if_neg (ne_none_of_mem_promoPieces hpr), hty]
  · have hempty : b m.to = none := by
      cases hb : b m.to with
      | none => rfl
      | some x =>
        obtain ⟨c, k⟩ := x
        exfalso
        by_cases hc : c = turn
        · subst hc; simp [colAt, hb] at hown
        · have hc' : c = turn.opp := by cases c <;> cases turn <;> simp_all [Color.opp]
          subst hc'
          rw [hto] at hb
          exact hep he k hb
    have hf : ¬ (m.from % 8 = m.to % 8) := by
      rcases mem_pawnTargets_iff.mp ht with hst | hst <;> obtain ⟨c1, c2⟩ := step_coords hst <;> omega
    refine ⟨by rw [hcap, capAt_empty hempty], ?_⟩
    rw [if_neg hf, hempty]
    simp only [Option.isNone_none, if_true]
    exact hty

/-- `CastleMove.features` for a king that does stand on its home square. -/
theorem castleMove_feat {b : Board} {castling : Nat} {turn : Color} {m : Move}
    (hk : b m.from = some (turn, .king)) (hfr : m.from = kingHomeSq turn) (hm : CastleMove b castling turn m) :
    Feat b turn m := by
  obtain ⟨cs, hcs, hr, hempty, hrook, hty, hpc, hto, hpr, hcap⟩ := hm
  refine ⟨by rw [hpc]; exact hk, ?_⟩
  unfold tyOf
  rw [hk]
  simp only
  rw [hfr]
  cases turn
  all_goals
    simp only [castleParams, List.mem_cons, List.not_mem_nil, or_false] at hcs
    rcases hcs with rfl | rfl
    all_goals
      simp only at hty hto hempty
      have hbto : b m.to = none := by rw [hto]; exact hempty _ (by decide)
      refine ⟨by rw [hcap, capAt_empty hbto], ?_⟩
      rw [hty, hto]
      first
        | rw [if_pos (by decide)]
        | rw [if_neg (by decide), if_pos (by decide)]

/-- Board-level form of the two conditions. -/
structure Clean (p : Position) (b : Board) (turn : Color) : Prop where
  ep : p.enpassant ≠ 0 → ∀ k, b p.enpassant ≠ some (turn.opp, k)
  castle : p.pieces turn .king ≠ 0 → ∀ m ∈ genCastles p turn (lastPopSquare (p.pieces turn .king)),
    lastPopSquare (p.pieces turn .king) = kingHomeSq turn

theorem feat_of_mem {p : Position} {b : Board} (h : Rep p b) {turn : Color} (hc : Clean p b turn) :
    ∀ m ∈ p.pseudoLegalMoves turn, Feat b turn m := by
  intro m hm
  rw [pseudoLegalMoves_eq, List.mem_append, List.mem_append] at hm
  rcases hm with (hm | hm) | hm
  · obtain ⟨pc, hpc, hs⟩ := (mem_genOfficers h turn m).mp hm
    have hpw : pc ≠ .pawn := by
      rcases (mem_promoPieces pc).mp hpc with rfl | rfl | rfl | rfl <;> simp
    exact hs.features hpw
  · exact pawnMove_feat hc.ep ((mem_genPawns h turn m).mp hm)
  · unfold genKing at hm
    by_cases h0 : p.pieces turn .king = 0
    · rw [if_pos h0] at hm; cases hm
    · rw [if_neg h0, List.mem_append] at hm
      rcases hm with hm | hm
      · exact ((mem_genKingSteps h turn h0 m).mp hm).2.features (by simp)
      · have hhome := hc.castle h0 m hm
        obtain ⟨hfr, hcm⟩ := (mem_genCastles h turn _ m).mp hm
        have hk := (kingSquare_spec h turn h0).1
        exact castleMove_feat (by rw [hfr]; exact hk) (by rw [hfr]; exact hhome) hcm

/-- **`pseudo_nodup_clean`.** C01 `pseudo_nodup` without `WF`: any number of kings, kings anywhere, castling rights
    and en-passant targets of any kind, as long as the two local conditions hold. -/
theorem pseudo_nodup_clean {p : Position} {b : Board} (h : Rep p b) {turn : Color} (hc : Clean p b turn) :
    ((p.pseudoLegalMoves turn).map absMove).Nodup := by
  apply nodup_map_of_inj (pseudoLegalMoves_nodup h turn)
  intro a ha a' ha' e
  exact Feat.inj (feat_of_mem h hc a ha) (feat_of_mem h hc a' ha') e

/-! ### The two conditions as `Bool`s on the bitboard position -/

/-- The en-passant target (if any) does not hold a piece of the side NOT to move. (An own piece there is harmless:
    the generator masks own pieces out. An empty phantom target is harmless too: only the e.p. move goes there.) -/
def epClean (p : Position) (turn : Color) : Bool :=
  p.enpassant == 0 || !((p.pieces turn.opp .none).testBit p.enpassant)

/-- No castle is generated, or the king the generator uses stands on its home square. -/
def castleClean (p : Position) (turn : Color) : Bool :=
  p.pieces turn .king == 0 || (genCastles p turn (lastPopSquare (p.pieces turn .king))).isEmpty ||
    lastPopSquare (p.pieces turn .king) == kingHomeSq turn

theorem clean_of_bools {p : Position} {b : Board} (h : Rep p b) {turn : Color}
    (h1 : epClean p turn = true) (h2 : castleClean p turn = true) : Clean p b turn := by
  refine ⟨?_, ?_⟩
  · intro hne k hb
    unfold epClean at h1
    simp only [Bool.or_eq_true, beq_iff_eq, Bool.not_eq_true'] at h1
    rcases h1 with h1 | h1
    · exact hne h1
    · have h64 : p.enpassant < 64 := h.lt_of_some hb
      rw [h.all _ _ h64] at h1
      have := colAt_enemy_iff.mpr ⟨k, hb⟩
      rw [this] at h1; cases h1
  · intro h0 m hm
    unfold castleClean at h2
    simp only [Bool.or_eq_true, beq_iff_eq, List.isEmpty_iff] at h2
    rcases h2 with (h2 | h2) | h2
    · exact absurd h2 h0
    · rw [h2] at hm; cases hm
    · exact h2

theorem keyNodup_of_clean {p : Position} {b : Board} (h : Rep p b) {turn : Color}
    (h1 : epClean p turn = true) (h2 : castleClean p turn = true) : keyNodup p turn = true := by
  unfold keyNodup; exact decide_eq_true (pseudo_nodup_clean h (clean_of_bools h h1 h2))

/-- No castling right of the side to move: `castleClean`. -/
theorem castleClean_of_noRights {p : Position} {turn : Color}
    (h : match turn with
      | .white => p.castling &&& wK = 0 ∧ p.castling &&& wQ = 0
      | .black => p.castling &&& bK = 0 ∧ p.castling &&& bQ = 0) : castleClean p turn = true := by
  unfold castleClean
  cases turn <;> simp only at h <;> simp [genCastles, genCastle, h.1, h.2]

/-! ## Every generated move can be written down: `firstDecides` is necessary at the level of texts too -/

def fileChar (f : Nat) : Char :=
  match f with
  | 7 => 'a' | 6 => 'b' | 5 => 'c' | 4 => 'd' | 3 => 'e' | 2 => 'f' | 1 => 'g' | _ => 'h'

def rankChar (r : Nat) : Char := Char.ofNat ('1'.toNat + r)

/-- The text of a move, as `Move.String` of a candidate prints it (lower case, promotion letter if any). -/
def printMove (m : Move) : List Char :=
  [fileChar (m.from % 8), rankChar (m.from / 8), fileChar (m.to % 8), rankChar (m.to / 8)] ++
    (match m.promotion with
     | .queen => ['q'] | .rook => ['r'] | .knight => ['n'] | .bishop => ['b'] | _ => [])

theorem parseSquare_print : ∀ sq, sq < 64 → Fen.parseSquare (fileChar (sq % 8)) (rankChar (sq / 8)) = some sq := by
  decide

/-- The keys the generator can produce. -/
def Printable (m : Move) : Prop :=
  m.from < 64 ∧ m.to < 64 ∧ (m.promotion = .none ∨ m.promotion ∈ Position.promoPieces)

theorem parseMove_print {m : Move} (h : Printable m) :
    ∃ cand, Fen.parseMove (printMove m) = some cand ∧ cand.equals m = true := by
  obtain ⟨h1, h2, h3⟩ := h
  have e1 := parseSquare_print _ h1
  have e2 := parseSquare_print _ h2
  rw [mem_promoPieces] at h3
  rcases h3 with h3 | h3 | h3 | h3 | h3
  all_goals
    refine ⟨{ «from» := m.from, to := m.to, promotion := m.promotion }, ?_, by simp [Move.equals]⟩
    simp only [printMove, h3, List.cons_append, List.nil_append, List.append_nil, Fen.parseMove, e1, e2]
    rfl

theorem stepMove_printable {p : Position} {b : Board} (h : Rep p b) {turn : Color} {pc : Piece} {m : Move}
    (hm : StepMove b turn pc m) : Printable m := by
  obtain ⟨hsq, _, hpr, ht, _⟩ := hm
  exact ⟨h.lt_of_some hsq, Attack.officerTargets_lt _ _ _ _ ht, Or.inl hpr⟩

theorem pawnMove_printable {p : Position} {b : Board} (h : Rep p b) {ep : Nat} {turn : Color} {m : Move}
    (hm : PawnMove b ep turn m) : Printable m := by
  obtain ⟨hsq, _, hk⟩ := hm
  refine ⟨h.lt_of_some hsq, ?_⟩
  rcases hk with ⟨hst, _, _, hr⟩ | ⟨t1, _, hst2, _, _, _, _, hpr, _⟩ |
    ⟨ht, k, _, _, hr⟩ | ⟨_, _, ht, _, _, hpr, _⟩
  · refine ⟨Attack.step_lt hst, ?_⟩
    rcases hr with ⟨_, _, hpr⟩ | ⟨_, _, hpr⟩
    · exact Or.inl hpr
    · exact Or.inr hpr
  · exact ⟨Attack.step_lt hst2, Or.inl hpr⟩
  · refine ⟨Attack.pawnTargets_lt _ _ _ ht, ?_⟩
    rcases hr with ⟨_, _, hpr⟩ | ⟨_, _, hpr⟩
    · exact Or.inl hpr
    · exact Or.inr hpr
  · exact ⟨Attack.pawnTargets_lt _ _ _ ht, Or.inl hpr⟩

/-- Every generated move of a position representing a board has a text. -/
theorem printable_of_mem {p : Position} {b : Board} (h : Rep p b) {turn : Color} :
    ∀ m ∈ p.pseudoLegalMoves turn, Printable m := by
  intro m hm
  rw [pseudoLegalMoves_eq, List.mem_append, List.mem_append] at hm
  rcases hm with (hm | hm) | hm
  · obtain ⟨pc, _, hs⟩ := (mem_genOfficers h turn m).mp hm
    exact stepMove_printable h hs
  · exact pawnMove_printable h ((mem_genPawns h turn m).mp hm)
  · unfold genKing at hm
    by_cases h0 : p.pieces turn .king = 0
    · rw [if_pos h0] at hm; cases hm
    · rw [if_neg h0, List.mem_append] at hm
      rcases hm with hm | hm
      · exact stepMove_printable h ((mem_genKingSteps h turn h0 m).mp hm).2
      · obtain ⟨hfr, cs, hcs, _, _, _, _, _, hto, hpr, _⟩ := (mem_genCastles h turn _ m).mp hm
        have hk := (kingSquare_spec h turn h0).1
        exact ⟨by rw [hfr]; exact h.lt_of_some hk, by rw [hto]; exact (castleParams_ok turn cs hcs).2.1, Or.inl hpr⟩

/-- **`firstDecides` is necessary, for texts.** If `Engine.Move` accepts exactly the texts that denote a move of `LegalMoves`
    (on a position representing a board), then `firstDecides` holds. -/
theorem firstDecides_of_texts (z : ZTable) (e : EngineM) {b : Board} (hr : Rep e.pos b)
    (h : ∀ txt, (e.move z txt).2 = true ↔
      ∃ cand m, Fen.parseMove txt = some cand ∧ m ∈ e.pos.legalMoves e.turn ∧ cand.equals m = true) :
    firstDecides e.pos e.turn = true := by
  unfold firstDecides
  rw [List.all_eq_true]
  intro m hm
  have hm' := (C01.legal_iff _ _ _).1 hm
  obtain ⟨cand, hp, he⟩ := parseMove_print (printable_of_mem hr m hm'.1)
  have hacc := (h (printMove m)).2 ⟨cand, m, hp, hm, he⟩
  rw [move_eq_acceptsCand, hp] at hacc
  simp only at hacc
  unfold acceptsCand at hacc
  rw [firstMatch_congr he] at hacc
  split
  · rename_i m' hfm
    rw [hfm] at hacc
    exact ((pushMove_isSome_iff e.w z 0 m').1 hacc).2
  · rfl

/-- **The exact condition, for texts.** On a non-adjudicated board whose position represents a mailbox board:
    `Engine.Move` accepts exactly the texts denoting a move of `LegalMoves` **iff** `firstDecides`. -/
theorem firstDecides_iff_texts (z : ZTable) (e : EngineM) {b : Board} (hr : Rep e.pos b) (ho : Open e) :
    firstDecides e.pos e.turn = true ↔
      ∀ txt, ((e.move z txt).2 = true ↔
        ∃ cand m, Fen.parseMove txt = some cand ∧ m ∈ e.pos.legalMoves e.turn ∧ cand.equals m = true) :=
  ⟨fun hf txt => move_accepted_iff_firstDecides z e txt ho hf, firstDecides_of_texts z e hr⟩

end Morlock.Proofs.Engine
