import Morlock.Proofs.FenBoard
import Morlock.Proofs.FenDecode
/-!
# `Decode ∘ Encode = id`

Assembles the lexical layer (`FenLex`), the rank layer (`FenRank`), the board layer (`FenBoard`) and
the field-by-field reading of `decode` (`FenDecode`).
-/
namespace Morlock.Proofs.Fen
open Morlock Morlock.Model Morlock.Model.Fen Morlock.Proofs

/-- The en-passant field `Encode` writes. -/
def epStr (e : Nat) : String := if e != 0 then squareString e else "-"

/-- `Encode` is the six fields joined by single spaces. -/
theorem encode_eq (pos : Position) (c : Color) (np fm : Int) :
    encode pos c np fm =
      boardStr pos.square ++ " " ++ printColor c ++ " " ++ printCastling pos.castling ++ " " ++
        epStr pos.enpassant ++ " " ++ itoa np ++ " " ++ itoa fm := rfl

theorem encode_toList (pos : Position) (c : Color) (np fm : Int) :
    (encode pos c np fm).toList =
      join6 (boardStr pos.square).toList (printColor c).toList (printCastling pos.castling).toList
        (epStr pos.enpassant).toList (itoa np).toList (itoa fm).toList := by
  rw [encode_eq]
  simp [join6, String.toList_append]

/-! ## The fields are space-free -/

/-- Boolean form of `NS`. -/
def nsb (l : List Char) : Bool := l.all fun c => !isSpace c

theorem NS_of_nsb {l : List Char} (h : nsb l = true) : NS l := by
  intro c hc
  have := List.all_eq_true.mp h c hc
  simpa using this

theorem color_NS (c : Color) : NS (printColor c).toList := by
  cases c <;> exact NS_of_nsb (by decide)

theorem castling_nsb : ∀ c, c < 16 → nsb (printCastling c).toList = true := by decide

theorem ep_nsb : ∀ e, e < 64 → nsb (epStr e).toList = true := by decide

theorem printPiece_not_space (c : Color) (k : Piece) : isSpace (printPiece c k) = false := by
  cases c <;> cases k <;> decide

theorem rankChars_NS {rk : List Char} (h : RankChars rk) : NS rk := by
  intro c hc
  rcases h c hc with hd | hp
  · rw [rank18_iff] at hd; exact isSpace_of_range (by omega) (by omega)
  · obtain ⟨⟨col, k⟩, hck⟩ := Option.isSome_iff_exists.mp hp
    rw [← (printPiece_parsePiece hck).1]; exact printPiece_not_space col k

theorem tailSlash_NS {rks : List (List Char)} (h : ∀ rk ∈ rks, NS rk) : NS (tailSlash rks) := by
  induction rks with
  | nil => exact NS.nil
  | cons rk rest ih =>
    rw [tailSlash]
    exact NS.cons (by decide)
      (NS.append (h rk (List.mem_cons_self ..)) (ih fun x hx => h x (List.mem_cons_of_mem _ hx)))

theorem board_NS {rks : List (List Char)} (h : ∀ rk ∈ rks, RankChars rk) :
    NS (List.intercalate ['/'] rks) := by
  cases rks with
  | nil => intro c hc; simp [List.intercalate] at hc
  | cons rk rest =>
    rw [intercalate_slash]
    exact NS.append (rankChars_NS (h rk (List.mem_cons_self ..)))
      (tailSlash_NS fun x hx => rankChars_NS (h x (List.mem_cons_of_mem _ hx)))

theorem board_ne_nil {rks : List (List Char)} (h : rks.length = 8) : List.intercalate ['/'] rks ≠ [] := by
  match rks, h with
  | a :: b :: rest, _ =>
    rw [intercalate_slash, tailSlash]
    intro e
    have := congrArg List.length e
    simp at this

/-! ## The status fields -/

theorem ep_roundtrip : ∀ e, e < 64 →
    (if (epStr e).toList = ['-'] then some 0 else parseSquareStr (epStr e).toList) = some e := by decide

theorem castling_roundtrip' : ∀ c, c < 16 → parseCastling (printCastling c).toList = some c := by decide

theorem color_roundtrip' (c : Color) : parseColor (printColor c).toList = some c := by
  cases c <;> decide

theorem Position.eq_of_fields {p q : Position} (h1 : p.white = q.white) (h2 : p.black = q.black)
    (h3 : p.rotated = q.rotated) (h4 : p.castling = q.castling) (h5 : p.enpassant = q.enpassant) : p = q := by
  cases p; cases q; simp_all

/-! ## The theorem -/

/-- What `NewPosition` returns on the placement list of the grid of a represented board. -/
theorem newPosition_rowsOf {p : Position} {b : Board} (h : Rep p b) :
    Position.newPosition (plRows 63 (rowsOf b)) p.castling p.enpassant = some p := by
  have hg := rowsOf_grid b
  have hwf := rowsOf_wf h.wf
  obtain ⟨hv, hnd⟩ := placements_valid (placements_enc hg hwf)
  have hs := (newPosition_isSome_iff p.castling p.enpassant hv).mpr hnd
  obtain ⟨p', hp'⟩ := Option.isSome_iff_exists.mp hs
  obtain ⟨hr, hc, he⟩ := newPosition_rep hv hp'
  rw [placeAll_plRows hg hnd, boardOf_rowsOf b h.out] at hr
  obtain ⟨e1, e2, e3⟩ := hr.views_eq h
  rw [hp', Position.eq_of_fields e1 e2 e3 hc he]

/-- **`Decode (Encode p) = p`**, for every position all of whose views agree (`Rep p b`), with
    rights among the four bits, an en-passant target on the board, and clocks in `0 … MaxInt64`. -/
theorem decode_encode_of_rep {p : Position} {b : Board} (h : Rep p b) (hc : p.castling < 16)
    (he : p.enpassant < 64) (c : Color) (np fm : Nat)
    (hnp : np ≤ 9223372036854775807) (hfm : fm ≤ 9223372036854775807) :
    decode (encode p c np fm).toList = some ⟨p, c, np, fm⟩ := by
  have hsq : p.square = b := h.board_eq.symm
  have hg := rowsOf_grid b
  have hwf := rowsOf_wf h.wf
  obtain ⟨hok, _⟩ := ranksOK_enc hg hwf
  have hlen : ((rowsOf b).map (enc 0)).length = 8 := by simp [hg.1]
  have h0 : placements (boardStr b).toList 63 [] = some (-1, plRows 63 (rowsOf b)) := by
    rw [boardStr_toList]; exact placements_enc hg hwf
  have n0 : NS (boardStr b).toList := by
    rw [boardStr_toList]; exact board_NS fun rk hrk => (hok rk hrk).1
  have e0 : (boardStr b).toList ≠ [] := by rw [boardStr_toList]; exact board_ne_nil hlen
  rw [encode_toList, hsq]
  refine decode_of_fields
    (decode_split n0 (color_NS c) (NS_of_nsb (castling_nsb _ hc)) (NS_of_nsb (ep_nsb _ he))
      (by rw [itoa_natCast]; exact toDigits_NS np) (by rw [itoa_natCast]; exact toDigits_NS fm) e0
      (by rw [itoa_natCast]; exact Nat.toDigits_ne_nil))
    h0 (color_roundtrip' c) (castling_roundtrip' _ hc) (ep_roundtrip _ he)
    (atoi_itoa np hnp) (Int.natCast_nonneg np) (atoi_itoa fm hfm) (Int.natCast_nonneg fm)
    (newPosition_rowsOf h)

end Morlock.Proofs.Fen
