import Morlock.Proofs.GenLegal
import Morlock.Proofs.RepExample
/-!
# Concrete positions satisfying `WF` (for the `example`s of C01)
-/
namespace Morlock.Proofs.Gen
open Morlock Morlock.Model

/-- The initial position `rnbqkbnr/pppppppp/8/8/8/8/PPPPPPPP/RNBQKBNR w KQkq -`. -/
def startPl : List (Nat × Color × Piece) :=
  [(0, .white, .rook), (1, .white, .knight), (2, .white, .bishop), (3, .white, .king), (4, .white, .queen),
   (5, .white, .bishop), (6, .white, .knight), (7, .white, .rook),
   (8, .white, .pawn), (9, .white, .pawn), (10, .white, .pawn), (11, .white, .pawn), (12, .white, .pawn),
   (13, .white, .pawn), (14, .white, .pawn), (15, .white, .pawn),
   (48, .black, .pawn), (49, .black, .pawn), (50, .black, .pawn), (51, .black, .pawn), (52, .black, .pawn),
   (53, .black, .pawn), (54, .black, .pawn), (55, .black, .pawn),
   (56, .black, .rook), (57, .black, .knight), (58, .black, .bishop), (59, .black, .king), (60, .black, .queen),
   (61, .black, .bishop), (62, .black, .knight), (63, .black, .rook)]

def startPos : Position := (Position.newPosition startPl 15 0).getD {}

theorem startPos_eq : Position.newPosition startPl 15 0 = some startPos := by decide +kernel

theorem startPos_rep : Rep startPos startPos.square := by
  have hv : ValidPlacements startPl := by
    intro x hx
    have : (startPl.all fun x => decide (x.1 < 64) && (x.2.2 != Piece.none)) = true := by decide +kernel
    have := List.all_eq_true.mp this x hx
    simpa using this
  exact (newPosition_rep hv startPos_eq).1.self

theorem startPos_wf : WF startPos .white := ⟨startPos_rep, by decide +kernel⟩

/-- "Kiwipete", a rich middlegame position (all castling rights, pins, captures, promotions nearby). -/
theorem kiwiPos_wf : WF kiwiPos .white ∧ WF kiwiPos .black :=
  ⟨⟨kiwiPos_rep, by decide +kernel⟩, ⟨kiwiPos_rep, by decide +kernel⟩⟩

/-- `exPos` has an en-passant target (d6) with White to move; `exPosB` is its mirror image. -/
theorem exPos_wf : WF exPos .white ∧ WF exPosB .black :=
  ⟨⟨exPos_rep.self, by decide +kernel⟩, ⟨exPosB_rep, by decide +kernel⟩⟩

end Morlock.Proofs.Gen
