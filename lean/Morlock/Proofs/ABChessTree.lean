import Morlock.Proofs.ABChessFuel
import Morlock.Proofs.ABTTSearch
/-!
# Concrete search trees of the chess game (non-vacuity of C03 / C11 / C12 / C13 on `materialGame`)

The region hypotheses of C11 / C12 (`NoDrawOn`, `RootFreeOn`, `HashOKOn` on the tree of the search) are discharged
here for concrete roots of the chess game the driver ties to the Go code (`materialGame`, worlds built by `newBoard`),
by evaluating the finite tree (`treeList`) in the kernel:

* `wS` (= `C05.wS`): K + N v K + N, White to move - the tree of depth 2 (73 positions);
* `w1`: `wS` after 1. Nf3 - a successor root for sequences of searches;
* `wE`: `r3k2r/1P6/8/3pP3/8/8/8/R3K2R w KQkq d6` (`RepExample.exPos`: castling, en passant, promotion and captures
  available) - the tree of depth 1 (37 positions).
-/
namespace Morlock.Proofs.AB
open Morlock Morlock.Model Morlock.Model.World Morlock.Model.Score Morlock.Proofs
variable {P : Type}

/-- A list of searches whose roots are reached from `root` is covered by one tree list. -/
theorem trees_cover {g : Game P} {ex : P → Explore} {root : P} {D : Nat} {l : List (P × Nat)}
    (h : ∀ pd ∈ l, ∃ k, Reach g ex k root pd.1 ∧ k + pd.2 ≤ D) :
    ∀ n q, Trees g ex l n q → q ∈ treeList g ex root D := by
  intro n q ⟨pd, hpd, ht⟩
  obtain ⟨k, hk, hD⟩ := h pd hpd
  exact tree_mem_treeList_of_reach hk ht hD

/-! ## The fuel of the quiescence leaves is immaterial for the main search on the chess game -/

/-- The explored children of a world satisfying the play invariant satisfy it. -/
theorem inv_kids {z : ZTable} {ev : Position → Color → Int} {ex : World → Explore} {w c : World} (h : Inv w)
    (hc : c ∈ kids (boardGame z ev) ex w ((boardGame z ev).moves w)) : Inv c := by
  obtain ⟨m, hm, _, hpush⟩ := mem_kids hc
  exact inv_push h hm hpush

/-- **The reference value of the main search with captures-only quiescence leaves does not depend on the fuel**
    (from 64 on), at every world satisfying the play invariant `Inv` (every world reached by legal play from a
    well-formed start): the Go code, which has no fuel, is modelled faithfully by fuel 64. -/
theorem V_fuel_irrelevant (z : ZTable) (ev : Position → Color → Int) (ex qx : World → Explore) (hq : CapturesOnly qx)
    (rootPly : Int) (fuel : Nat) (hf : 64 ≤ fuel) :
    ∀ d w, Inv w → V (boardGame z ev) ex (.quiescence qx fuel) rootPly d w =
      V (boardGame z ev) ex (.quiescence qx 64) rootPly d w := by
  intro d
  induction d with
  | zero =>
    intro w hw
    simp only [V, leafV]
    rw [Q_stable _ qx 64 w (boardGame_qdone z ev qx hq w hw) fuel hf]
  | succ d ih =>
    intro w hw
    simp only [V]
    have : (kids (boardGame z ev) ex w ((boardGame z ev).moves w)).map
          (fun c => lift (V (boardGame z ev) ex (.quiescence qx fuel) rootPly d c)) =
        (kids (boardGame z ev) ex w ((boardGame z ev).moves w)).map
          (fun c => lift (V (boardGame z ev) ex (.quiescence qx 64) rootPly d c)) := by
      apply List.map_congr_left
      intro c hc
      rw [ih c (inv_kids hw hc)]
    rw [this]

/-! ## The root-ply condition holds structurally on the chess game -/

theorem push_ply {w w' : World} {z : ZTable} {m : Move} (hx : 0 < w.boards.size) (h : w.pushMove z 0 m = some w') :
    (w'.board 0).ply = (w.board 0).ply + 1 := by
  obtain ⟨_, next, _, rfl⟩ := Arena.pushMove_some h
  rw [Arena.setBoard_board, if_pos ⟨rfl, hx⟩]
  rfl

/-- Every position `k` steps below a world satisfying the play invariant satisfies it, and its ply is `k` larger. -/
theorem reach_inv_ply (z : ZTable) (ev : Position → Color → Int) (ex : World → Explore) {w : World} (h : Inv w) :
    ∀ k q, Reach (boardGame z ev) ex k w q →
      Inv q ∧ (boardGame z ev).ply q = (boardGame z ev).ply w + (k : Int) := by
  intro k
  induction k with
  | zero => intro q hq; cases hq; exact ⟨h, by simp⟩
  | succ k ih =>
    intro q ⟨q', hq', m, hm, _, hpush⟩
    obtain ⟨hi, hp⟩ := ih q' hq'
    refine ⟨inv_push hi hm hpush, ?_⟩
    have := push_ply hi.2.1 hpush
    show (q.board 0).ply = _
    rw [this]
    have hp' : (q'.board 0).ply = (w.board 0).ply + (k : Int) := hp
    rw [hp']
    show _ = (w.board 0).ply + ((k + 1 : Nat) : Int)
    omega

/-- **On the chess game the root-ply condition of C11 / C12 holds for the tree of every search whose root satisfies
    the play invariant and is not drawn** (the ply grows by one with every move). -/
theorem boardGame_rootFreeOn (z : ZTable) (ev : Position → Color → Int) (ex : World → Explore) {w : World} (h : Inv w)
    (hd : (boardGame z ev).isDraw w = false) (d : Nat) :
    RootFreeOn (boardGame z ev) (Tree (boardGame z ev) ex w d) ((boardGame z ev).ply w) := by
  intro n p ⟨k, _, hr⟩ hdraw
  have hp := (reach_inv_ply z ev ex h k p hr).2
  cases k with
  | zero => cases hr; rw [hd] at hdraw; cases hdraw
  | succ k => rw [hp]; omega

/-- The material game with the sample Zobrist table of C07. -/
def gX : Game World := materialGame exZ

/-- The captures-only exploration of the driver's quiescence search (the same on every board). -/
def capX : World → Explore := constEx { prio := mvvlva, pick := fun m => m.isCapture }

/-- The full exploration (the same on every board). -/
def fullX : World → Explore := constEx fullExploration

theorem gX_evalOk : EvalOk gX := materialGame_evalOk exZ

theorem capX_capturesOnly : CapturesOnly capX := capturesOnly_driver mvvlva

/-- K + N v K + N, White to move (C05). -/
def wS : World := Props.C05.wS

/-- `wS` after 1. Nf3. -/
def w1 : World := (wS.pushMove exZ 0 Props.C05.nf3).getD wS

/-- `RepExample.exPos` as a new board, White to move. -/
def wE : World := (({} : World).newBoard exZ Proofs.exPos .white 0 1).1

theorem wS_inv : Inv wS := c05_wS_inv

theorem exPos_wfplay : Chain.WFplay Proofs.exPos .white :=
  ⟨⟨exPos_rep.self, by decide +kernel⟩, by decide +kernel⟩

theorem wE_inv : Inv wE := inv_newBoard exZ 0 1 exPos_wfplay

theorem wS_push_nf3 : gX.push wS Props.C05.nf3 = some w1 := by
  have h : (wS.pushMove exZ 0 Props.C05.nf3).isSome = true := by decide +kernel
  show wS.pushMove exZ 0 Props.C05.nf3 = some w1
  unfold w1
  cases hh : wS.pushMove exZ 0 Props.C05.nf3 with
  | none => rw [hh] at h; cases h
  | some c => rfl

theorem wS_reach_w1 : Reach gX fullX 1 wS w1 :=
  ⟨wS, rfl, Props.C05.nf3, by decide +kernel, rfl, wS_push_nf3⟩

theorem wS_ply : gX.ply wS = 1 := by decide +kernel
theorem wE_ply : gX.ply wE = 1 := by decide +kernel

/-! ## `wS`: the tree of depth 2 -/

theorem wS_tree_size : (treeList gX fullX wS 2).length = 73 := by decide +kernel

theorem wS_tree_noDrawB : ((treeList gX fullX wS 2).all fun q => !gX.isDraw q) = true := by decide +kernel

theorem wS_tree_hashes : ((treeList gX fullX wS 2).map gX.hash).Nodup := by decide +kernel

/-- No position of the depth-2 tree below `wS` is drawn. -/
theorem wS_noDraw : NoDrawOn gX (Tree gX fullX wS 2) :=
  noDrawOn_of_list _ (fun _ _ h => tree_mem_treeList h (Nat.le_refl _)) wS_tree_noDrawB

/-- The positions of the depth-2 tree below `wS` have pairwise distinct hashes. -/
theorem wS_hashOK (le : LeafEval World) : HashOKOn gX fullX le (Tree gX fullX wS 2) :=
  hashOKOn_of_list fullX le _ (fun _ _ h => tree_mem_treeList h (Nat.le_refl _)) wS_tree_hashes

/-- Searches of `wS` (depths 1, 2, 2 again) and of its successor `w1` (depth 1), threading one table. -/
def seqX : List (World × Nat) := [(wS, 1), (wS, 2), (wS, 2), (w1, 1)]

theorem seqX_cover : ∀ n q, Trees gX fullX seqX n q → q ∈ treeList gX fullX wS 2 := by
  apply trees_cover
  intro pd hpd
  simp only [seqX, List.mem_cons, List.mem_nil_iff, or_false] at hpd
  rcases hpd with rfl | rfl | rfl | rfl
  · exact ⟨0, rfl, by decide⟩
  · exact ⟨0, rfl, by decide⟩
  · exact ⟨0, rfl, by decide⟩
  · exact ⟨1, wS_reach_w1, by decide⟩

theorem seqX_noDraw : NoDrawOn gX (Trees gX fullX seqX) :=
  noDrawOn_of_list _ seqX_cover wS_tree_noDrawB

theorem seqX_hashOK (le : LeafEval World) : HashOKOn gX fullX le (Trees gX fullX seqX) :=
  hashOKOn_of_list fullX le _ seqX_cover wS_tree_hashes

/-! ## `wE`: the tree of depth 1 -/

theorem wE_tree_size : (treeList gX fullX wE 1).length = 37 := by decide +kernel

theorem wE_tree_noDrawB : ((treeList gX fullX wE 1).all fun q => !gX.isDraw q) = true := by decide +kernel

theorem wE_tree_hashes : ((treeList gX fullX wE 1).map gX.hash).Nodup := by decide +kernel

theorem wE_noDraw : NoDrawOn gX (Tree gX fullX wE 1) :=
  noDrawOn_of_list _ (fun _ _ h => tree_mem_treeList h (Nat.le_refl _)) wE_tree_noDrawB

theorem wE_hashOK (le : LeafEval World) : HashOKOn gX fullX le (Tree gX fullX wE 1) :=
  hashOKOn_of_list fullX le _ (fun _ _ h => tree_mem_treeList h (Nat.le_refl _)) wE_tree_hashes

theorem wS_notDraw : gX.isDraw wS = false := by decide +kernel
theorem wE_notDraw : gX.isDraw wE = false := by decide +kernel
theorem wS_legal : legalAny gX wS (gX.moves wS) = true := by decide +kernel
theorem wE_legal : legalAny gX wE (gX.moves wE) = true := by decide +kernel

/-- `7k/6Q1/6K1/8/8/8/8/8 b`: Black is mated. -/
def wM : World :=
  (({} : World).newBoard exZ
    ((Position.newPosition [(56, .black, .king), (49, .white, .queen), (41, .white, .king)] 0 0).getD {}) .black 0 1).1

/-- `7k/5Q2/6K1/8/8/8/8/8 b`: Black is stalemated. -/
def wT : World :=
  (({} : World).newBoard exZ
    ((Position.newPosition [(56, .black, .king), (50, .white, .queen), (41, .white, .king)] 0 0).getD {}) .black 0 1).1

theorem wM_facts : gX.isDraw wM = false ∧ legalAny gX wM (gX.moves wM) = false ∧ gX.inCheck wM = true ∧
    (gX.moves wM).length = 3 := by decide +kernel

theorem wT_facts : gX.isDraw wT = false ∧ legalAny gX wT (gX.moves wT) = false ∧ gX.inCheck wT = false ∧
    (gX.moves wT).length = 3 := by decide +kernel

/-- A table of 128 slots (`NewTranspositionTable(4096)`), empty. -/
def st4k : SState := { tt := TTState.new 4096 }

/-! The concrete worlds are made irreducible for the elaborator, so that stating a theorem about them does not make
`whnf` evaluate a search (the kernel, and `decide +kernel`, still unfold them). -/
attribute [irreducible] wS w1 wE wM wT

end Morlock.Proofs.AB
