import Morlock.Proofs.DetSim
import Morlock.Props.C08
import Morlock.Model.BoardGame
/-!
# C18: analysis runs on a fork; the search sees the fork exactly as it would see the engine's own board

* `rebase w b`: the world the engine hands to the search - same arena, board `b` (the fork) as board 0
  (`Driver/Uci.lean`, `uciGoDepth`); `view_rebase`: board 0 of it has the view of board `b` of `w`.
* `view_simN`: "equal views" (`Proofs.Arena.view`, which contain the node hashes) is a simulation of
  `boardGame z ev` by itself on which hashes agree; so with *any* table the search cannot tell two worlds
  with equal views of board 0 apart (`search_of_view_eq`).
-/
namespace Morlock.Proofs.Det
open Morlock Morlock.Model Morlock.Model.World Morlock.Proofs Morlock.Proofs.Arena

/-- The search world: the arena of `w` with board `b` as the only board (board 0). -/
def rebase (w : World) (b : Nat) : World := { nodes := w.nodes, boards := #[w.board b] }

theorem rebase_node (w : World) (b j : Nat) : (rebase w b).node j = w.node j := rfl

theorem rebase_board (w : World) (b : Nat) : (rebase w b).board 0 = w.board b := by
  simp [rebase, World.board]

theorem rebase_cur (w : World) (b : Nat) : (rebase w b).cur 0 = w.cur b := by
  unfold World.cur
  rw [rebase_board]
  rfl

theorem wf_rebase {w : World} (hw : WFWorld w) {b : Nat} (hb : b < w.boards.size) : WFWorld (rebase w b) := by
  refine ⟨?_, hw.prev_lt⟩
  intro i hi
  have hi0 : i = 0 := by
    have : (rebase w b).boards.size = 1 := rfl
    omega
  subst hi0
  rw [rebase_board]
  exact hw.cur_lt b hb

theorem view_rebase (w : World) (b : Nat) : view (rebase w b) 0 = view w b := by
  have hanc : ∀ o, anc (rebase w b) o = anc w o := fun o => (anc_congr (fun j _ => rebase_node w b j)).2
  unfold view
  rw [rebase_cur, rebase_board, hanc]

/-- The relation "both worlds are well-formed, have a board 0, and board 0 has the same view". -/
def ViewRel (w1 w2 : World) : Prop :=
  WFWorld w1 ∧ WFWorld w2 ∧ 0 < w1.boards.size ∧ 0 < w2.boards.size ∧ view w1 0 = view w2 0

/-- Everything the search game reads is in the view. -/
theorem view_sim (z : ZTable) (ev : Position → Color → Int) : Sim (boardGame z ev) (boardGame z ev) ViewRel := by
  refine ⟨?_, ?_, ?_, ?_, ?_, ?_⟩
  · intro w1 w2 h
    have : (w1.board 0).result = (w2.board 0).result := congrArg View.result h.2.2.2.2
    simp only [boardGame, this]
  · intro w1 w2 h
    exact congrArg View.ply h.2.2.2.2
  · intro w1 w2 h
    have e1 : (w1.cur 0).pos = (w2.cur 0).pos := congrArg View.pos h.2.2.2.2
    have e2 : (w1.board 0).turn = (w2.board 0).turn := congrArg View.turn h.2.2.2.2
    simp only [boardGame, e1, e2]
  · intro w1 w2 h
    have e1 : (w1.cur 0).pos = (w2.cur 0).pos := congrArg View.pos h.2.2.2.2
    have e2 : (w1.board 0).turn = (w2.board 0).turn := congrArg View.turn h.2.2.2.2
    simp only [boardGame, e1, e2]
  · intro w1 w2 h
    have e1 : (w1.cur 0).pos = (w2.cur 0).pos := congrArg View.pos h.2.2.2.2
    have e2 : (w1.board 0).turn = (w2.board 0).turn := congrArg View.turn h.2.2.2.2
    simp only [boardGame, e1, e2]
  · intro w1 w2 m h _
    obtain ⟨hw1, hw2, hb1, hb2, hv⟩ := h
    have e1 := push_view hw1 (z := z) hb1 m
    have e2 := push_view hw2 (z := z) hb2 m
    rw [hv] at e1
    show ORel ViewRel (w1.pushMove z 0 m) (w2.pushMove z 0 m)
    cases h1 : w1.pushMove z 0 m <;> cases h2 : w2.pushMove z 0 m <;> rw [h1] at e1 <;> rw [h2] at e2 <;>
      rw [← e2] at e1 <;> simp only [Option.map_some, Option.map_none, Option.some.injEq, reduceCtorEq] at e1
    · trivial
    · rename_i w1' w2'
      exact ⟨wf_push hw1 hb1 h1, wf_push hw2 hb2 h2, by rw [boards_size_push h1]; exact hb1,
        by rw [boards_size_push h2]; exact hb2, e1⟩

theorem view_hash {w1 w2 : World} (h : ViewRel w1 w2) (z : ZTable) (ev : Position → Color → Int) :
    (boardGame z ev).hash w1 = (boardGame z ev).hash w2 :=
  congrArg View.hash h.2.2.2.2

/-- **The search is a function of the view of board 0** - with any table, any cancellation instant. -/
theorem search_of_view_eq (z : ZTable) (ev : Position → Color → Int) (ex : World → Explore) (le : LeafEval World)
    (hex : ExRel (fun _ => ViewRel) ex ex) (hle : LeRel (fun _ => ViewRel) le le) {w1 w2 : World}
    (h : ViewRel w1 w2) (d : Nat) (a b : Score) (st : SState) :
    alphaBetaSearch (boardGame z ev) ex le w1 d a b st = alphaBetaSearch (boardGame z ev) ex le w2 d a b st :=
  alphaBetaSearch_congr (view_sim z ev).simN (ttInv_hash (fun h => view_hash h z ev)) hex hle (n := d + leafDepth le) h d
    (Nat.le_refl _) a b st trivial

/-- The search world built from a fork of board `b` shows the search exactly what board `b` shows. -/
theorem viewRel_fork {w : World} (hw : WFWorld w) (b : Nat) :
    view (rebase (w.fork b).1 (w.fork b).2) 0 = view w b ∧ WFWorld (rebase (w.fork b).1 (w.fork b).2) ∧
      0 < (rebase (w.fork b).1 (w.fork b).2).boards.size := by
  have hf1 : (w.fork b).2 < (w.fork b).1.boards.size := by rw [fork_boards_size, fork_id]; omega
  refine ⟨?_, wf_rebase (wf_fork hw b) hf1, Nat.zero_lt_one⟩
  rw [view_rebase, view_fork_new hw b]

/-! ## a depth-first search pushes and pops in balance -/

/-- Operation sequences of a depth-first traversal: every move is taken back after the subtree below it. -/
inductive Balanced : List Op → Prop
  | nil : Balanced []
  | node (m : Move) {sub rest : List Op} : Balanced sub → Balanced rest →
      Balanced (Op.push m :: (sub ++ Op.pop :: rest))

theorem above_balanced_append {ops : List Op} (h : Balanced ops) :
    ∀ (d : Nat) (tail : List Op), above d (ops ++ tail) = above d tail := by
  induction h with
  | nil => intro d tail; rfl
  | node m _ _ ih1 ih2 =>
    intro d tail
    simp only [List.cons_append, List.append_assoc, above, Op.depth]
    rw [ih1]
    simp only [above, Op.depth]
    exact ih2 d tail

/-- A balanced sequence never goes below its starting point. -/
theorem above_balanced {ops : List Op} (h : Balanced ops) (d : Nat) : above d ops = true := by
  have := above_balanced_append h d []
  rw [List.append_nil] at this
  rw [this]
  rfl

/-- Nor does any prefix of a sequence that stays above (a search interrupted midway). -/
theorem above_prefix : ∀ (l1 l2 : List Op) (d : Nat), above d (l1 ++ l2) = true → above d l1 = true
  | [], _, _, _ => rfl
  | o :: r, l2, d, h => by
    simp only [List.cons_append, above] at h ⊢
    cases hd : o.depth d with
    | none => rw [hd] at h; cases h
    | some d' => rw [hd] at h; exact above_prefix r l2 d' h

end Morlock.Proofs.Det
