import Morlock.Proofs.MirrorSpec
import Morlock.Proofs.AttackBounds
/-!
# C20: the geometry of the reference is symmetric under the vertical mirror

`step`, `ray`, `officerTargets` and `pawnTargets` commute with `mirrorSq` when the rank direction is
negated (for pawns: the colour swapped). The direction lists are closed under negating the rank component.
-/
namespace Morlock.Spec
open Morlock.Proofs.Attack

/-- One step from the mirrored square with the rank direction negated is the mirror image of the step. -/
theorem step_mirror {s : Nat} (hs : s < 64) (df dr : Int) :
    step (mirrorSq s) df (-dr) = (step s df dr).map mirrorSq := by
  unfold step
  simp only [fileOf_mirrorSq hs, rankOf_mirrorSq hs]
  have hr : rankOf s < 8 := by unfold rankOf; omega
  have hf : fileOf s < 8 := by unfold fileOf; omega
  by_cases hc : 0 ≤ (fileOf s : Int) + df ∧ (fileOf s : Int) + df < 8 ∧ 0 ≤ (rankOf s : Int) + dr ∧ (rankOf s : Int) + dr < 8
  · have hc' : 0 ≤ (fileOf s : Int) + df ∧ (fileOf s : Int) + df < 8 ∧
        0 ≤ ((7 - rankOf s : Nat) : Int) + -dr ∧ ((7 - rankOf s : Nat) : Int) + -dr < 8 := by omega
    rw [if_pos hc, if_pos hc', Option.map_some]
    congr 1
    have h1 : ((fileOf s : Int) + df).toNat < 8 := by omega
    have h2 : ((rankOf s : Int) + dr).toNat < 8 := by omega
    rw [mirrorSq_mkSq h1 h2]
    unfold mkSq
    show @Eq Nat _ _
    omega
  · have hc' : ¬ (0 ≤ (fileOf s : Int) + df ∧ (fileOf s : Int) + df < 8 ∧
        0 ≤ ((7 - rankOf s : Nat) : Int) + -dr ∧ ((7 - rankOf s : Nat) : Int) + -dr < 8) := by omega
    rw [if_neg hc, if_neg hc', Option.map_none]

theorem step_mirror' {s : Nat} (hs : s < 64) (df dr : Int) :
    step (mirrorSq s) df dr = (step s df (-dr)).map mirrorSq := by
  have := step_mirror hs df (-dr)
  rwa [Int.neg_neg] at this

/-- Rays: with an occupancy that is the mirror image on the board. -/
theorem ray_mirror {occ occ' : Nat → Bool} (hocc : ∀ t, t < 64 → occ' (mirrorSq t) = occ t) (df dr : Int) :
    ∀ (fuel : Nat) {s : Nat}, s < 64 →
      ray occ' (mirrorSq s) df (-dr) fuel = (ray occ s df dr fuel).map mirrorSq := by
  intro fuel
  induction fuel with
  | zero => intro s _; rfl
  | succ n ih =>
    intro s hs
    unfold ray
    rw [step_mirror hs]
    cases hst : step s df dr with
    | none => rfl
    | some t =>
      have ht : t < 64 := step_lt hst
      simp only [Option.map_some]
      rw [hocc t ht]
      by_cases ho : occ t = true
      · rw [if_pos ho, if_pos ho]; rfl
      · rw [if_neg ho, if_neg ho, List.map_cons, ih ht]

/-- Negating the rank component of a direction. -/
def flipDir (d : Int × Int) : Int × Int := (d.1, -d.2)

@[simp] theorem flipDir_flipDir (d : Int × Int) : flipDir (flipDir d) = d := by
  obtain ⟨a, b⟩ := d; simp [flipDir]

theorem rookDirs_closed : ∀ d ∈ rookDirs, flipDir d ∈ rookDirs := by decide
theorem bishopDirs_closed : ∀ d ∈ bishopDirs, flipDir d ∈ bishopDirs := by decide
theorem knightJumps_closed : ∀ d ∈ knightJumps, flipDir d ∈ knightJumps := by decide
theorem kingSteps_closed : ∀ d ∈ kingSteps, flipDir d ∈ kingSteps := by decide
theorem queenDirs_closed : ∀ d ∈ rookDirs ++ bishopDirs, flipDir d ∈ rookDirs ++ bishopDirs := by decide

theorem mem_map_mirrorSq {t : Nat} {l : List Nat} : t ∈ l.map mirrorSq ↔ mirrorSq t ∈ l := by
  rw [List.mem_map]
  constructor
  · rintro ⟨a, ha, rfl⟩; rwa [mirrorSq_mirrorSq]
  · intro h; exact ⟨mirrorSq t, h, mirrorSq_mirrorSq t⟩

theorem mem_stepTargets_mirror {L : List (Int × Int)} (hL : ∀ d ∈ L, flipDir d ∈ L) {s : Nat} (hs : s < 64) {t : Nat}
    (h : t ∈ L.filterMap fun (d : Int × Int) => step s d.1 d.2) :
    mirrorSq t ∈ L.filterMap fun (d : Int × Int) => step (mirrorSq s) d.1 d.2 := by
  rw [List.mem_filterMap] at h ⊢
  obtain ⟨d, hd, hst⟩ := h
  refine ⟨flipDir d, hL d hd, ?_⟩
  show step (mirrorSq s) d.1 (-d.2) = some (mirrorSq t)
  rw [step_mirror hs, hst]; rfl

theorem mem_rayTargets_mirror {L : List (Int × Int)} (hL : ∀ d ∈ L, flipDir d ∈ L)
    {occ occ' : Nat → Bool} (hocc : ∀ t, t < 64 → occ' (mirrorSq t) = occ t) {s : Nat} (hs : s < 64) {t : Nat}
    (h : t ∈ L.flatMap fun (d : Int × Int) => ray occ s d.1 d.2 8) :
    mirrorSq t ∈ L.flatMap fun (d : Int × Int) => ray occ' (mirrorSq s) d.1 d.2 8 := by
  rw [List.mem_flatMap] at h ⊢
  obtain ⟨d, hd, hr⟩ := h
  refine ⟨flipDir d, hL d hd, ?_⟩
  show mirrorSq t ∈ ray occ' (mirrorSq s) d.1 (-d.2) 8
  rw [ray_mirror hocc _ _ _ hs, mem_map_mirrorSq, mirrorSq_mirrorSq]
  exact hr

/-- The targets of an officer on the mirrored square, for the mirrored occupancy, contain the mirror
    images of its targets. -/
theorem mem_officerTargets_mirror {occ occ' : Nat → Bool} (hocc : ∀ t, t < 64 → occ' (mirrorSq t) = occ t)
    (k : Kind) {s : Nat} (hs : s < 64) {t : Nat} (h : t ∈ officerTargets occ k s) :
    mirrorSq t ∈ officerTargets occ' k (mirrorSq s) := by
  cases k with
  | pawn => simp [officerTargets] at h
  | knight => exact mem_stepTargets_mirror knightJumps_closed hs h
  | king => exact mem_stepTargets_mirror kingSteps_closed hs h
  | rook => exact mem_rayTargets_mirror rookDirs_closed hocc hs h
  | bishop => exact mem_rayTargets_mirror bishopDirs_closed hocc hs h
  | queen => exact mem_rayTargets_mirror queenDirs_closed hocc hs h

theorem fwd_opp (c : Color) : fwd c.opp = - fwd c := by cases c <;> rfl

/-- Pawn targets of the other colour from the mirrored square. -/
theorem pawnTargets_mirror (c : Color) {s : Nat} (hs : s < 64) :
    pawnTargets c.opp (mirrorSq s) = (pawnTargets c s).map mirrorSq := by
  unfold pawnTargets
  rw [fwd_opp, step_mirror hs, step_mirror hs]
  cases step s 1 (fwd c) <;> cases step s (-1) (fwd c) <;> rfl

theorem mem_pawnTargets_mirror (c : Color) {s : Nat} (hs : s < 64) {t : Nat} (h : t ∈ pawnTargets c s) :
    mirrorSq t ∈ pawnTargets c.opp (mirrorSq s) := by
  rw [pawnTargets_mirror c hs, mem_map_mirrorSq, mirrorSq_mirrorSq]; exact h

theorem lastRank_opp (c : Color) : lastRank c.opp = 7 - lastRank c := by cases c <;> rfl
theorem startRank_opp (c : Color) : startRank c.opp = 7 - startRank c := by cases c <;> rfl
theorem homeRank_opp (c : Color) : homeRank c.opp = 7 - homeRank c := by cases c <;> rfl
theorem homeRank_lt (c : Color) : homeRank c < 8 := by cases c <;> decide
theorem lastRank_lt (c : Color) : lastRank c < 8 := by cases c <;> decide
theorem startRank_lt (c : Color) : startRank c < 8 := by cases c <;> decide

end Morlock.Spec
