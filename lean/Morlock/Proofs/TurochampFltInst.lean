import Morlock.Proofs.TurochampBound
import Morlock.Proofs.FltOps
/-!
# `FltFacts` holds: the two facts about `Flt.rnd` from the floating-point lemmas (`Proofs/FltOps.lean`, agent `flt`)

This is the only file of the TUROCHAMP proofs that depends on `Proofs/Flt*.lean`; it uses `rnd_isSome_of_absLe`,
`rnd_absLe`, `rnd_canon`, `f32_wf`, `f64_wf`.
-/
namespace Morlock.Proofs.Turochamp
open Morlock.Model.Flt

set_option exponentiation.threshold 2048 in
theorem fltFacts : FltFacts where
  abs_le32 := by
    intro x B hB ⟨hd, hb⟩
    have hsome := rnd_isSome_of_absLe f32 f32_wf (by decide) hd hb
      (Nat.le_trans hB (Nat.pow_le_pow_right (by decide) (by decide)))
    obtain ⟨v, hv⟩ := Option.isSome_iff_exists.mp hsome
    exact ⟨v, hv, (rnd_canon f32 hv).1, rnd_absLe f32 f32_wf (by decide) (by decide) hd hb hB hv⟩
  abs_le64 := by
    intro x B hB ⟨hd, hb⟩
    have hsome := rnd_isSome_of_absLe f64 f64_wf (by decide) hd hb
      (Nat.le_trans hB (Nat.pow_le_pow_right (by decide) (by decide)))
    obtain ⟨v, hv⟩ := Option.isSome_iff_exists.mp hsome
    exact ⟨v, hv, (rnd_canon f64 hv).1, rnd_absLe f64 f64_wf (by decide) (by decide) hd hb hB hv⟩

end Morlock.Proofs.Turochamp
