import Morlock.Proofs.DetSim
import Morlock.Props.C05
import Morlock.Model.BoardGame
/-!
# C18: the search game on the arena board does not depend on the Zobrist table

`SameView v1 v2`: two board views (`Proofs.Arena.View`: everything a board can read, arena indices erased)
show the same game - equal in every field except the node hashes and the repetition map (which are keyed by
hashes). `SameGame w1 b1 w2 b2` is `SameView (view w1 b1) (view w2 b2)`.

`sameGame_push`: for boards with a good history (`GoodHistory`, C05) under their own tables, a good move
(`GoodStep`) is refused by both or accepted by both, and then the boards still show the same game - in
particular they report the *same result*: by C05 `draw_iff_good` each result is the verdict dictated by the
whole-line occurrence count, the clock and the material, none of which mentions the table.

`seed_simN`: hence `SeedRel z1 z2` (same game + both histories good + every generated move in the next `n`
plies is a good step: `GoodTree`) is a depth-indexed simulation between `boardGame z1 ev` and `boardGame z2 ev`.
-/
namespace Morlock.Proofs.Det
open Morlock Morlock.Model Morlock.Model.World Morlock.Proofs Morlock.Proofs.Arena Morlock.Proofs.Draw
  Morlock.Proofs.Material
open Morlock.Props.C05 (DrawVerdict ClockHit MaterialHit draw_iff_good)

/-- A node with its hash forgotten. -/
def unhash (n : Node) : Node := { n with hash := 0 }

@[simp] theorem unhash_pos (n : Node) : (unhash n).pos = n.pos := rfl

/-- Two views show the same game: equal in everything but the node hashes and the repetition map. -/
structure SameView (v1 v2 : View) : Prop where
  pos : v1.pos = v2.pos
  noprogress : v1.noprogress = v2.noprogress
  past : v1.past.map unhash = v2.past.map unhash
  turn : v1.turn = v2.turn
  ply : v1.ply = v2.ply
  moves : v1.moves = v2.moves
  castledW : v1.castledW = v2.castledW
  castledB : v1.castledB = v2.castledB
  result : v1.result = v2.result

/-- Board `b1` of `w1` and board `b2` of `w2` show the same game (hashes and repetition maps unrelated). -/
def SameGame (w1 : World) (b1 : Nat) (w2 : World) (b2 : Nat) : Prop := SameView (view w1 b1) (view w2 b2)

theorem SameView.refl (v : View) : SameView v v := ⟨rfl, rfl, rfl, rfl, rfl, rfl, rfl, rfl, rfl⟩

theorem SameView.symm {v1 v2 : View} (h : SameView v1 v2) : SameView v2 v1 :=
  ⟨h.pos.symm, h.noprogress.symm, h.past.symm, h.turn.symm, h.ply.symm, h.moves.symm, h.castledW.symm,
   h.castledB.symm, h.result.symm⟩

theorem SameView.trans {v1 v2 v3 : View} (h : SameView v1 v2) (h' : SameView v2 v3) : SameView v1 v3 :=
  ⟨h.pos.trans h'.pos, h.noprogress.trans h'.noprogress, h.past.trans h'.past, h.turn.trans h'.turn,
   h.ply.trans h'.ply, h.moves.trans h'.moves, h.castledW.trans h'.castledW, h.castledB.trans h'.castledB,
   h.result.trans h'.result⟩

theorem SameView.pastPos {v1 v2 : View} (h : SameView v1 v2) : v1.past.map (·.pos) = v2.past.map (·.pos) := by
  have := congrArg (List.map (·.pos)) h.past
  simpa [List.map_map, Function.comp_def] using this

/-! ## the arena-level reading of "same game" -/

/-- The two worlds are literally equal - same arena size, same nodes index by index (position, clock, `next`,
`prev`), same board records - except for the node hashes and the repetition maps. -/
structure SameArena (w1 w2 : World) : Prop where
  node : ∀ i, unhash (w1.node i) = unhash (w2.node i)
  board : ∀ b, { w1.board b with repetitions := [] } = { w2.board b with repetitions := [] }

theorem SameArena.prev {w1 w2 : World} (h : SameArena w1 w2) (i : Nat) : (w1.node i).prev = (w2.node i).prev := by
  have := congrArg Node.prev (h.node i)
  exact this

theorem SameArena.ancIdx {w1 w2 : World} (h : SameArena w1 w2) (o : Option Nat) : ancIdx w2 o = ancIdx w1 o :=
  path_congr _ _ (fun j _ => (h.prev j).symm)

/-- Worlds equal up to hashes and repetition maps show the same game on every board. -/
theorem sameGame_of_sameArena {w1 w2 : World} (h : SameArena w1 w2) (b : Nat) : SameGame w1 b w2 b := by
  have hb := h.board b
  have hcur : (w1.board b).current = (w2.board b).current := by
    have := congrArg Board.current hb; exact this
  have hn : unhash (w1.cur b) = unhash (w2.cur b) := by
    unfold World.cur; rw [hcur]; exact h.node _
  have hprev : (w1.cur b).prev = (w2.cur b).prev := by have := congrArg Node.prev hn; exact this
  refine ⟨?_, ?_, ?_, ?_, ?_, ?_, ?_, ?_, ?_⟩
  · have := congrArg Node.pos hn; exact this
  · have := congrArg Node.noprogress hn; exact this
  · show ((anc w1 (w1.cur b).prev).map eraseNode).map unhash = ((anc w2 (w2.cur b).prev).map eraseNode).map unhash
    rw [hprev]
    unfold anc
    rw [h.ancIdx, List.map_map, List.map_map, List.map_map, List.map_map]
    apply List.map_congr_left
    intro j _
    have := h.node j
    simp only [Function.comp, unhash, eraseNode, Node.mk.injEq] at this ⊢
    exact ⟨this.1, trivial, this.2.2.1, this.2.2.2.1, trivial⟩
  · have := congrArg Board.turn hb; exact this
  · have := congrArg Board.ply hb; exact this
  · have := congrArg Board.moves hb; exact this
  · have := congrArg Board.castledW hb; exact this
  · have := congrArg Board.castledB hb; exact this
  · have := congrArg Board.result hb; exact this

/-! ## occurrence counts only look at positions -/

theorem occOf_congr_pos (pos : Position) (turn : Color) :
    ∀ (l1 l2 : List Node) (t : Color), l1.map (·.pos) = l2.map (·.pos) → occOf pos turn t l1 = occOf pos turn t l2
  | [], [], _, _ => rfl
  | [], _ :: _, _, h => by simp at h
  | _ :: _, [], _, h => by simp at h
  | n1 :: r1, n2 :: r2, t, h => by
    simp only [List.map_cons, List.cons.injEq] at h
    rw [occOf_cons, occOf_cons, occOf_congr_pos pos turn r1 r2 t.opp h.2, h.1]

theorem vlineK_pos (v : View) : (vlineK v).map (·.pos) = v.pos :: v.past.map (·.pos) := by
  simp [vlineK, List.map_map, Function.comp_def]

theorem occurrences_view (w : World) (b : Nat) :
    occurrences w b = occOf (view w b).pos (view w b).turn (view w b).turn (vlineK (view w b)) := by
  unfold occurrences
  rw [lineK_view]
  rfl

/-- Boards showing the same game have the same whole-line occurrence count (the result is not needed). -/
theorem occurrences_same {w1 w2 : World} {b1 b2 : Nat} (hpos : (view w1 b1).pos = (view w2 b2).pos)
    (hpast : (view w1 b1).past.map (·.pos) = (view w2 b2).past.map (·.pos))
    (hturn : (view w1 b1).turn = (view w2 b2).turn) : occurrences w1 b1 = occurrences w2 b2 := by
  rw [occurrences_view, occurrences_view, hpos, hturn]
  apply occOf_congr_pos
  rw [vlineK_pos, vlineK_pos, hpos, hpast]

/-! ## the verdict determines the result -/

/-- Two boards whose results are both the verdict of their history (C05 `DrawVerdict`) and whose histories
agree on occurrence count, clock and position report the same result. -/
theorem result_eq_of_verdict {w1 w2 : World} {b1 b2 : Nat} {m : Move} (h1 : DrawVerdict w1 b1 m)
    (h2 : DrawVerdict w2 b2 m) (hocc : occurrences w1 b1 = occurrences w2 b2)
    (hnp : (w1.cur b1).noprogress = (w2.cur b2).noprogress) (hpos : (w1.cur b1).pos = (w2.cur b2).pos) :
    (w1.board b1).result = (w2.board b2).result := by
  obtain ⟨a0, aM, aN, a5, a3, anone⟩ := h1
  obtain ⟨c0, cM, cN, c5, c3, cnone⟩ := h2
  have eN : ClockHit w1 b1 ↔ ClockHit w2 b2 := by unfold ClockHit; rw [hnp]
  have eM : MaterialHit w1 b1 m ↔ MaterialHit w2 b2 m := by unfold MaterialHit; rw [hpos]
  rw [hocc, eN, eM] at a0 a5 a3
  rw [eM] at aM
  rw [eN, eM] at aN
  have ho : (w1.board b1).result.outcome = .draw ↔ (w2.board b2).result.outcome = .draw := a0.trans c0.symm
  by_cases hd : (w1.board b1).result.outcome = .draw
  · have hd2 := ho.mp hd
    have hcause := c0.mp hd2
    have hreason : (w1.board b1).result.reason = (w2.board b2).result.reason := by
      by_cases hM : MaterialHit w2 b2 m
      · rw [aM.mpr hM, cM.mpr hM]
      · by_cases hN : ClockHit w2 b2
        · rw [aN.mpr ⟨hN, hM⟩, cN.mpr ⟨hN, hM⟩]
        · by_cases h5 : occurrences w2 b2 ≥ 5
          · rw [a5.mpr ⟨h5, hN, hM⟩, c5.mpr ⟨h5, hN, hM⟩]
          · have h34 : occurrences w2 b2 = 3 ∨ occurrences w2 b2 = 4 := by
              rcases hcause with h | h | h
              · omega
              · exact absurd h hN
              · exact absurd h hM
            rw [a3.mpr ⟨h34, hN, hM⟩, c3.mpr ⟨h34, hN, hM⟩]
    cases hr1 : (w1.board b1).result with
    | mk o1 r1 =>
      cases hr2 : (w2.board b2).result with
      | mk o2 r2 =>
        rw [hr1] at hd hreason
        rw [hr2] at hd2 hreason
        simp only at hd hd2 hreason
        rw [hd, hd2, hreason]
  · rw [anone hd, cnone (fun h => hd (ho.mpr h))]

/-! ## one move on two boards showing the same game -/

theorem viewPush_isSome (z : ZTable) (v : View) (m : Move) :
    (viewPush z v m).isSome = (!blockedR v.result && (v.pos.move m).isSome) := by
  unfold viewPush
  cases blockedR v.result
  · cases v.pos.move m <;> rfl
  · rfl

/-- What accompanies "same game" in the simulation: both worlds well-formed, both histories good. -/
structure SeedBase (z1 z2 : ZTable) (w1 : World) (b1 : Nat) (w2 : World) (b2 : Nat) : Prop where
  wf1 : WFWorld w1
  wf2 : WFWorld w2
  lt1 : b1 < w1.boards.size
  lt2 : b2 < w2.boards.size
  same : SameGame w1 b1 w2 b2
  good1 : GoodHistory z1 w1 b1
  good2 : GoodHistory z2 w2 b2

/-- **The simulation step.** Two boards with good histories (each under its own table) show the same game;
a move that is a good step if `Position.move` accepts it is then refused by both boards or accepted by both,
and after it the boards again show the same game - with the same reported result - and have good histories. -/
theorem sameGame_push {z1 z2 : ZTable} (hz1 : z1.enpassant 0 = 0) (hz2 : z2.enpassant 0 = 0) {w1 w2 : World}
    {b1 b2 : Nat} (h : SeedBase z1 z2 w1 b1 w2 b2) {m : Move}
    (hstep : ∀ q, (w1.cur b1).pos.move m = some q → GoodStep (w1.cur b1).pos (w1.board b1).turn m q) :
    ORel (fun w1' w2' => SeedBase z1 z2 w1' b1 w2' b2) (w1.pushMove z1 b1 m) (w2.pushMove z2 b2 m) := by
  obtain ⟨hw1, hw2, hb1, hb2, hsv, hg1, hg2⟩ := h
  have hsome : (w1.pushMove z1 b1 m).isSome = (w2.pushMove z2 b2 m).isSome := by
    have e1 := congrArg Option.isSome (push_view hw1 (z := z1) hb1 m)
    have e2 := congrArg Option.isSome (push_view hw2 (z := z2) hb2 m)
    rw [Option.isSome_map, viewPush_isSome] at e1 e2
    rw [e1, e2, hsv.result, hsv.pos]
  cases h1 : w1.pushMove z1 b1 m with
  | none =>
    cases h2 : w2.pushMove z2 b2 m with
    | none => trivial
    | some w2' => rw [h1, h2] at hsome; cases hsome
  | some w1' =>
    cases h2 : w2.pushMove z2 b2 m with
    | none => rw [h1, h2] at hsome; cases hsome
    | some w2' =>
      show SeedBase z1 z2 w1' b1 w2' b2
      have hw1' := wf_push hw1 hb1 h1
      have hw2' := wf_push hw2 hb2 h2
      have hb1' : b1 < w1'.boards.size := by rw [boards_size_push h1]; exact hb1
      have hb2' : b2 < w2'.boards.size := by rw [boards_size_push h2]; exact hb2
      -- the new views
      obtain ⟨n1, hm1, e1⟩ := viewPush_some (push_view_some hw1 hb1 h1)
      obtain ⟨n2, hm2, e2⟩ := viewPush_some (push_view_some hw2 hb2 h2)
      have hn : n1 = n2 := by
        rw [hsv.pos, hm2] at hm1
        exact (Option.some.inj hm1).symm
      subst hn
      have hpos' : (view w1' b1).pos = (view w2' b2).pos := by rw [e1, e2]
      have hnp' : (view w1' b1).noprogress = (view w2' b2).noprogress := by rw [e1, e2]; simp only [hsv.noprogress]
      have hpast' : (view w1' b1).past.map unhash = (view w2' b2).past.map unhash := by
        rw [e1, e2]
        simp only [List.map_cons, hsv.past, unhash, hsv.pos, hsv.noprogress]
      have hturn' : (view w1' b1).turn = (view w2' b2).turn := by rw [e1, e2]; simp only [hsv.turn]
      -- both steps are good
      have hcur1 : (w1.cur b1).pos.move m = some (w1'.cur b1).pos := (push_line hw1 hb1 h1).2.2.2.1
      have hcur2 : (w2.cur b2).pos.move m = some (w2'.cur b2).pos := (push_line hw2 hb2 h2).2.2.2.1
      have hs1 := hstep _ hcur1
      have hs2 : GoodStep (w2.cur b2).pos (w2.board b2).turn m (w2'.cur b2).pos := by
        have ep : (w1.cur b1).pos = (w2.cur b2).pos := hsv.pos
        have et : (w1.board b1).turn = (w2.board b2).turn := hsv.turn
        have eq' : (w1'.cur b1).pos = (w2'.cur b2).pos := hpos'
        rw [← ep, ← et, ← eq']
        exact hs1
      obtain ⟨hv1, hg1'⟩ := draw_iff_good hz1 hw1 hb1 h1 hg1 hs1
      obtain ⟨hv2, hg2'⟩ := draw_iff_good hz2 hw2 hb2 h2 hg2 hs2
      have hocc : occurrences w1' b1 = occurrences w2' b2 := by
        apply occurrences_same hpos' _ hturn'
        have := congrArg (List.map (·.pos)) hpast'
        simpa [List.map_map, Function.comp_def] using this
      have hres : (view w1' b1).result = (view w2' b2).result :=
        result_eq_of_verdict hv1 hv2 hocc hnp' hpos'
      refine ⟨hw1', hw2', hb1', hb2', ⟨hpos', hnp', hpast', hturn', ?_, ?_, ?_, ?_, hres⟩, hg1', hg2'⟩
      · rw [e1, e2]; simp only [hsv.ply]
      · rw [e1, e2]; simp only [hsv.moves, hsv.turn]
      · rw [e1, e2]; simp only [hsv.castledW, hsv.turn]
      · rw [e1, e2]; simp only [hsv.castledB, hsv.turn]

/-! ## the hypothesis on the moves -/

/-- Every generated move accepted by `Position.move` in the next `n` plies is a good step (C05 `GoodStep`:
views agree, accurate metadata, made by the side to move, sound type). -/
def GoodTree : Nat → Position → Color → Prop
  | 0, _, _ => True
  | n + 1, p, t => ∀ m ∈ p.pseudoLegalMoves t, ∀ q, p.move m = some q → GoodStep p t m q ∧ GoodTree n q t.opp

/-- The moves `ms` played from `p` are good steps when accepted, and from the position they lead to every
generated move accepted in the next `n` plies is a good step. -/
def GoodPlay (n : Nat) : Position → Color → List Move → Prop
  | p, t, [] => GoodTree n p t
  | p, t, m :: ms => ∀ q, p.move m = some q → GoodStep p t m q ∧ GoodPlay n q t.opp ms

/-- The generator only produces good steps on the positions satisfying `J`, and `J` is kept. -/
structure GoodGen (J : Position → Color → Prop) : Prop where
  step : ∀ {p t m q}, J p t → m ∈ p.pseudoLegalMoves t → p.move m = some q → GoodStep p t m q ∧ J q t.opp

theorem goodTree_of_gen {J : Position → Color → Prop} (h : GoodGen J) :
    ∀ (n : Nat) (p : Position) (t : Color), J p t → GoodTree n p t
  | 0, _, _, _ => trivial
  | n + 1, _, t, hj => fun _ hm q hq => ⟨(h.step hj hm hq).1, goodTree_of_gen h n q t.opp (h.step hj hm hq).2⟩

/-- A decidable sufficient criterion for `GoodTree` (C05 `stepCheck` on every accepted generated move). -/
def treeCheck : Nat → Position → Color → Bool
  | 0, _, _ => true
  | n + 1, p, t => (p.pseudoLegalMoves t).all fun m =>
      match p.move m with
      | none => true
      | some q => stepCheck p t m && treeCheck n q t.opp

theorem goodTree_of_treeCheck : ∀ (n : Nat) (p : Position) (t : Color), PosOK p → treeCheck n p t = true →
    GoodTree n p t
  | 0, _, _, _, _ => trivial
  | n + 1, p, t, hp, hc => by
    intro m hm q hq
    simp only [treeCheck, List.all_eq_true] at hc
    have := hc m hm
    rw [hq] at this
    simp only [Bool.and_eq_true] at this
    have hfs := fullStep_of_stepCheck hp this.1 hq
    exact ⟨hfs.good, goodTree_of_treeCheck n q t.opp (posOK_move hp hfs.good.ok hfs.good.sound hfs.noKing hq) this.2⟩

/-- A decidable sufficient criterion for `GoodPlay`. -/
def playTreeCheck (n : Nat) : Position → Color → List Move → Bool
  | p, t, [] => treeCheck n p t
  | p, t, m :: ms =>
    match p.move m with
    | none => true
    | some q => stepCheck p t m && playTreeCheck n q t.opp ms

theorem goodPlay_of_check (n : Nat) : ∀ (ms : List Move) (p : Position) (t : Color), PosOK p →
    playTreeCheck n p t ms = true → GoodPlay n p t ms
  | [], p, t, hp, hc => goodTree_of_treeCheck n p t hp hc
  | m :: ms, p, t, hp, hc => by
    intro q hq
    simp only [playTreeCheck, hq, Bool.and_eq_true] at hc
    have hfs := fullStep_of_stepCheck hp hc.1 hq
    exact ⟨hfs.good, goodPlay_of_check n ms q t.opp (posOK_move hp hfs.good.ok hfs.good.sound hfs.noKing hq) hc.2⟩

/-! ## the simulation -/

/-- The simulation relation between `boardGame z1 ev` and `boardGame z2 ev` (boards 0). -/
structure SeedRel (z1 z2 : ZTable) (n : Nat) (w1 w2 : World) : Prop where
  base : SeedBase z1 z2 w1 0 w2 0
  tree : GoodTree n (w1.cur 0).pos (w1.board 0).turn

theorem seed_simN {z1 z2 : ZTable} (hz1 : z1.enpassant 0 = 0) (hz2 : z2.enpassant 0 = 0)
    (ev : Position → Color → Int) : SimN (boardGame z1 ev) (boardGame z2 ev) (SeedRel z1 z2) := by
  have hpos : ∀ {n w1 w2}, SeedRel z1 z2 n w1 w2 → (w1.cur 0).pos = (w2.cur 0).pos := fun h => h.base.same.pos
  have hturn : ∀ {n w1 w2}, SeedRel z1 z2 n w1 w2 → (w1.board 0).turn = (w2.board 0).turn :=
    fun h => h.base.same.turn
  refine ⟨?_, ?_, ?_, ?_, ?_, ?_⟩
  · intro n w1 w2 h
    have : (w1.board 0).result = (w2.board 0).result := h.base.same.result
    simp only [boardGame, this]
  · intro n w1 w2 h
    exact h.base.same.ply
  · intro n w1 w2 h
    simp only [boardGame, hpos h, hturn h]
  · intro n w1 w2 h
    simp only [boardGame, hpos h, hturn h]
  · intro n w1 w2 h
    simp only [boardGame, hpos h, hturn h]
  · intro n w1 w2 m h hm
    have htree := h.tree
    have hstep : ∀ q, (w1.cur 0).pos.move m = some q → GoodStep (w1.cur 0).pos (w1.board 0).turn m q :=
      fun q hq => (htree m hm q hq).1
    have := sameGame_push hz1 hz2 h.base hstep
    apply this.imp
    intro w1' w2' e1 _ hb
    refine ⟨hb, ?_⟩
    obtain ⟨_, ht, _, hmv, _⟩ := push_line h.base.wf1 h.base.lt1 e1
    rw [ht]
    exact (htree m hm _ hmv).2

/-! ## worlds built by the same operations -/

theorem view_newBoard (w : World) (z : ZTable) (pos : Position) (turn : Color) (np fm : Int) (hw : WFWorld w) :
    view (w.newBoard z pos turn np fm).1 (w.newBoard z pos turn np fm).2 =
      { pos := pos, hash := z.hash pos turn, noprogress := np, past := [], turn := turn, ply := 1, moves := fm,
        castledW := false, castledB := false, reps := fun h => repGet [(z.hash pos turn, 1)] h, result := {} } := by
  have hid : (w.newBoard z pos turn np fm).2 = w.boards.size := rfl
  have hbd := newBoard_board w z pos turn np fm w.boards.size
  rw [if_pos rfl] at hbd
  have hcur := (newBoard_cur w z pos turn np fm).1
  have hw' := wf_newBoard hw z pos turn np fm
  unfold view
  rw [hcur]
  rw [hid] at hcur ⊢
  rw [hbd]
  simp [anc, ancIdx, bound]

/-- Two new boards on the same position, each hashed with its own table, show the same game and have good
histories. -/
theorem seedBase_newBoard (z1 z2 : ZTable) {w1 w2 : World} (hw1 : WFWorld w1) (hw2 : WFWorld w2) (pos : Position)
    (turn : Color) {np : Int} (fm : Int) (hnp : 0 ≤ np) :
    SeedBase z1 z2 (w1.newBoard z1 pos turn np fm).1 (w1.newBoard z1 pos turn np fm).2
      (w2.newBoard z2 pos turn np fm).1 (w2.newBoard z2 pos turn np fm).2 := by
  refine ⟨wf_newBoard hw1 _ _ _ _ _, wf_newBoard hw2 _ _ _ _ _, by simp [World.newBoard], by simp [World.newBoard],
    ?_, goodHistory_newBoard w1 z1 pos turn fm hnp, goodHistory_newBoard w2 z2 pos turn fm hnp⟩
  unfold SameGame
  rw [view_newBoard w1 z1 pos turn np fm hw1, view_newBoard w2 z2 pos turn np fm hw2]
  exact ⟨rfl, rfl, rfl, rfl, rfl, rfl, rfl, rfl, rfl⟩

/-- The same good moves played on both boards: both sequences are accepted or both are refused, and then the
worlds are related by the simulation relation (boards 0). -/
theorem seedRel_pushAll {z1 z2 : ZTable} (hz1 : z1.enpassant 0 = 0) (hz2 : z2.enpassant 0 = 0) (n : Nat)
    (ms : List Move) :
    ∀ {w1 w2 : World}, SeedBase z1 z2 w1 0 w2 0 → GoodPlay n (w1.cur 0).pos (w1.board 0).turn ms →
      ORel (SeedRel z1 z2 n) (pushAll z1 0 w1 ms) (pushAll z2 0 w2 ms) := by
  induction ms with
  | nil => intro w1 w2 h hg; exact ⟨h, hg⟩
  | cons m r ih =>
    intro w1 w2 h hg
    have hstep := sameGame_push hz1 hz2 h (fun q hq => (hg q hq).1)
    simp only [pushAll]
    cases h1 : w1.pushMove z1 0 m <;> cases h2 : w2.pushMove z2 0 m <;> rw [h1, h2] at hstep <;>
      simp only [ORel] at hstep
    · trivial
    · rename_i w1' w2'
      simp only [Option.bind_some]
      apply ih hstep
      obtain ⟨_, ht, _, hmv, _⟩ := push_line h.wf1 h.lt1 h1
      rw [ht]
      exact (hg _ hmv).2

end Morlock.Proofs.Det
