import Morlock.Proofs.BernsteinFlt
import Morlock.Proofs.FltFacts
/-! The three facts about `rnd f32` that `Bernstein.eval_total` takes as hypotheses, discharged from the `Flt` lemma library. -/
namespace Morlock.Proofs.Bernstein
open Morlock.Model.Flt

theorem rndFacts : RndFacts where
  isSome_of_le := rnd32_facts_isSome
  int_exact := rnd32_facts_int
  abs_le := rnd32_facts_abs_le

end Morlock.Proofs.Bernstein
