import Morlock.Proofs.GenAbs
import Morlock.Proofs.GenSpec
/-!
# Stage B of C01: officer moves and king steps

The generator is split into its three parts (`genOfficers`, `genPawns`, `genKing`); this file
characterises the officer part and the king-step part against the mailbox board of `Rep`.
-/
namespace Morlock.Proofs.Gen
open Morlock Morlock.Model Morlock.Proofs.Attack

/-! ## The generator, split into its parts (definitionally) -/

/-- Normal moves and captures of one officer (or the king) of kind `piece` standing on `fr`. -/
def genSteps (p : Position) (turn : Color) (piece : Piece) (fr : Nat) : List Move :=
  let ab := ((attackboard p.rotated fr piece).getD 0) &&& not64 (p.pieces turn .none)
  p.emitMove turn .normal piece fr (ab &&& not64 (p.pieces turn.opp .none)) ++
  p.emitMove turn .capture piece fr (ab &&& p.pieces turn.opp .none)

/-- The officers part of `pseudoLegalMoves`. -/
def genOfficers (p : Position) (turn : Color) : List Move :=
  Position.promoPieces.flatMap fun piece =>
    (toSquares (p.pieces turn piece)).flatMap fun fr => genSteps p turn piece fr

/-- The moves of one pawn standing on `fr`. -/
def genPawn (p : Position) (turn : Color) (fr : Nat) : List Move :=
  let mask := not64 (p.pieces turn .none)
  let captures := p.pieces turn.opp .none
  let jumps := pawnJumpRank turn
  let promos := pawnPromotionRank turn
  let origin := bitMask fr
  let captureboard := pawnCaptureboard turn origin &&& mask
  let pushboard := pawnMoveboard p.rotated.rot turn origin
  let jumpboard := pawnMoveboard p.rotated.rot turn pushboard &&& jumps
  p.emitMove turn .capture .pawn fr (andNot (captureboard &&& captures) promos) ++
  p.emitMove turn .push .pawn fr (andNot pushboard promos) ++
  p.emitMove turn .jump .pawn fr jumpboard ++
  p.emitPromo turn .capturePromotion .pawn fr (captureboard &&& captures &&& promos) ++
  p.emitPromo turn .promotion .pawn fr (pushboard &&& promos) ++
  (if p.enpassant != 0 then p.emitMove turn .enPassant .pawn fr (captureboard &&& bitMask p.enpassant) else [])

/-- The pawns part of `pseudoLegalMoves`. -/
def genPawns (p : Position) (turn : Color) : List Move :=
  (toSquares (p.pieces turn .pawn)).flatMap fun fr => genPawn p turn fr

/-- One castle emission. -/
def genCastle (p : Position) (turn : Color) (fr : Nat) (right : Nat) (cmask : List Nat) (rookSq : Nat)
    (t : MoveType) (to : Nat) : List Move :=
  if (p.castling &&& right != 0) && (Position.maskOf cmask &&& p.rotated.rot) == 0 &&
      (p.pieces turn .rook &&& bitMask rookSq != 0)
  then p.emitMove turn t .king fr (bitMask to) else []

/-- The two castle emissions of `turn`, for the king on `fr`. -/
def genCastles (p : Position) (turn : Color) (fr : Nat) : List Move :=
  match turn with
  | .white =>
    genCastle p .white fr wK Gen.whiteKingSideCastlingMask H1 .kingSideCastle G1 ++
    genCastle p .white fr wQ Gen.whiteQueenSideCastlingMask A1 .queenSideCastle C1
  | .black =>
    genCastle p .black fr bK Gen.blackKingSideCastlingMask H8 .kingSideCastle G8 ++
    genCastle p .black fr bQ Gen.blackQueenSideCastlingMask A8 .queenSideCastle C8

/-- The king part of `pseudoLegalMoves`: steps of the (lowest) king, then the castles. -/
def genKing (p : Position) (turn : Color) : List Move :=
  if p.pieces turn .king = 0 then [] else
    genSteps p turn .king (lastPopSquare (p.pieces turn .king)) ++
    genCastles p turn (lastPopSquare (p.pieces turn .king))

/-- `PseudoLegalMoves` is the concatenation of its three parts (by definition). -/
theorem pseudoLegalMoves_eq (p : Position) (turn : Color) :
    p.pseudoLegalMoves turn = genOfficers p turn ++ genPawns p turn ++ genKing p turn := by
  unfold Position.pseudoLegalMoves genOfficers genPawns genKing genSteps genPawn genCastles genCastle
  cases turn <;> rfl

/-! ## Stage B -/

/-- A step move (officer move or king step) of a `turn` piece of kind `pc`, with its metadata, as
    the rules and the mailbox board prescribe it. -/
def StepMove (b : Board) (turn : Color) (pc : Piece) (m : Move) : Prop :=
  b m.from = some (turn, pc) ∧ m.piece = pc ∧ m.promotion = .none ∧
  m.to ∈ Spec.officerTargets (occB b) (kindOf pc) m.from ∧
  ((b m.to = none ∧ m.ty = .normal ∧ m.capture = .none) ∨
   (∃ k, b m.to = some (turn.opp, k) ∧ m.ty = .capture ∧ m.capture = k))

/-- The moves generated for one officer / king on `fr`. -/
theorem mem_genSteps {p : Position} {b : Board} (h : Rep p b) {turn : Color} {piece : Piece} {fr : Nat}
    (hpw : piece ≠ .pawn) (hsq : b fr = some (turn, piece)) (m : Move) :
    m ∈ genSteps p turn piece fr ↔ m.from = fr ∧ StepMove b turn piece m := by
  have hfr : fr < 64 := h.lt_of_some hsq
  have hp : piece ≠ .none := h.ne_none_of_some hsq
  unfold genSteps StepMove
  simp only [attackboard_of_rep h hfr hp hpw, Option.getD_some]
  have hT := toBB_lt _ (officerTargets_lt (occB b) (kindOf piece) fr)
  rw [List.mem_append, mem_emitMove (and_lt_left _ (and_lt_left _ hT)),
    mem_emitMove (and_lt_left _ (and_lt_left _ hT))]
  simp only [Nat.testBit_and, Bool.and_eq_true, testBit_toBB, not64_testBit, decide_eq_true_eq,
    Bool.not_eq_true', reduceCtorEq, if_false, if_true, captureAt_of_rep h]
  constructor
  · rintro (⟨⟨⟨ht, ht64, hown⟩, _, hopp⟩, hty, hpc, hf, hpr, hcap⟩ | ⟨⟨⟨ht, ht64, hown⟩, hopp⟩, hty, hpc, hf, hpr, hcap⟩)
    · rw [h.all _ _ ht64] at hown hopp
      have hnone := colAt_none_iff.mp ⟨hown, hopp⟩
      exact ⟨hf, hf ▸ hsq, hpc, hpr, hf ▸ ht, Or.inl ⟨hnone, hty, hcap⟩⟩
    · rw [h.all _ _ ht64] at hopp
      obtain ⟨k, hk⟩ := colAt_enemy_iff.mp hopp
      exact ⟨hf, hf ▸ hsq, hpc, hpr, hf ▸ ht, Or.inr ⟨k, hk, hty, by rw [hcap, capAt_enemy hk]⟩⟩
  · rintro ⟨hf, _, hpc, hpr, ht, hd⟩
    have ht64 : m.to < 64 := officerTargets_lt _ _ _ _ ht
    rcases hd with ⟨hnone, hty, hcap⟩ | ⟨k, hk, hty, hcap⟩
    · left
      obtain ⟨hown, hopp⟩ := (colAt_none_iff (turn := turn)).mpr hnone
      refine ⟨⟨⟨hf ▸ ht, ht64, ?_⟩, ht64, ?_⟩, hty, hpc, hf, hpr, hcap⟩
      · rw [h.all _ _ ht64]; exact hown
      · rw [h.all _ _ ht64]; exact hopp
    · right
      have hopp := colAt_enemy_iff.mpr ⟨k, hk⟩
      refine ⟨⟨⟨hf ▸ ht, ht64, ?_⟩, ?_⟩, hty, hpc, hf, hpr, by rw [hcap, capAt_enemy hk]⟩
      · rw [h.all _ _ ht64]; exact colAt_enemy_not_own hopp
      · rw [h.all _ _ ht64]; exact hopp

/-- **Stage B (officers).** A move is in the officers part of the generator output iff it is a
    step move of a queen, rook, knight or bishop of the side to move. -/
theorem mem_genOfficers {p : Position} {b : Board} (h : Rep p b) (turn : Color) (m : Move) :
    m ∈ genOfficers p turn ↔ ∃ pc ∈ Position.promoPieces, StepMove b turn pc m := by
  unfold genOfficers
  simp only [List.mem_flatMap]
  constructor
  · rintro ⟨pc, hpc, fr, hfr, hm⟩
    have hpc' := (mem_promoPieces pc).mp hpc
    have hne : pc ≠ .none := by rcases hpc' with rfl | rfl | rfl | rfl <;> simp
    have hpw : pc ≠ .pawn := by rcases hpc' with rfl | rfl | rfl | rfl <;> simp
    have hbit := (mem_toSquares (h.piecesLt turn pc) fr).mp hfr
    have hfr64 := toSquares_lt (h.piecesLt turn pc) hfr
    rw [h.one turn pc fr hne hfr64, decide_eq_true_eq] at hbit
    exact ⟨pc, hpc, ((mem_genSteps h hpw hbit m).mp hm).2⟩
  · rintro ⟨pc, hpc, hm⟩
    have hpc' := (mem_promoPieces pc).mp hpc
    have hne : pc ≠ .none := by rcases hpc' with rfl | rfl | rfl | rfl <;> simp
    have hpw : pc ≠ .pawn := by rcases hpc' with rfl | rfl | rfl | rfl <;> simp
    have hsq := hm.1
    have hfr64 := h.lt_of_some hsq
    refine ⟨pc, hpc, m.from, ?_, (mem_genSteps h hpw hsq m).mpr ⟨rfl, hm⟩⟩
    rw [mem_toSquares (h.piecesLt turn pc), h.one turn pc _ hne hfr64, decide_eq_true_eq]
    exact hsq

/-- The king the generator moves: the lowest-numbered `turn` king, if any. -/
theorem kingSquare_spec {p : Position} {b : Board} (h : Rep p b) (turn : Color)
    (hk : p.pieces turn .king ≠ 0) :
    b (lastPopSquare (p.pieces turn .king)) = some (turn, .king) ∧
      ∀ j, j < lastPopSquare (p.pieces turn .king) → b j ≠ some (turn, .king) := by
  obtain ⟨h64, hbit, hlow⟩ := lastPopSquare_spec hk (h.piecesLt turn .king)
  rw [h.one turn .king _ (by simp) h64, decide_eq_true_eq] at hbit
  refine ⟨hbit, fun j hj => ?_⟩
  have := hlow j hj
  rw [h.one turn .king _ (by simp) (by omega)] at this
  simpa using this

/-- No king on the board iff the king bitboard is zero. -/
theorem king_zero_iff {p : Position} {b : Board} (h : Rep p b) (turn : Color) :
    p.pieces turn .king = 0 ↔ ∀ sq, b sq ≠ some (turn, .king) := by
  constructor
  · intro h0 sq hsq
    have h64 := h.lt_of_some hsq
    have := h.one turn .king sq (by simp) h64
    rw [h0, hsq] at this
    simp at this
  · intro hall
    apply eq_zero_of_no_bits
    intro i
    by_cases hi : i < 64
    · rw [h.one turn .king i (by simp) hi]; simpa using hall i
    · exact testBit_high (h.piecesLt turn .king) (by omega)

/-- **Stage B (king steps).** With a king on the board, the king-step part of the generator output
    is exactly the step moves of the lowest-numbered king. -/
theorem mem_genKingSteps {p : Position} {b : Board} (h : Rep p b) (turn : Color)
    (hk : p.pieces turn .king ≠ 0) (m : Move) :
    m ∈ genSteps p turn .king (lastPopSquare (p.pieces turn .king)) ↔
      m.from = lastPopSquare (p.pieces turn .king) ∧ StepMove b turn .king m :=
  mem_genSteps h (by simp) (kingSquare_spec h turn hk).1 m

/-! ## Consequences: accurate metadata -/

theorem StepMove.metaOKb {b : Board} {turn : Color} {pc : Piece} {m : Move} (hm : StepMove b turn pc m) :
    MetaOKb b m = true := by
  obtain ⟨hsq, hpc, hpr, ht, hd⟩ := hm
  have ht64 : m.to < 64 := officerTargets_lt _ _ _ _ ht
  unfold MetaOKb
  rw [hsq]
  rcases hd with ⟨hnone, hty, hcap⟩ | ⟨k, hk, hty, hcap⟩
  · simp [hpc, ht64, hty, hnone]
  · simp [hpc, ht64, hty, hk, hcap]

/-- **Stage B.** Step moves carry accurate metadata. -/
theorem StepMove.metaOK {p : Position} {b : Board} (h : Rep p b) {turn : Color} {pc : Piece} {m : Move}
    (hm : StepMove b turn pc m) : MetaOK p m = true := by
  rw [h.metaOK_iff]; exact hm.metaOKb


/-! ## Link to the reference move list -/

theorem kindOf_ne_pawn {pc : Piece} (h0 : pc ≠ .none) (h1 : pc ≠ .pawn) : kindOf pc ≠ .pawn := by
  cases pc <;> simp [kindOf] at h0 h1 ⊢

theorem opp_of_ne {c turn : Color} (h : c ≠ turn) : c = turn.opp := by
  cases c <;> cases turn <;> simp [Color.opp] at h ⊢

theorem StepMove.not_own {b : Board} {turn : Color} {pc : Piece} {m : Move} (hm : StepMove b turn pc m) :
    colAt b m.to turn = false := by
  unfold colAt
  rcases hm.2.2.2.2 with ⟨hn, _, _⟩ | ⟨k, hk, _, _⟩
  · rw [hn]
  · rw [hk]; cases turn <;> simp [Color.opp]

/-- Step moves are reference officer steps. -/
theorem StepMove.abs_mem_officerNormal {p : Position} {b : Board} (h : Rep p b) {turn : Color}
    {pc : Piece} {m : Move} (hm : StepMove b turn pc m) :
    absMove m ∈ officerNormal (abs p turn) (absColor turn) (kindOf pc) m.from := by
  rw [mem_officerNormal]
  refine ⟨rfl, by simp [absMove, hm.2.2.1, absKind], ?_, ?_⟩
  · rw [h.abs_occ]; exact hm.2.2.2.1
  · intro k2 hk2
    have := (h.abs_at_colour turn m.to turn).mp ⟨k2, hk2⟩
    rw [hm.not_own] at this; cases this

/-- **Stage B.** Step moves of officers and kings are pseudo-legal moves of the reference. -/
theorem StepMove.abs_mem_pseudoMoves {p : Position} {b : Board} (h : Rep p b) {turn : Color}
    {pc : Piece} {m : Move} (hpw : pc ≠ .pawn) (hm : StepMove b turn pc m) :
    absMove m ∈ Spec.pseudoMoves (abs p turn) := by
  have hne : pc ≠ .none := h.ne_none_of_some hm.1
  rw [mem_pseudoMoves]
  refine ⟨h.lt_of_some hm.1, ?_⟩
  have hat : (abs p turn).at (absMove m).from = some ((abs p turn).turn, kindOf pc) :=
    (h.abs_at_iff turn m.from turn (kindOf pc)).mpr (by rw [kindPiece_kindOf hne]; exact hm.1)
  rw [movesFrom_officer hat (kindOf_ne_pawn hne hpw), List.mem_append]
  exact Or.inl (hm.abs_mem_officerNormal h)

/-- Conversely every reference officer step from a square holding `(turn, pc)` is the abstraction
    of a step move. -/
theorem exists_stepMove_of_officerNormal {p : Position} {b : Board} (h : Rep p b) {turn : Color}
    {pc : Piece} {fr : Nat} (hsq : b fr = some (turn, pc)) {sm : Spec.SMove}
    (hsm : sm ∈ officerNormal (abs p turn) (absColor turn) (kindOf pc) fr) :
    ∃ m, StepMove b turn pc m ∧ absMove m = sm := by
  rw [mem_officerNormal] at hsm
  obtain ⟨h1, h2, h3, h4⟩ := hsm
  rw [h.abs_occ] at h3
  have hown : colAt b sm.to turn = false := by
    cases hc : colAt b sm.to turn with
    | false => rfl
    | true =>
      obtain ⟨K, hK⟩ := (h.abs_at_colour turn sm.to turn).mpr hc
      exact absurd hK (h4 K)
  have habs : ∀ (ty : MoveType) (cap : Piece), absMove
      ({ ty := ty, «from» := fr, to := sm.to, piece := pc, promotion := .none, capture := cap } : Move) = sm := by
    intro ty cap
    cases sm; simp only at h1 h2; subst h1 h2; rfl
  cases hb : b sm.to with
  | none =>
    exact ⟨{ ty := .normal, «from» := fr, to := sm.to, piece := pc, promotion := .none, capture := .none },
      ⟨hsq, rfl, rfl, h3, Or.inl ⟨hb, rfl, rfl⟩⟩, habs _ _⟩
  | some x =>
    obtain ⟨c', k⟩ := x
    have hc' : c' = turn.opp := by
      apply opp_of_ne
      intro e; subst e
      simp [colAt, hb] at hown
    subst hc'
    exact ⟨{ ty := .capture, «from» := fr, to := sm.to, piece := pc, promotion := .none, capture := k },
      ⟨hsq, rfl, rfl, h3, Or.inr ⟨k, hb, rfl, rfl⟩⟩, habs _ _⟩

end Morlock.Proofs.Gen
