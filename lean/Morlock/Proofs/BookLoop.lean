import Morlock.Proofs.Book
import Morlock.Proofs.ChainSound
/-!
# `engine.NewBook` without strings

`NewBook` re-decodes its own `Encode` output at every step, drops the error of `Decode` and dereferences the position.
Here: the key the loop holds always decodes to the position just reached (`KeyOK`), which is reachable from the initial
position by generated moves; hence the loops are equal to loops over *positions* (`posLoop`, `posLines`) that never
touch a string, and the `panic` outcome is impossible.
-/
namespace Morlock.Proofs.Book
open Morlock Morlock.Model Morlock.Model.Fen Morlock.Model.Book Morlock.Proofs Morlock.Proofs.Fen
open Morlock.Proofs.Gen Morlock.Proofs.Chain

/-- The position half of one iteration of the inner loop of `NewBook`: parse the move text, take the first generated
    move with the same from/to/promotion, make it. -/
def nextPos (p : Position) (t : Color) (s : List Char) : Except Err (Move × Position) :=
  match parseMove s with
  | none => .error .parse
  | some nx =>
    match (p.pseudoLegalMoves t).find? (fun c => c.equals nx) with
    | none => .error .notFound
    | some c =>
      match p.move c with
      | none => .error .notLegal
      | some q => .ok (c, q)

/-- The inner loop on positions. -/
def posLoop (tb : Table) (p : Position) (t : Color) : List (List Char) → Except Err Table
  | [] => .ok tb
  | s :: rest =>
    match nextPos p t s with
    | .error e => .error e
    | .ok (c, q) => posLoop (tb.add (keyOf p t) c) q t.opp rest

/-- The outer loop on positions: every line starts from the initial position. -/
def posLines (tb : Table) : List (List (List Char)) → Except Err Table
  | [] => .ok tb
  | line :: rest =>
    match posLoop tb startPos .white line with
    | .error e => .error e
    | .ok tb' => posLines tb' rest

/-- Play the texts of a line (prefix) from a position. -/
def playStrs (p : Position) (t : Color) : List (List Char) → Option (Position × Color)
  | [] => some (p, t)
  | s :: rest =>
    match nextPos p t s with
    | .error _ => none
    | .ok (_, q) => playStrs q t.opp rest

/-! ## What `nextPos` returns -/

theorem nextPos_ok {p : Position} {t : Color} {s : List Char} {c : Move} {q : Position}
    (h : nextPos p t s = .ok (c, q)) :
    ∃ nx, parseMove s = some nx ∧ c.equals nx = true ∧ c ∈ p.pseudoLegalMoves t ∧ p.move c = some q ∧
      (p.pseudoLegalMoves t).find? (fun c => c.equals nx) = some c := by
  unfold nextPos at h
  cases hp : parseMove s with
  | none => rw [hp] at h; cases h
  | some nx =>
    rw [hp] at h
    simp only at h
    cases hf : (p.pseudoLegalMoves t).find? (fun c => c.equals nx) with
    | none => rw [hf] at h; cases h
    | some c' =>
      rw [hf] at h
      simp only at h
      cases hm : p.move c' with
      | none => rw [hm] at h; cases h
      | some q' =>
        rw [hm] at h
        simp only [Except.ok.injEq, Prod.mk.injEq] at h
        obtain ⟨rfl, rfl⟩ := h
        have he := List.find?_some hf
        exact ⟨nx, rfl, he, List.mem_of_find?_eq_some hf, hm, hf⟩

/-- The three ways `nextPos` fails (it never panics). -/
theorem nextPos_error {p : Position} {t : Color} {s : List Char} {e : Err} (h : nextPos p t s = .error e) :
    (e = .parse ∧ parseMove s = none) ∨
    (e = .notFound ∧ ∃ nx, parseMove s = some nx ∧ ∀ c ∈ p.pseudoLegalMoves t, c.equals nx = false) ∨
    (e = .notLegal ∧ ∃ nx c, parseMove s = some nx ∧ c ∈ p.pseudoLegalMoves t ∧ c.equals nx = true ∧
      p.move c = none) := by
  unfold nextPos at h
  cases hp : parseMove s with
  | none => rw [hp] at h; simp only [Except.error.injEq] at h; exact Or.inl ⟨h.symm, rfl⟩
  | some nx =>
    rw [hp] at h
    simp only at h
    cases hf : (p.pseudoLegalMoves t).find? (fun c => c.equals nx) with
    | none =>
      rw [hf] at h; simp only [Except.error.injEq] at h
      refine Or.inr (Or.inl ⟨h.symm, nx, rfl, fun c hc => ?_⟩)
      have := List.find?_eq_none.mp hf c hc
      simpa using this
    | some c' =>
      rw [hf] at h
      simp only at h
      cases hm : p.move c' with
      | none =>
        rw [hm] at h; simp only [Except.error.injEq] at h
        have he := List.find?_some hf
        exact Or.inr (Or.inr ⟨h.symm, nx, c', rfl, List.mem_of_find?_eq_some hf, he, hm⟩)
      | some q' => rw [hm] at h; cases h

theorem nextPos_ne_panic {p : Position} {t : Color} {s : List Char} : nextPos p t s ≠ .error .panic := by
  intro h
  rcases nextPos_error h with ⟨h, _⟩ | ⟨h, _⟩ | ⟨h, _⟩ <;> cases h

/-! ## The key invariant -/

/-- The key held by the loop spells the position reached: it decodes to it (clocks 0 and 1), strips to its four-field
    key, the position is reachable from the initial position by generated moves, and holds only the four rights. -/
structure KeyOK (key : List Char) (p : Position) (t : Color) : Prop where
  dec : decode key = some ⟨p, t, 0, 1⟩
  str : strip key = some (keyOf p t)
  reach : GenReach startPos .white p t
  cast : p.castling < 16

theorem wfplay_of_reach {p : Position} {t : Color} (h : GenReach startPos .white p t) : WFplay p t :=
  reach_wfplay startPos_wfplay h

theorem enpassant_lt {p : Position} {t : Color} (hw : WF p t) : p.enpassant < 64 := by
  by_cases he : p.enpassant = 0
  · rw [he]; decide
  · exact (hw.wfb.ep_ok he).1

theorem andNot_lt16 {x : Nat} (y : Nat) (hx : x < 16) : andNot x y < 16 := by
  unfold andNot
  have h1 : x &&& y < 2 ^ 4 := Nat.lt_of_le_of_lt Nat.and_le_left hx
  exact Nat.xor_lt_two_pow (n := 4) hx h1

/-- `fen.Initial` is `Encode` of the initial position with clocks 0 and 1. -/
theorem initial_eq : initial = (encode startPos .white 0 1).toList := by decide +kernel

theorem startPos_castling : startPos.castling < 16 := by decide +kernel

theorem keyOK_of_reach {p : Position} {t : Color} (hr : GenReach startPos .white p t) (hc : p.castling < 16) :
    KeyOK (encode p t 0 1).toList p t := by
  have hw := wfplay_of_reach hr
  have he := enpassant_lt hw.1
  exact ⟨decode_encode_of_rep hw.1.rep hc he t 0 1 (by decide) (by decide), strip_encode hw.1.rep hc he t 0 1, hr, hc⟩

theorem keyOK_initial : KeyOK initial startPos .white := by
  rw [initial_eq]
  exact keyOK_of_reach (GenReach.refl _ _) startPos_castling

theorem castling_after {p q : Position} {t : Color} {c : Move} (hw : WFplay p t) (hc : c ∈ p.pseudoLegalMoves t)
    (hq : p.move c = some q) (hcast : p.castling < 16) : q.castling < 16 := by
  have hps := (mem_pseudoLegalMoves hw.1.rep hw.1.wfb c).mp hc
  obtain ⟨hok, _⟩ := hps.metaOK_classOK hw.1.rep hw.1.wfb
  obtain ⟨_, h2, _⟩ := move_rep hw.1.rep hok hq
  rw [h2]; exact andNot_lt16 _ hcast

theorem keyOK_step {key : List Char} {p q : Position} {t : Color} {c : Move} (h : KeyOK key p t)
    (hc : c ∈ p.pseudoLegalMoves t) (hq : p.move c = some q) : KeyOK (encode q t.opp 0 1).toList q t.opp :=
  keyOK_of_reach (GenReach.step h.reach hc hq) (castling_after (wfplay_of_reach h.reach) hc hq h.cast)

/-! ## The loops of `NewBook` are the loops on positions -/

theorem stepMove_eq {key : List Char} {p : Position} {t : Color} (h : KeyOK key p t) (tb : Table) (s : List Char) :
    stepMove tb key s =
      match nextPos p t s with
      | .error e => .error e
      | .ok (c, q) => .ok (tb.add (keyOf p t) c, (encode q t.opp 0 1).toList) := by
  unfold stepMove nextPos
  rw [h.dec, h.str]
  cases parseMove s with
  | none => rfl
  | some nx =>
    simp only
    cases (p.pseudoLegalMoves t).find? (fun c => c.equals nx) with
    | none => rfl
    | some c =>
      simp only
      cases p.move c with
      | none => rfl
      | some q => rfl

theorem lineLoop_eq : ∀ (l : List (List Char)) {key : List Char} {p : Position} {t : Color} (_ : KeyOK key p t)
    (tb : Table), lineLoop tb key l = posLoop tb p t l
  | [], _, _, _, _, _ => rfl
  | s :: rest, key, p, t, h, tb => by
    unfold lineLoop posLoop
    rw [stepMove_eq h]
    cases hn : nextPos p t s with
    | error e => rfl
    | ok x =>
      obtain ⟨c, q⟩ := x
      simp only
      obtain ⟨_, _, _, hc, hq, _⟩ := nextPos_ok hn
      exact lineLoop_eq rest (keyOK_step h hc hq) _

theorem linesLoop_eq : ∀ (lines : List (List (List Char))) (tb : Table), linesLoop tb lines = posLines tb lines
  | [], _ => rfl
  | line :: rest, tb => by
    unfold linesLoop posLines
    rw [lineLoop_eq line keyOK_initial]
    cases posLoop tb startPos .white line with
    | error e => rfl
    | ok tb' => exact linesLoop_eq rest tb'

/-- **`NewBook` is a loop over positions**: no `Decode` failure, no `Strip` panic can occur inside it. -/
theorem newBook_eq (lines : List (List (List Char))) : newBook lines = posLines [] lines := linesLoop_eq lines []

/-! ## `playStrs` -/

theorem playStrs_append : ∀ (a b : List (List Char)) (p : Position) (t : Color),
    playStrs p t (a ++ b) = (playStrs p t a).bind fun x => playStrs x.1 x.2 b
  | [], _, _, _ => rfl
  | s :: a, b, p, t => by
    simp only [List.cons_append, playStrs]
    cases nextPos p t s with
    | error e => rfl
    | ok x => exact playStrs_append a b x.2 t.opp

theorem playStrs_reach : ∀ (l : List (List Char)) {p0 : Position} {t0 : Color} (p : Position) (t : Color)
    {q : Position} {t' : Color}, GenReach p0 t0 p t → playStrs p t l = some (q, t') → GenReach p0 t0 q t'
  | [], _, _, p, t, q, t', hr, h => by
    simp only [playStrs, Option.some.injEq, Prod.mk.injEq] at h
    obtain ⟨rfl, rfl⟩ := h
    exact hr
  | s :: rest, _, _, p, t, q, t', hr, h => by
    unfold playStrs at h
    cases hn : nextPos p t s with
    | error e => rw [hn] at h; cases h
    | ok x =>
      obtain ⟨c, r⟩ := x
      rw [hn] at h
      obtain ⟨_, _, _, hc, hq, _⟩ := nextPos_ok hn
      exact playStrs_reach rest r t.opp (GenReach.step hr hc hq) h

theorem playStrs_snoc {p : Position} {t : Color} {pre : List (List Char)} {s : List Char} {p' q : Position}
    {t' : Color} {c : Move} (h : playStrs p t pre = some (p', t')) (hn : nextPos p' t' s = .ok (c, q)) :
    playStrs p t (pre ++ [s]) = some (q, t'.opp) := by
  rw [playStrs_append, h]
  simp only [Option.bind_some, playStrs, hn]

/-! ## Monotonicity: the loops only add replies -/

theorem posLoop_mono : ∀ (l : List (List Char)) (tb : Table) (p : Position) (t : Color) {tb' : Table}
    {k : List Char} {m : Move}, posLoop tb p t l = .ok tb' → m ∈ tb.get k → m ∈ tb'.get k
  | [], _, _, _, _, _, _, h, hm => by
    simp only [posLoop, Except.ok.injEq] at h
    rw [← h]; exact hm
  | s :: rest, tb, p, t, tb', k, m, h, hm => by
    unfold posLoop at h
    cases hn : nextPos p t s with
    | error e => rw [hn] at h; cases h
    | ok x =>
      obtain ⟨c, q⟩ := x
      rw [hn] at h
      exact posLoop_mono rest _ q t.opp h (get_add_mono tb _ k c m hm)

theorem posLines_mono : ∀ (lines : List (List (List Char))) (tb : Table) {tb' : Table} {k : List Char} {m : Move},
    posLines tb lines = .ok tb' → m ∈ tb.get k → m ∈ tb'.get k
  | [], _, _, _, _, h, hm => by
    simp only [posLines, Except.ok.injEq] at h
    rw [← h]; exact hm
  | line :: rest, tb, tb', k, m, h, hm => by
    unfold posLines at h
    cases hl : posLoop tb startPos .white line with
    | error e => rw [hl] at h; cases h
    | ok tb1 =>
      rw [hl] at h
      exact posLines_mono rest tb1 h (posLoop_mono line tb _ _ hl hm)

/-! ## Soundness and completeness of the inner loop -/

/-- `(k, m)` is an entry demanded by the lines: some line, cut as `pre ++ s :: post`, reaches `(p, t)` after `pre`,
    its next text `s` selects the generated move `m`, which `Position.Move` accepts, and `k` is the key of `(p, t)`. -/
def Entry (lines : List (List (List Char))) (k : List Char) (m : Move) : Prop :=
  ∃ line ∈ lines, ∃ (pre : List (List Char)) (s : List Char) (post : List (List Char)) (p : Position) (t : Color)
    (q : Position), line = pre ++ s :: post ∧ playStrs startPos .white pre = some (p, t) ∧
      nextPos p t s = .ok (m, q) ∧ k = keyOf p t

theorem posLoop_sound {lines : List (List (List Char))} {line : List (List Char)} (hl : line ∈ lines) :
    ∀ (l pre : List (List Char)) (tb : Table) (p : Position) (t : Color) {tb' : Table}, line = pre ++ l →
      playStrs startPos .white pre = some (p, t) → TableAll (Entry lines) tb → posLoop tb p t l = .ok tb' →
      TableAll (Entry lines) tb'
  | [], _, _, _, _, _, _, _, ht, h => by
    simp only [posLoop, Except.ok.injEq] at h
    rw [← h]; exact ht
  | s :: rest, pre, tb, p, t, tb', he, hp, ht, h => by
    unfold posLoop at h
    cases hn : nextPos p t s with
    | error e => rw [hn] at h; cases h
    | ok x =>
      obtain ⟨c, q⟩ := x
      rw [hn] at h
      refine posLoop_sound hl rest (pre ++ [s]) _ q t.opp (by rw [he]; simp) (playStrs_snoc hp hn)
        (tableAll_add ht ⟨line, hl, pre, s, rest, p, t, q, he, hp, hn, rfl⟩) h

theorem posLoop_complete : ∀ (pre : List (List Char)) (l : List (List Char)) (tb : Table) (p : Position) (t : Color)
    {tb' : Table} {s : List Char} {post : List (List Char)} {p' : Position} {t' : Color} {m : Move} {q : Position},
    posLoop tb p t l = .ok tb' → l = pre ++ s :: post → playStrs p t pre = some (p', t') →
      nextPos p' t' s = .ok (m, q) → m ∈ tb'.get (keyOf p' t')
  | [], l, tb, p, t, tb', s, post, p', t', m, q, h, he, hp, hn => by
    simp only [playStrs, Option.some.injEq, Prod.mk.injEq] at hp
    obtain ⟨rfl, rfl⟩ := hp
    subst he
    simp only [List.nil_append] at h
    unfold posLoop at h
    rw [hn] at h
    exact posLoop_mono post _ q t.opp h (get_add_self tb _ m)
  | a :: pre, l, tb, p, t, tb', s, post, p', t', m, q, h, he, hp, hn => by
    subst he
    simp only [List.cons_append] at h
    unfold posLoop at h
    unfold playStrs at hp
    cases ha : nextPos p t a with
    | error e => rw [ha] at hp; cases hp
    | ok x =>
      obtain ⟨c, r⟩ := x
      rw [ha] at h hp
      exact posLoop_complete pre _ _ r t.opp h rfl hp hn

/-- The inner loop succeeds exactly when the whole line can be played. -/
theorem posLoop_isOk_iff : ∀ (l : List (List Char)) (tb : Table) (p : Position) (t : Color),
    (∃ tb', posLoop tb p t l = .ok tb') ↔ (playStrs p t l).isSome = true
  | [], _, _, _ => by simp [posLoop, playStrs]
  | s :: rest, tb, p, t => by
    unfold posLoop playStrs
    cases nextPos p t s with
    | error e => simp
    | ok x => exact posLoop_isOk_iff rest _ x.2 t.opp

/-- Where the inner loop fails: after a playable prefix, on a text for which `nextPos` fails with that error. -/
theorem posLoop_error : ∀ (l : List (List Char)) (tb : Table) (p : Position) (t : Color) {e : Err},
    posLoop tb p t l = .error e →
      ∃ (pre : List (List Char)) (s : List Char) (post : List (List Char)) (p' : Position) (t' : Color),
        l = pre ++ s :: post ∧ playStrs p t pre = some (p', t') ∧ nextPos p' t' s = .error e
  | [], _, _, _, _, h => by simp [posLoop] at h
  | s :: rest, tb, p, t, e, h => by
    unfold posLoop at h
    cases hn : nextPos p t s with
    | error e' =>
      rw [hn] at h
      simp only [Except.error.injEq] at h
      subst h
      exact ⟨[], s, rest, p, t, rfl, rfl, hn⟩
    | ok x =>
      obtain ⟨c, q⟩ := x
      rw [hn] at h
      obtain ⟨pre, s', post, p', t', h1, h2, h3⟩ := posLoop_error rest _ q t.opp h
      refine ⟨s :: pre, s', post, p', t', by rw [h1]; rfl, ?_, h3⟩
      unfold playStrs
      rw [hn]; exact h2


/-! ## The outer loop -/

theorem posLines_sound {lines : List (List (List Char))} : ∀ (ls : List (List (List Char))) (tb : Table) {tb' : Table},
    (∀ l ∈ ls, l ∈ lines) → TableAll (Entry lines) tb → posLines tb ls = .ok tb' → TableAll (Entry lines) tb'
  | [], _, _, _, ht, h => by
    simp only [posLines, Except.ok.injEq] at h
    rw [← h]; exact ht
  | line :: rest, tb, tb', hs, ht, h => by
    unfold posLines at h
    cases hl : posLoop tb startPos .white line with
    | error e => rw [hl] at h; cases h
    | ok tb1 =>
      rw [hl] at h
      have h1 := posLoop_sound (hs line (List.mem_cons_self ..)) line [] tb startPos .white rfl rfl ht hl
      exact posLines_sound rest tb1 (fun l hl' => hs l (List.mem_cons_of_mem _ hl')) h1 h

theorem posLines_complete : ∀ (ls : List (List (List Char))) (tb : Table) {tb' : Table} {k : List Char} {m : Move},
    posLines tb ls = .ok tb' → Entry ls k m → m ∈ tb'.get k
  | [], _, _, _, _, _, he => by
    obtain ⟨_, hl, _⟩ := he
    cases hl
  | line :: rest, tb, tb', k, m, h, he => by
    unfold posLines at h
    cases hl : posLoop tb startPos .white line with
    | error e => rw [hl] at h; cases h
    | ok tb1 =>
      rw [hl] at h
      obtain ⟨line', hmem, pre, s, post, p, t, q, e1, e2, e3, e4⟩ := he
      rcases List.mem_cons.mp hmem with rfl | hmem
      · rw [e4]
        have h1 : m ∈ tb1.get (keyOf p t) := posLoop_complete pre _ tb startPos .white hl e1 e2 e3
        exact posLines_mono rest tb1 h h1
      · exact posLines_complete rest tb1 h ⟨line', hmem, pre, s, post, p, t, q, e1, e2, e3, e4⟩

theorem posLines_isOk_iff : ∀ (ls : List (List (List Char))) (tb : Table),
    (∃ tb', posLines tb ls = .ok tb') ↔ ∀ l ∈ ls, (playStrs startPos .white l).isSome = true
  | [], _ => by simp [posLines]
  | line :: rest, tb => by
    unfold posLines
    constructor
    · rintro ⟨tb', h⟩
      cases hl : posLoop tb startPos .white line with
      | error e => rw [hl] at h; cases h
      | ok tb1 =>
        rw [hl] at h
        intro l hmem
        rcases List.mem_cons.mp hmem with rfl | hmem
        · exact (posLoop_isOk_iff _ tb _ _).mp ⟨tb1, hl⟩
        · exact (posLines_isOk_iff rest tb1).mp ⟨tb', h⟩ l hmem
    · intro h
      obtain ⟨tb1, hl⟩ := (posLoop_isOk_iff line tb startPos .white).mpr (h line (List.mem_cons_self ..))
      rw [hl]
      exact (posLines_isOk_iff rest tb1).mpr fun l hmem => h l (List.mem_cons_of_mem _ hmem)

theorem posLines_error : ∀ (ls : List (List (List Char))) (tb : Table) {e : Err}, posLines tb ls = .error e →
    ∃ line ∈ ls, ∃ (pre : List (List Char)) (s : List Char) (post : List (List Char)) (p : Position) (t : Color),
      line = pre ++ s :: post ∧ playStrs startPos .white pre = some (p, t) ∧ nextPos p t s = .error e
  | [], _, _, h => by simp [posLines] at h
  | line :: rest, tb, e, h => by
    unfold posLines at h
    cases hl : posLoop tb startPos .white line with
    | error e' =>
      rw [hl] at h
      simp only [Except.error.injEq] at h
      subst h
      exact ⟨line, List.mem_cons_self .., posLoop_error line tb _ _ hl⟩
    | ok tb1 =>
      rw [hl] at h
      obtain ⟨l, hmem, rest'⟩ := posLines_error rest tb1 h
      exact ⟨l, List.mem_cons_of_mem _ hmem, rest'⟩

/-! ## Keys and replies stay duplicate-free -/

/-- A well-formed map: distinct keys, each with distinct replies. -/
def TableWF (t : Table) : Prop := (t.map (·.1)).Nodup ∧ RepliesNodup t

theorem tableWF_nil : TableWF [] := ⟨by simp, fun _ _ h => by cases h⟩

theorem posLoop_wf : ∀ (l : List (List Char)) (tb : Table) (p : Position) (t : Color) {tb' : Table},
    posLoop tb p t l = .ok tb' → TableWF tb → TableWF tb'
  | [], _, _, _, _, h, hw => by
    simp only [posLoop, Except.ok.injEq] at h
    rw [← h]; exact hw
  | s :: rest, tb, p, t, tb', h, hw => by
    unfold posLoop at h
    cases hn : nextPos p t s with
    | error e => rw [hn] at h; cases h
    | ok x =>
      obtain ⟨c, q⟩ := x
      rw [hn] at h
      exact posLoop_wf rest _ q t.opp h ⟨nodup_keys_add hw.1 _ _, repliesNodup_add hw.2 _ _⟩

theorem posLines_wf : ∀ (ls : List (List (List Char))) (tb : Table) {tb' : Table},
    posLines tb ls = .ok tb' → TableWF tb → TableWF tb'
  | [], _, _, h, hw => by
    simp only [posLines, Except.ok.injEq] at h
    rw [← h]; exact hw
  | line :: rest, tb, tb', h, hw => by
    unfold posLines at h
    cases hl : posLoop tb startPos .white line with
    | error e => rw [hl] at h; cases h
    | ok tb1 =>
      rw [hl] at h
      exact posLines_wf rest tb1 h (posLoop_wf line tb _ _ hl hw)

/-! ## Reachable positions hold only the four rights -/

theorem reach_castling_aux {p0 : Position} {t0 : Color} (hw : WFplay p0 t0) (h0 : p0.castling < 16) {p : Position}
    {t : Color} (h : GenReach p0 t0 p t) : p.castling < 16 := by
  induction h with
  | refl => exact h0
  | step hr hm hq ih => exact castling_after (reach_wfplay hw hr) hm hq (ih hw)

theorem reach_castling {p : Position} {t : Color} (h : GenReach startPos .white p t) : p.castling < 16 :=
  reach_castling_aux startPos_wfplay startPos_castling h

/-- For reachable positions `Strip (Encode ..)` is the four-field key, whatever the clocks. -/
theorem strip_encode_reach {p : Position} {t : Color} (h : GenReach startPos .white p t) (np fm : Int) :
    strip (encode p t np fm).toList = some (keyOf p t) :=
  have hw := wfplay_of_reach h
  strip_encode hw.1.rep (reach_castling h) (enpassant_lt hw.1) t np fm

end Morlock.Proofs.Book
