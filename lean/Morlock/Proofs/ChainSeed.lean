import Morlock.Proofs.ChainArena
import Morlock.Proofs.DetSeed
/-!
# Chain (→ C18): `GoodGen` / `GoodTree` / `GoodPlay` from `WFplay` of the start position

`GoodGen J` (`Proofs/DetSeed.lean`) asks for an invariant `J` of positions under which every generated move
accepted by `Position.move` is a `GoodStep` and `J` is kept. `WFplay` is such an invariant (`goodGen_wfplay`),
so the hypothesis `GoodTree n` of C18 `seed_independent` holds for every `n` at every position reachable from
a `WFplay` start position by generated moves.
-/
namespace Morlock.Proofs.Chain
open Morlock Morlock.Model Morlock.Proofs Morlock.Proofs.Gen Morlock.Proofs.Draw Morlock.Proofs.Det

/-- **`goodGen_of_wf`.** `WFplay` is an invariant under which the generator only produces good steps. -/
theorem goodGen_wfplay : GoodGen WFplay :=
  ⟨fun hj hm hq => ⟨(step_wfplay hj hm hq).1.good, (step_wfplay hj hm hq).2⟩⟩

/-- Every generated move accepted within any number of plies of a `WFplay` position is a good step. -/
theorem goodTree_of_wfplay (n : Nat) {p : Position} {t : Color} (hw : WFplay p t) : GoodTree n p t :=
  goodTree_of_gen goodGen_wfplay n p t hw

/-- … and so at every position reachable by generated moves. -/
theorem goodTree_reachable (n : Nat) {p q : Position} {t t' : Color} (hw : WFplay p t) (hr : GenReach p t q t') :
    GoodTree n q t' :=
  goodTree_of_wfplay n (reach_wfplay hw hr)

/-- A generated play from a `WFplay` position is a `GoodPlay` (followed by `GoodTree n`, any `n`). -/
theorem goodPlay_of_wfplay (n : Nat) : ∀ (ms : List Move) (p : Position) (t : Color), WFplay p t → GenPlay p t ms →
    GoodPlay n p t ms
  | [], _, _, hw, _ => goodTree_of_wfplay n hw
  | _ :: ms, _, t, hw, hg => fun q hq =>
    ⟨(step_wfplay hw hg.1 hq).1.good, goodPlay_of_wfplay n ms q t.opp (step_wfplay hw hg.1 hq).2 (hg.2 q hq)⟩

/-- The decidable criterion `treeCheck` of C18 holds at every depth on `WFplay` positions. -/
theorem treeCheck_of_wfplay : ∀ (n : Nat) {p : Position} {t : Color}, WFplay p t → treeCheck n p t = true
  | 0, _, _, _ => rfl
  | n + 1, p, t, hw => by
    simp only [treeCheck, List.all_eq_true]
    intro m hm
    cases hq : p.move m with
    | none => rfl
    | some q =>
      simp only [Bool.and_eq_true]
      exact ⟨stepCheck_of_wfplay hw m hm, treeCheck_of_wfplay n (wf_preserved hw hm hq)⟩

end Morlock.Proofs.Chain
