import Morlock.Proofs.MirrorGeom
/-!
# C20: attacks and checks are symmetric under the colour-swapping mirror

`Mir p q` says that `q` is a colour-swapped mirror image of `p` as far as the rules can see (the 64
cells, the side to move, the rights, the en-passant target). It is symmetric, and `Mir p (mirror p)`
holds for every `p`; so every implication proved from `Mir p q` gives the converse for free.
-/
namespace Morlock.Spec
open Morlock.Proofs.Attack

/-- `q` is a colour-swapped mirror image of `p`. -/
structure Mir (p q : Pos) : Prop where
  cell : ∀ s, s < 64 → q.at (mirrorSq s) = mirrorCell (p.at s)
  turn : q.turn = p.turn.opp
  wk : q.wk = p.bk
  wq : q.wq = p.bq
  bk : q.bk = p.wk
  bq : q.bq = p.wq
  ep : q.ep = p.ep.map mirrorSq

theorem Mir.of_mirror (p : Pos) : Mir p (mirror p) :=
  ⟨fun _ hs => mirror_at_mirrorSq hs, rfl, rfl, rfl, rfl, rfl, rfl⟩

theorem Mir.symm {p q : Pos} (h : Mir p q) : Mir q p where
  cell := by
    intro s hs
    have := h.cell (mirrorSq s) (mirrorSq_lt hs)
    rw [mirrorSq_mirrorSq] at this
    rw [this, mirrorCell_mirrorCell]
  turn := by rw [h.turn, Color.opp_opp]
  wk := h.bk.symm
  wq := h.bq.symm
  bk := h.wk.symm
  bq := h.wq.symm
  ep := by
    rw [h.ep]
    cases p.ep <;> simp

theorem Mir.cell' {p q : Pos} (h : Mir p q) {s : Nat} (hs : s < 64) : q.at s = mirrorCell (p.at (mirrorSq s)) := by
  have := h.cell (mirrorSq s) (mirrorSq_lt hs)
  rwa [mirrorSq_mirrorSq] at this

theorem Mir.occ {p q : Pos} (h : Mir p q) : ∀ t, t < 64 → q.occ (mirrorSq t) = p.occ t := by
  intro t ht
  unfold Pos.occ
  rw [h.cell t ht, mirrorCell_isSome]

theorem Mir.at_some {p q : Pos} (h : Mir p q) {s : Nat} (hs : s < 64) {c : Color} {k : Kind}
    (hat : p.at s = some (c, k)) : q.at (mirrorSq s) = some (c.opp, k) := by
  rw [h.cell s hs, hat]; rfl

theorem Mir.at_none {p q : Pos} (h : Mir p q) {s : Nat} (hs : s < 64)
    (hat : p.at s = none) : q.at (mirrorSq s) = none := by
  rw [h.cell s hs, hat]; rfl

theorem Mir.right {p q : Pos} (h : Mir p q) (c : Color) (ks : Bool) : q.right c.opp ks = p.right c ks := by
  cases c <;> cases ks
  · exact h.bq
  · exact h.bk
  · exact h.wq
  · exact h.wk

theorem mirrorSq_mem_allSquares {s : Nat} (h : s ∈ allSquares) : mirrorSq s ∈ allSquares := by
  simp only [allSquares, List.mem_range] at h ⊢
  exact mirrorSq_lt h

/-! ## attacks -/

theorem attackedBy_mir_imp {p q : Pos} (h : Mir p q) (c : Color) (t : Nat)
    (ha : attackedBy p c t = true) : attackedBy q c.opp (mirrorSq t) = true := by
  unfold attackedBy at ha ⊢
  rw [List.any_eq_true] at ha ⊢
  obtain ⟨s, hs, hb⟩ := ha
  have hs' : s < 64 := by simpa [allSquares] using hs
  refine ⟨mirrorSq s, mirrorSq_mem_allSquares hs, ?_⟩
  cases hat : p.at s with
  | none => rw [hat] at hb; cases hb
  | some v =>
    obtain ⟨c', k⟩ := v
    rw [hat] at hb
    rw [h.at_some hs' hat]
    simp only [Bool.and_eq_true, decide_eq_true_eq] at hb ⊢
    obtain ⟨hc, hb⟩ := hb
    subst hc
    refine ⟨rfl, ?_⟩
    by_cases hk : k = .pawn
    · rw [if_pos hk] at hb ⊢
      rw [List.contains_iff_mem] at hb ⊢
      exact mem_pawnTargets_mirror c' hs' hb
    · rw [if_neg hk] at hb ⊢
      rw [List.contains_iff_mem] at hb ⊢
      exact mem_officerTargets_mirror h.occ k hs' hb

/-- **attackedBy_mirror** (relational form). -/
theorem attackedBy_mir {p q : Pos} (h : Mir p q) (c : Color) (t : Nat) :
    attackedBy q c.opp (mirrorSq t) = attackedBy p c t := by
  rw [Bool.eq_iff_iff]
  constructor
  · intro ha
    have := attackedBy_mir_imp h.symm c.opp (mirrorSq t) ha
    rwa [Color.opp_opp, mirrorSq_mirrorSq] at this
  · exact attackedBy_mir_imp h c t

/-! ## the king's square -/

/-- At most one king of colour `c` on the board. -/
def OneKing (p : Pos) (c : Color) : Prop :=
  ∀ s1 s2, s1 < 64 → s2 < 64 → p.at s1 = some (c, .king) → p.at s2 = some (c, .king) → s1 = s2

theorem kingSquare_some {p : Pos} {c : Color} {s : Nat} (h : kingSquare? p c = some s) :
    s < 64 ∧ p.at s = some (c, .king) := by
  unfold kingSquare? at h
  have h1 := List.mem_of_find?_eq_some h
  have h2 := List.find?_some h
  exact ⟨by simpa [allSquares] using h1, by simpa using h2⟩

theorem kingSquare_none {p : Pos} {c : Color} (h : kingSquare? p c = none) :
    ∀ s, s < 64 → p.at s ≠ some (c, .king) := by
  unfold kingSquare? at h
  rw [List.find?_eq_none] at h
  intro s hs
  have := h s (by simpa [allSquares] using hs)
  simpa using this

theorem kingSquare_eq_some {p : Pos} {c : Color} (hu : OneKing p c) {s : Nat} (hs : s < 64)
    (hat : p.at s = some (c, .king)) : kingSquare? p c = some s := by
  cases hk : kingSquare? p c with
  | none => exact absurd hat (kingSquare_none hk s hs)
  | some s' =>
    obtain ⟨h1, h2⟩ := kingSquare_some hk
    rw [hu s' s h1 hs h2 hat]

theorem kingSquare_eq_none {p : Pos} {c : Color} (h : ∀ s, s < 64 → p.at s ≠ some (c, .king)) :
    kingSquare? p c = none := by
  cases hk : kingSquare? p c with
  | none => rfl
  | some s' =>
    obtain ⟨h1, h2⟩ := kingSquare_some hk
    exact absurd h2 (h s' h1)

theorem OneKing.mir {p q : Pos} (h : Mir p q) {c : Color} (hu : OneKing p c) : OneKing q c.opp := by
  intro s1 s2 h1 h2 a1 a2
  rw [h.cell' h1, mirrorCell_eq_some, Color.opp_opp] at a1
  rw [h.cell' h2, mirrorCell_eq_some, Color.opp_opp] at a2
  exact mirrorSq_inj (hu _ _ (mirrorSq_lt h1) (mirrorSq_lt h2) a1 a2)

theorem kingSquare_mir {p q : Pos} (h : Mir p q) {c : Color} (hu : OneKing p c) :
    kingSquare? q c.opp = (kingSquare? p c).map mirrorSq := by
  cases hk : kingSquare? p c with
  | none =>
    apply kingSquare_eq_none
    intro s hs hat
    rw [h.cell' hs, mirrorCell_eq_some, Color.opp_opp] at hat
    exact kingSquare_none hk _ (mirrorSq_lt hs) hat
  | some s =>
    obtain ⟨h1, h2⟩ := kingSquare_some hk
    exact kingSquare_eq_some (hu.mir h) (mirrorSq_lt h1) (h.at_some h1 h2)

/-- **inCheck_mirror** (relational form): with at most one king of colour `c`. -/
theorem inCheck_mir {p q : Pos} (h : Mir p q) {c : Color} (hu : OneKing p c) :
    inCheck q c.opp = inCheck p c := by
  unfold inCheck
  rw [kingSquare_mir h hu]
  cases kingSquare? p c with
  | none => rfl
  | some s => exact attackedBy_mir h c.opp s

/-- **attackedBy_mirror.** -/
theorem attackedBy_mirror (p : Pos) (c : Color) (t : Nat) :
    attackedBy (mirror p) c.opp (mirrorSq t) = attackedBy p c t :=
  attackedBy_mir (Mir.of_mirror p) c t

/-- **inCheck_mirror.** -/
theorem inCheck_mirror {p : Pos} {c : Color} (hu : OneKing p c) :
    inCheck (mirror p) c.opp = inCheck p c :=
  inCheck_mir (Mir.of_mirror p) hu

end Morlock.Spec
