import Morlock.Model.EngineM
import Morlock.Props.C01
import Morlock.Props.C08
/-!
# Lemmas for C19 on the engine model: `Engine.Move` / `TakeBack` / `Reset` (`Model/EngineM.lean`)

* a rejected operation returns the engine it was given;
* `Engine.Move` accepts a text iff it parses to a candidate that `Equals` a legal move — the loop
  stops at the FIRST generated move that `Equals` the candidate, so this needs that no two generated moves
  share `(from, to, promotion)` (C01 `pseudo_nodup`);
* the invariant `Ok` (well-formed arena, board 0 exists, not adjudicated as checkmate/stalemate — the only
  results that make `PushMove` refuse) is established by an accepted `Reset` and kept by accepted moves and
  take-backs.
-/
namespace Morlock.Proofs.Engine
open Morlock Morlock.Model Morlock.Model.World Morlock.Proofs Morlock.Proofs.Gen Morlock.Proofs.Arena
open Morlock.Props

/-- `PushMove` would not refuse for the recorded result: the board has not been adjudicated as
    checkmate or stalemate (`AdjudicateNoLegalMoves` is only ever called on forks, by the search). -/
def Open (e : EngineM) : Prop := pushBlocked e.w 0 = false

/-- Engine invariant: well-formed arena, board 0 exists, not adjudicated. -/
structure Ok (e : EngineM) : Prop where
  wf : WFWorld e.w
  live : 0 < e.w.boards.size
  notBlocked : Open e

/-! ## rejected = unchanged -/

theorem move_rejected_unchanged (z : ZTable) (e : EngineM) (txt : List Char) (h : (e.move z txt).2 = false) :
    (e.move z txt).1 = e := by
  cases hp : Fen.parseMove txt with
  | none => simp [EngineM.move, hp]
  | some cand =>
    cases hf : ((e.w.cur 0).pos.pseudoLegalMoves (e.w.board 0).turn).find? (fun m => cand.equals m) with
    | none => simp [EngineM.move, hp, hf]
    | some m =>
      cases hpush : e.w.pushMove z 0 m with
      | none => simp [EngineM.move, hp, hf, hpush]
      | some w' => simp [EngineM.move, hp, hf, hpush] at h

theorem takeBack_rejected_unchanged (e : EngineM) (h : e.takeBack.2 = false) : e.takeBack.1 = e := by
  unfold EngineM.takeBack at h ⊢
  split
  · rfl
  · rename_i hp; simp [hp] at h

theorem reset_rejected_unchanged (z : ZTable) (e : EngineM) (fen : List Char) (h : (e.reset z fen).2 = false) :
    (e.reset z fen).1 = e := by
  unfold EngineM.reset at h ⊢
  split
  · rfl
  · rename_i hd; simp [hd] at h

/-! ## `Equals` and the reference move -/

theorem absKind_inj {a b : Piece} (h : absKind a = absKind b) : a = b := by
  cases a <;> cases b <;> first | rfl | cases h

/-- `Move.Equals` compares exactly what the reference move consists of. -/
theorem equals_iff_absMove (a b : Move) : a.equals b = true ↔ absMove a = absMove b := by
  unfold Move.equals absMove
  simp only [Bool.and_eq_true, decide_eq_true_eq, Spec.SMove.mk.injEq]
  constructor
  · rintro ⟨⟨h1, h2⟩, h3⟩; exact ⟨h1, h2, by rw [h3]⟩
  · rintro ⟨h1, h2, h3⟩; exact ⟨⟨h1, h2⟩, absKind_inj h3⟩

theorem inj_of_nodup_map {α β : Type} (f : α → β) :
    ∀ (l : List α), (l.map f).Nodup → ∀ x ∈ l, ∀ y ∈ l, f x = f y → x = y := by
  intro l
  induction l with
  | nil => intro _ x hx; cases hx
  | cons a l ih =>
    intro hn x hx y hy hxy
    rw [List.map_cons, List.nodup_cons] at hn
    rcases List.mem_cons.1 hx with rfl | hx' <;> rcases List.mem_cons.1 hy with rfl | hy'
    · rfl
    · exact absurd (List.mem_map.2 ⟨y, hy', hxy.symm⟩) hn.1
    · exact absurd (List.mem_map.2 ⟨x, hx', hxy⟩) hn.1
    · exact ih hn.2 x hx' y hy' hxy

/-- On a well-formed position the loop of `Engine.Move` finds *the* generated move that `Equals` the
    candidate: there is at most one. -/
theorem find_equals {p : Position} {turn : Color} (hw : WF p turn) {cand m : Move}
    (hm : m ∈ p.pseudoLegalMoves turn) (he : cand.equals m = true) :
    (p.pseudoLegalMoves turn).find? (fun m => cand.equals m) = some m := by
  cases hf : (p.pseudoLegalMoves turn).find? (fun m => cand.equals m) with
  | none =>
    have := List.find?_eq_none.1 hf m hm
    simp [he] at this
  | some m' =>
    have hm' : m' ∈ p.pseudoLegalMoves turn := List.mem_of_find?_eq_some hf
    have he' : cand.equals m' = true := by simpa using List.find?_some hf
    have : absMove m' = absMove m := by
      rw [← (equals_iff_absMove cand m').1 he', (equals_iff_absMove cand m).1 he]
    rw [inj_of_nodup_map absMove _ (C01.pseudo_nodup hw) m' hm' m hm this]

/-! ## `PushMove` -/

theorem pushMove_isSome_iff (w : World) (z : ZTable) (b : Nat) (m : Move) :
    (w.pushMove z b m).isSome = true ↔ pushBlocked w b = false ∧ ((w.cur b).pos.move m).isSome = true := by
  rw [pushMove_eq]
  cases hb : pushBlocked w b with
  | true => simp
  | false =>
    cases hm : (w.cur b).pos.move m with
    | none => simp
    | some next => simp

/-! ## accepted moves -/

/-- What an accepted `Engine.Move` did. -/
theorem move_accepted (z : ZTable) (e : EngineM) (txt : List Char) (h : (e.move z txt).2 = true) :
    ∃ cand m, Fen.parseMove txt = some cand ∧ m ∈ e.pos.legalMoves e.turn ∧ cand.equals m = true ∧
      e.w.pushMove z 0 m = some (e.move z txt).1.w := by
  unfold EngineM.move at h ⊢
  split at h
  · cases h
  · rename_i cand hparse
    dsimp only at h ⊢
    split at h
    · cases h
    · rename_i m hfind
      split at h
      · cases h
      · rename_i w' hpush
        refine ⟨cand, m, hparse, ?_, by simpa using List.find?_some hfind, ?_⟩
        · rw [C01.legal_iff]
          refine ⟨List.mem_of_find?_eq_some hfind, ?_⟩
          have := (pushMove_isSome_iff e.w z 0 m).1 (by rw [hpush]; rfl)
          exact this.2
        · simp [hpush]

/-- `Engine.Move` accepts exactly the texts that parse to a candidate `Equal` to a legal move
    (model side: `Position.LegalMoves`). -/
theorem move_accepted_iff_model (z : ZTable) (e : EngineM) (txt : List Char)
    (hw : WF e.pos e.turn) (ho : Open e) :
    (e.move z txt).2 = true ↔
      ∃ cand m, Fen.parseMove txt = some cand ∧ m ∈ e.pos.legalMoves e.turn ∧ cand.equals m = true := by
  constructor
  · intro h
    obtain ⟨cand, m, h1, h2, h3, _⟩ := move_accepted z e txt h
    exact ⟨cand, m, h1, h2, h3⟩
  · rintro ⟨cand, m, hparse, hm, he⟩
    rw [C01.legal_iff] at hm
    have hfind := find_equals hw hm.1 he
    have hpush : (e.w.pushMove z 0 m).isSome = true := (pushMove_isSome_iff e.w z 0 m).2 ⟨ho, hm.2⟩
    unfold EngineM.move
    simp only [hparse]
    unfold EngineM.pos EngineM.turn at hfind
    rw [hfind]
    cases hp : e.w.pushMove z 0 m with
    | none => rw [hp] at hpush; cases hpush
    | some w' => simp only [hp]

/-- A candidate denotes a legal move of the reference iff it `Equals` a legal move of the model (C01 `legal_perm`). -/
theorem denotes_legal_iff {p : Position} {turn : Color} (hw : WF p turn) (cand : Move) :
    absMove cand ∈ Spec.legalMoves (abs p turn) ↔ ∃ m, m ∈ p.legalMoves turn ∧ cand.equals m = true := by
  rw [← (C01.legal_perm hw).mem_iff, List.mem_map]
  constructor
  · rintro ⟨m, hm, he⟩; exact ⟨m, hm, (equals_iff_absMove cand m).2 he.symm⟩
  · rintro ⟨m, hm, he⟩; exact ⟨m, hm, ((equals_iff_absMove cand m).1 he).symm⟩

/-! ## the invariant -/

theorem pushResult_not_blocked (rep actual np : Int) (pos : Position) (m : Move) :
    blockedR (pushResult rep actual np pos m) = false := by
  unfold pushResult blockedR
  dsimp only
  repeat' split
  all_goals rfl

theorem ok_reset (z : ZTable) (e : EngineM) (fen : List Char) (h : (e.reset z fen).2 = true) :
    Ok (e.reset z fen).1 := by
  unfold EngineM.reset at h ⊢
  split
  · rename_i hd; simp [hd] at h
  · rename_i d hd
    refine ⟨wf_newBoard wf_empty _ _ _ _ _, by simp [newBoard], ?_⟩
    unfold Open pushBlocked
    simp [newBoard, World.board]

theorem ok_move (z : ZTable) (e : EngineM) (txt : List Char) (hk : Ok e) (h : (e.move z txt).2 = true) :
    Ok (e.move z txt).1 := by
  obtain ⟨cand, m, _, _, _, hpush⟩ := move_accepted z e txt h
  refine ⟨wf_push hk.wf hk.live hpush, by rw [boards_size_push hpush]; exact hk.live, ?_⟩
  have hv := push_view_some hk.wf hk.live hpush
  unfold viewPush at hv
  split at hv
  · cases hv
  · split at hv
    · cases hv
    · have hres := congrArg View.result (Option.some.inj hv)
      dsimp only at hres
      have : blockedR ((e.move z txt).1.w.board 0).result = false := by
        show blockedR (view (e.move z txt).1.w 0).result = false
        rw [← hres]; exact pushResult_not_blocked _ _ _ _ _
      exact this

theorem ok_takeBack (e : EngineM) (hk : Ok e) (h : e.takeBack.2 = true) : Ok e.takeBack.1 := by
  unfold EngineM.takeBack at h ⊢
  split
  · rename_i hp; simp [hp] at h
  · rename_i w' m hp
    refine ⟨wf_pop hk.wf hp, by rw [boards_size_pop hp]; exact hk.live, ?_⟩
    have hv := pop_view_some hk.wf hk.live hp
    unfold viewPop at hv
    split at hv
    · cases hv
    · have hres := congrArg (fun r => r.1.result) (Option.some.inj hv)
      dsimp only at hres
      show blockedR (view w' 0).result = false
      rw [← hres]; rfl

/-! ## the state after an accepted operation -/

/-- After an accepted `Engine.Move`: the position is `Position.Move` of the matched legal move, the other side
    is to move, and `LastMove` reports that move. -/
theorem move_accepted_pos (z : ZTable) (e : EngineM) (txt : List Char) (hk : Ok e) (h : (e.move z txt).2 = true) :
    ∃ cand m, Fen.parseMove txt = some cand ∧ m ∈ e.pos.legalMoves e.turn ∧ cand.equals m = true ∧
      e.w.pushMove z 0 m = some (e.move z txt).1.w ∧
      e.pos.move m = some (e.move z txt).1.pos ∧ (e.move z txt).1.turn = e.turn.opp ∧
      (e.move z txt).1.w.lastMove 0 = some m := by
  obtain ⟨cand, m, h1, h2, h3, hpush⟩ := move_accepted z e txt h
  refine ⟨cand, m, h1, h2, h3, hpush, ?_⟩
  have hw' := wf_push hk.wf hk.live hpush
  have hv := push_view_some hk.wf hk.live hpush
  unfold viewPush at hv
  split at hv
  · cases hv
  · split at hv
    · cases hv
    · rename_i next hnext
      have hv' := Option.some.inj hv
      refine ⟨?_, ?_, ?_⟩
      · have := congrArg View.pos hv'
        dsimp only at this
        show (view e.w 0).pos.move m = some (view (e.move z txt).1.w 0).pos
        rw [← this]; exact hnext
      · have := congrArg View.turn hv'
        dsimp only at this
        show (view (e.move z txt).1.w 0).turn = (view e.w 0).turn.opp
        rw [← this]
      · rw [lastMove_eq hw']
        have := congrArg View.past hv'
        dsimp only at this
        show (view (e.move z txt).1.w 0).past.head?.map (·.next) = some m
        rw [← this]; rfl

/-- `Engine.TakeBack` is accepted iff there is a move to take back. -/
theorem takeBack_accepted_iff (e : EngineM) : e.takeBack.2 = true ↔ (e.w.lastMove 0).isSome = true := by
  unfold EngineM.takeBack
  rw [popMove_eq]
  unfold lastMove
  cases (e.w.cur 0).prev <;> simp

/-- What an accepted `Engine.TakeBack` did: `PopMove`, which returned the last move. -/
theorem takeBack_accepted (e : EngineM) (h : e.takeBack.2 = true) :
    ∃ m, e.w.lastMove 0 = some m ∧ e.w.popMove 0 = some (e.takeBack.1.w, m) := by
  unfold EngineM.takeBack at h ⊢
  rw [popMove_eq] at h ⊢
  unfold lastMove
  cases hp : (e.w.cur 0).prev with
  | none => simp [hp] at h
  | some pi => exact ⟨_, rfl, rfl⟩

/-- An accepted move followed by `TakeBack`: accepted, and everything the board reports except its result is
    as before the move (C08 `push_pop`); the result is `Undecided`. -/
theorem move_takeBack (z : ZTable) (e : EngineM) (txt : List Char) (hk : Ok e) (h : (e.move z txt).2 = true)
    (hc : ∀ m ∈ e.pos.legalMoves e.turn, CastleFresh e.w 0 m) :
    (e.move z txt).1.takeBack.2 = true ∧
    obsNoResult (e.move z txt).1.takeBack.1.w 0 = obsNoResult e.w 0 ∧
    ((e.move z txt).1.takeBack.1.w.board 0).result = { outcome := .undecided } := by
  obtain ⟨cand, m, _, hm, _, hpush⟩ := move_accepted z e txt h
  obtain ⟨w'', hpop, hobs, _, _, hres⟩ := C08.push_pop hk.wf hk.live hpush (hc m hm)
  unfold EngineM.takeBack
  rw [hpop]
  exact ⟨rfl, hobs, hres⟩

/-- `Engine.Reset` is accepted iff `fen.Decode` accepts the text. -/
theorem reset_accepted_iff (z : ZTable) (e : EngineM) (fen : List Char) :
    (e.reset z fen).2 = true ↔ (Fen.decode fen).isSome = true := by
  unfold EngineM.reset
  cases Fen.decode fen <;> simp

/-- After an accepted `Engine.Reset`: a new board on the decoded position, no history. -/
theorem reset_accepted (z : ZTable) (e : EngineM) (fen : List Char) (d : Fen.Decoded) (hd : Fen.decode fen = some d) :
    (e.reset z fen).2 = true ∧
    (e.reset z fen).1.w = (({} : World).newBoard z d.pos d.turn d.noprogress d.fullmoves).1 ∧
    (e.reset z fen).1.pos = d.pos ∧ (e.reset z fen).1.turn = d.turn ∧
    (e.reset z fen).1.w.lastMove 0 = none ∧
    (e.reset z fen).1.position = Fen.encode d.pos d.turn d.noprogress d.fullmoves := by
  unfold EngineM.reset
  simp only [hd]
  refine ⟨trivial, trivial, ?_, ?_, ?_, ?_⟩ <;>
    simp [EngineM.pos, EngineM.turn, EngineM.position, lastMove, newBoard, World.cur, World.board, World.node]

end Morlock.Proofs.Engine
