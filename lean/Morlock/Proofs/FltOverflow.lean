import Morlock.Proofs.FltOrder
/-! # The overflow threshold, exactly: `rnd f x = none ↔ |x| ≥ (2^p − 1/2)·2^(emax−p+1)` -/
namespace Morlock.Model.Flt

/-- `rndPos f a b = none` exactly from the midpoint between the largest finite value `(2^p − 1)·2^E` and `2^p·2^E`
(`E = emax − (p−1)`) on — the midpoint itself is a tie that goes to the even significand `2^p`, i.e. overflows:
`a/b ≥ (2^(p+1) − 1)/2 · 2^E` -/
theorem rndPos_eq_none_iff (f : Fmt) (wf : f.WF) {a b : Nat} (ha : 0 < a) (hb : 0 < b) :
    rndPos f a b = none ↔
      (2 ^ (f.p + 1) - 1) * b * pn (f.emax - ((f.p : Int) - 1)) ≤ 2 * a * pd (f.emax - ((f.p : Int) - 1)) := by
  have hp := wf.p_pos
  have hP := two_pow_pred hp
  have hPpos := Nat.two_pow_pos (f.p - 1)
  have hP1 : 2 ^ (f.p + 1) = 2 * 2 ^ f.p := by rw [Nat.pow_succ, Nat.mul_comm]
  generalize hEE : f.emax - ((f.p : Int) - 1) = E
  have hEmin : f.emin ≤ E := by have := wf.range; omega
  constructor
  · -- below the threshold the result is finite
    intro hnone
    apply Nat.le_of_not_lt
    intro hlt
    have hE := expo_spec f hp ha hb
    have hup : a * pd E < 2 ^ f.p * b * pn E := by
      have : (2 ^ (f.p + 1) - 1) * b * pn E ≤ 2 * (2 ^ f.p * b * pn E) := by
        calc (2 ^ (f.p + 1) - 1) * b * pn E ≤ 2 ^ (f.p + 1) * b * pn E :=
              Nat.mul_le_mul_right _ (Nat.mul_le_mul_right _ (Nat.sub_le _ _))
          _ = 2 * (2 ^ f.p * b * pn E) := by rw [hP1]; grind
      have : 2 * a * pd E = 2 * (a * pd E) := by grind
      omega
    have hle := isExpo_le hp hE hEmin hup
    rw [rndPos_eq'] at hnone
    have hcarry : (carry f (sig0 f a b) (expo f a b)).2 ≤ expo f a b + 1 := by
      unfold carry; split <;> simp <;> omega
    rcases Int.lt_or_eq_of_le hle with hl | heq
    · have : ¬ ((carry f (sig0 f a b) (expo f a b)).2 + ((f.p : Int) - 1) > f.emax) := by omega
      simp [this] at hnone
    · -- same exponent: the significand stays below 2^p
      have hs2 : 0 < b * pn (expo f a b) := Nat.mul_pos hb (pn_pos _)
      have hspec := rhe_spec (a * pd (expo f a b)) (b * pn (expo f a b)) hs2
      have hsl := sig0_le f hp ha hb
      have hsig : roundHalfEven (a * pd (expo f a b)) (b * pn (expo f a b)) = sig0 f a b := rfl
      rw [hsig, heq] at hspec
      rw [heq] at hnone
      have hne : sig0 f a b ≠ 2 ^ f.p := by
        intro hc
        rw [hc] at hspec
        have e1 : (2 ^ (f.p + 1) - 1) * b * pn E + b * pn E = 2 * 2 ^ f.p * (b * pn E) := by
          have : 2 ^ (f.p + 1) - 1 + 1 = 2 * 2 ^ f.p := by omega
          calc (2 ^ (f.p + 1) - 1) * b * pn E + b * pn E = (2 ^ (f.p + 1) - 1 + 1) * (b * pn E) := by grind
            _ = 2 * 2 ^ f.p * (b * pn E) := by rw [this]
        have e2 : 2 * a * pd E = 2 * (a * pd E) := by grind
        omega
      have : carry f (sig0 f a b) E = (sig0 f a b, E) := by unfold carry; simp [hne]
      rw [this] at hnone
      have : ¬ (E + ((f.p : Int) - 1) > f.emax) := by omega
      simp [this] at hnone
  · -- from the threshold on there is no finite result
    intro hth
    cases hr : rndPos f a b with
    | none => rfl
    | some me =>
      exfalso
      obtain ⟨m, e⟩ := me
      obtain ⟨hm, hemin, hemax, _, hhalf, htie⟩ := rndPos_spec f hp ha hb hr
      have heE : e ≤ E := by omega
      have hbp : 0 < b * pn e := Nat.mul_pos hb (pn_pos _)
      -- 2a/b ≤ (2m+1)·2^e
      have h1 : 2 * a * pd e ≤ (2 * m + 1) * b * pn e := by
        have := hhalf.2
        calc 2 * a * pd e = 2 * (a * pd e) := by grind
          _ ≤ 2 * m * (b * pn e) + b * pn e := this
          _ = (2 * m + 1) * b * pn e := by grind
      have hmle : (2 * m + 1) * b ≤ (2 ^ (f.p + 1) - 1) * b := Nat.mul_le_mul_right _ (by omega)
      rcases Int.lt_or_eq_of_le heE with hl | heq
      · -- strictly smaller exponent: strictly below the threshold
        have h2 : 2 * a * pd e < 2 ^ 1 * ((2 * m + 1) * b) * pn e := by
          have : 0 < (2 * m + 1) * b * pn e := Nat.mul_pos (Nat.mul_pos (by omega) hb) (pn_pos _)
          have e1 : 2 ^ 1 * ((2 * m + 1) * b) * pn e = 2 * ((2 * m + 1) * b * pn e) := by grind
          omega
        have h3 := (lt_shift (2 * a) ((2 * m + 1) * b) e 1).mp h2
        have h4 : 2 * a * pd E < (2 * m + 1) * b * pn E := lt_mono_exp (by omega) h3
        have h5 : (2 * m + 1) * b * pn E ≤ (2 ^ (f.p + 1) - 1) * b * pn E := Nat.mul_le_mul_right _ hmle
        omega
      · subst heq
        have h5 : (2 * m + 1) * b * pn e ≤ (2 ^ (f.p + 1) - 1) * b * pn e := Nat.mul_le_mul_right _ hmle
        -- equality everywhere: a tie with the odd significand 2^p − 1
        have heq1 : (2 * m + 1) * b * pn e = (2 ^ (f.p + 1) - 1) * b * pn e := by omega
        have hm2 : 2 * m + 1 = 2 ^ (f.p + 1) - 1 := by
          have : (2 * m + 1) * (b * pn e) = (2 ^ (f.p + 1) - 1) * (b * pn e) := by
            calc (2 * m + 1) * (b * pn e) = (2 * m + 1) * b * pn e := by grind
              _ = (2 ^ (f.p + 1) - 1) * b * pn e := heq1
              _ = (2 ^ (f.p + 1) - 1) * (b * pn e) := by grind
          exact Nat.eq_of_mul_eq_mul_right hbp this
        have hmv : m = 2 ^ f.p - 1 := by omega
        have htie' : IsTie a b m e := by
          right
          have e1 : 2 * a * pd e = 2 * (a * pd e) := by grind
          have e2 : (2 * m + 1) * b * pn e = 2 * m * (b * pn e) + b * pn e := by grind
          omega
        have := htie htie'
        omega

/-- **the overflow threshold**: for `0 < x.den`,
`rnd f x = none ↔ |x| ≥ (2^p − 1/2)·2^(emax−p+1)` (the midpoint between the largest finite value and `2^(emax+1)`) -/
theorem rnd_eq_none_iff (f : Fmt) (wf : f.WF) (x : Q) (hd : 0 < x.den) :
    rnd f x = none ↔
      (2 ^ (f.p + 1) - 1) * x.den * pn (f.emax - ((f.p : Int) - 1)) ≤
        2 * x.num.natAbs * pd (f.emax - ((f.p : Int) - 1)) := by
  by_cases h0 : x.num = 0
  · rw [rnd_of_num_eq_zero f h0, h0]
    have hpos : 0 < (2 ^ (f.p + 1) - 1) * x.den * pn (f.emax - ((f.p : Int) - 1)) := by
      have : 2 ≤ 2 ^ (f.p + 1) := by
        calc 2 = 2 ^ 1 := rfl
          _ ≤ 2 ^ (f.p + 1) := Nat.pow_le_pow_right (by decide) (by omega)
      exact Nat.mul_pos (Nat.mul_pos (by omega) hd) (pn_pos _)
    simp; omega
  · rw [rnd_of_num_ne_zero f h0, ← rndPos_eq_none_iff f wf (a := x.num.natAbs) (b := x.den) (by omega) hd]
    cases rndPos f x.num.natAbs x.den <;> simp

/-- float32: `rnd f32 x = none ↔ |x| ≥ (2^25 − 1)·2^103` -/
theorem rnd32_eq_none_iff (x : Q) (hd : 0 < x.den) :
    rnd f32 x = none ↔ (2 ^ 25 - 1) * 2 ^ 103 * x.den ≤ x.num.natAbs := by
  rw [rnd_eq_none_iff f32 f32_wf x hd]
  have e1 : pd (f32.emax - ((f32.p : Int) - 1)) = 1 := by decide
  have e2 : pn (f32.emax - ((f32.p : Int) - 1)) = 2 ^ 104 := by decide
  have e3 : (2 ^ (f32.p + 1) - 1 : Nat) = 2 ^ 25 - 1 := by decide
  rw [e1, e2, e3]
  have e4 : (2 ^ 25 - 1) * x.den * 2 ^ 104 = 2 * ((2 ^ 25 - 1) * 2 ^ 103 * x.den) := by grind
  rw [e4]; omega

set_option exponentiation.threshold 2048 in
/-- float64: `rnd f64 x = none ↔ |x| ≥ (2^54 − 1)·2^970` -/
theorem rnd64_eq_none_iff (x : Q) (hd : 0 < x.den) :
    rnd f64 x = none ↔ (2 ^ 54 - 1) * 2 ^ 970 * x.den ≤ x.num.natAbs := by
  rw [rnd_eq_none_iff f64 f64_wf x hd]
  have e1 : pd (f64.emax - ((f64.p : Int) - 1)) = 1 := by decide
  have e2 : pn (f64.emax - ((f64.p : Int) - 1)) = 2 ^ 971 := rfl
  have e3 : (2 ^ (f64.p + 1) - 1 : Nat) = 2 ^ 54 - 1 := by decide
  rw [e1, e2, e3]
  have e4 : (2 ^ 54 - 1) * x.den * 2 ^ 971 = 2 * ((2 ^ 54 - 1) * 2 ^ 970 * x.den) := by
    have : (2 : Nat) ^ 971 = 2 * 2 ^ 970 := by rw [← Nat.pow_succ']
    rw [this]; grind
  rw [e4]; omega

end Morlock.Model.Flt
