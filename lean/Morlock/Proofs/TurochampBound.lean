import Morlock.Model.Turochamp
/-!
# Bounded rationals and the two facts about rounding the TUROCHAMP totality proof rests on

`Bd x B`: positive denominator and `|x| ≤ B` (by cross-multiplication). `FltFacts`: a value bounded by an integer of
the format rounds to a finite value with the same bound (statement (2)/(5) of `Proofs/FltLemmas.lean`: `rnd_abs_le` with
the representable bound `B`). Everything else here is arithmetic on `Q`.
-/
namespace Morlock.Proofs.Turochamp
open Morlock Morlock.Model Morlock.Model.Flt Morlock.Model.Turochamp

/-- positive denominator and `|x| ≤ B` -/
def Bd (x : Q) (B : Nat) : Prop := 0 < x.den ∧ x.num.natAbs ≤ B * x.den

/-- The facts about `Flt.rnd` used: an integer bound that is a number of the format survives rounding, and the
result is finite. (`Proofs/FltLemmas.lean`: `rnd_abs_le` applied to the representable bound `Q.ofInt B`, `rnd_exact`.) -/
structure FltFacts : Prop where
  abs_le32 : ∀ (x : Q) (B : Nat), B ≤ 2 ^ 24 → Bd x B → ∃ v, rnd f32 x = some v ∧ Bd v B
  abs_le64 : ∀ (x : Q) (B : Nat), B ≤ 2 ^ 53 → Bd x B → ∃ v, rnd f64 x = some v ∧ Bd v B

theorem Bd.mono {x : Q} {A B : Nat} (h : Bd x A) (hab : A ≤ B) : Bd x B :=
  ⟨h.1, Nat.le_trans h.2 (Nat.mul_le_mul_right _ hab)⟩

/-! ## `norm` keeps value and sign of the denominator -/

theorem norm_den_pos {x : Q} (h : 0 < x.den) : 0 < (Q.norm x).den := by
  unfold Q.norm
  simp only []
  split
  · exact h
  · simp only []
    exact Nat.div_pos (Nat.le_of_dvd h (Nat.gcd_dvd_right _ _)) (Nat.gcd_pos_of_pos_right _ h)

theorem norm_eqv (x : Q) : (Q.norm x).num * x.den = x.num * (Q.norm x).den := by
  unfold Q.norm
  simp only []
  split
  · rfl
  · simp only []
    generalize hg : Nat.gcd x.num.natAbs x.den = g
    have hgn : (g : Int) ∣ x.num := by rw [Int.ofNat_dvd_left, ← hg]; exact Nat.gcd_dvd_left _ _
    have hgd : g ∣ x.den := by rw [← hg]; exact Nat.gcd_dvd_right _ _
    have hgpos : 0 < g := by omega
    obtain ⟨n', hn'⟩ := hgn
    obtain ⟨d', hd'⟩ := hgd
    rw [hn', hd', Int.mul_ediv_cancel_left _ (by omega), Nat.mul_div_cancel_left _ hgpos]
    simp only [Int.natCast_mul]
    rw [Int.mul_left_comm, Int.mul_assoc]

theorem Bd.norm {x : Q} {B : Nat} (h : Bd x B) : Bd (Q.norm x) B := by
  refine ⟨norm_den_pos h.1, ?_⟩
  have he := congrArg Int.natAbs (norm_eqv x)
  simp only [Int.natAbs_mul, Int.natAbs_natCast] at he
  -- |n'| * d = |n| * d' ≤ B * d * d'
  have h1 : (Q.norm x).num.natAbs * x.den ≤ (B * (Q.norm x).den) * x.den := by
    rw [he]
    calc x.num.natAbs * (Q.norm x).den ≤ (B * x.den) * (Q.norm x).den := Nat.mul_le_mul_right _ h.2
      _ = (B * (Q.norm x).den) * x.den := by rw [Nat.mul_assoc, Nat.mul_comm x.den, ← Nat.mul_assoc]
  exact Nat.le_of_mul_le_mul_right h1 h.1

/-! ## the operations -/

theorem Bd.neg {x : Q} {B : Nat} (h : Bd x B) : Bd x.neg B := by
  unfold Q.neg Bd
  simp only [Int.natAbs_neg]
  exact h

theorem Bd.add {x y : Q} {A B : Nat} (hx : Bd x A) (hy : Bd y B) : Bd (Q.add x y) (A + B) := by
  unfold Q.add
  apply Bd.norm
  refine ⟨Nat.mul_pos hx.1 hy.1, ?_⟩
  show (x.num * (y.den : Int) + y.num * (x.den : Int)).natAbs ≤ (A + B) * (x.den * y.den)
  have h1 := Int.natAbs_add_le (x.num * (y.den : Int)) (y.num * (x.den : Int))
  simp only [Int.natAbs_mul, Int.natAbs_natCast] at h1
  have h2 : x.num.natAbs * y.den ≤ A * (x.den * y.den) := by
    rw [← Nat.mul_assoc]; exact Nat.mul_le_mul_right _ hx.2
  have h3 : y.num.natAbs * x.den ≤ B * (x.den * y.den) := by
    rw [Nat.mul_comm x.den, ← Nat.mul_assoc]; exact Nat.mul_le_mul_right _ hy.2
  rw [Nat.add_mul]
  omega

theorem Bd.sub {x y : Q} {A B : Nat} (hx : Bd x A) (hy : Bd y B) : Bd (Q.sub x y) (A + B) := by
  unfold Q.sub
  exact hx.add hy.neg

theorem Bd.mul {x y : Q} {A B : Nat} (hx : Bd x A) (hy : Bd y B) : Bd (Q.mul x y) (A * B) := by
  unfold Q.mul
  apply Bd.norm
  refine ⟨Nat.mul_pos hx.1 hy.1, ?_⟩
  show (x.num * y.num).natAbs ≤ A * B * (x.den * y.den)
  rw [Int.natAbs_mul]
  calc x.num.natAbs * y.num.natAbs ≤ (A * x.den) * (B * y.den) := Nat.mul_le_mul hx.2 hy.2
    _ = A * B * (x.den * y.den) := by
      rw [Nat.mul_assoc, Nat.mul_assoc, Nat.mul_left_comm x.den B]

/-- `x / y` for a positive `y` with `c·y ≥ 1`: `|x / y| ≤ c·|x|`. -/
theorem Bd.div {x y : Q} {A c : Nat} (hx : Bd x A) (hy : 0 < y.num)
    (hc : y.den ≤ c * y.num.toNat) : Bd (Q.div x y) (A * c) := by
  unfold Q.div
  rw [if_pos hy]
  apply Bd.norm
  have hyn : 0 < y.num.toNat := by omega
  refine ⟨Nat.mul_pos hx.1 hyn, ?_⟩
  show (x.num * (y.den : Int)).natAbs ≤ A * c * (x.den * y.num.toNat)
  rw [Int.natAbs_mul, Int.natAbs_natCast]
  calc x.num.natAbs * y.den ≤ (A * x.den) * (c * y.num.toNat) := Nat.mul_le_mul hx.2 hc
    _ = A * c * (x.den * y.num.toNat) := by
      rw [Nat.mul_assoc, Nat.mul_assoc, Nat.mul_left_comm x.den c]

/-- `x / c` for a positive integer `c`: a bound `k·c` on `x` gives `k`. -/
theorem Bd.div_int {x : Q} {k c : Nat} (hx : Bd x (k * c)) (hc : 0 < c) : Bd (Q.div x (Q.ofInt c)) k := by
  unfold Q.div Q.ofInt
  have : (0 : Int) < (c : Int) := by omega
  simp only [this, if_true]
  apply Bd.norm
  refine ⟨Nat.mul_pos hx.1 (by omega), ?_⟩
  show (x.num * ((1 : Nat) : Int)).natAbs ≤ k * (x.den * (c : Int).toNat)
  rw [Int.natAbs_mul, Int.natAbs_natCast, Int.toNat_natCast, Nat.mul_one]
  calc x.num.natAbs ≤ k * c * x.den := hx.2
    _ = k * (x.den * c) := by rw [Nat.mul_assoc, Nat.mul_comm c]

theorem Bd.ofInt {i : Int} {B : Nat} (h : i.natAbs ≤ B) : Bd (Q.ofInt i) B := by
  unfold Q.ofInt Bd
  simp only [Nat.mul_one]
  exact ⟨by omega, h⟩

theorem Bd.ofNat {n B : Nat} (h : n ≤ B) : Bd (Q.ofInt (n : Int)) B := Bd.ofInt (by simpa using h)

/-- `math.Round` does not leave an integer bound. -/
theorem Bd.roundAway {x : Q} {B : Nat} (h : Bd x B) : x.roundAway.natAbs ≤ B := by
  unfold Q.roundAway
  simp only []
  have hq : (2 * x.num.natAbs + x.den) / (2 * x.den) ≤ B := by
    have hlt : 2 * x.num.natAbs + x.den < (B + 1) * (2 * x.den) := by
      have := h.2
      have h1 := h.1
      calc 2 * x.num.natAbs + x.den ≤ 2 * (B * x.den) + x.den := by omega
        _ < (B + 1) * (2 * x.den) := by
          rw [Nat.add_mul, Nat.one_mul, Nat.mul_left_comm]
          omega
    have := (Nat.div_lt_iff_lt_mul (show 0 < 2 * x.den by have := h.1; omega)).mpr hlt
    omega
  split <;> simp only [Int.natAbs_neg, Int.natAbs_natCast] <;> exact hq

/-! ## rounded operations on bounded values -/

theorem add32 (F : FltFacts) {x y : Q} {A B : Nat} (hx : Bd x A) (hy : Bd y B) (hab : A + B ≤ 2 ^ 24) :
    ∃ v, add f32 x y = some v ∧ Bd v (A + B) := F.abs_le32 _ _ hab (hx.add hy)

theorem sub32 (F : FltFacts) {x y : Q} {A B : Nat} (hx : Bd x A) (hy : Bd y B) (hab : A + B ≤ 2 ^ 24) :
    ∃ v, sub f32 x y = some v ∧ Bd v (A + B) := F.abs_le32 _ _ hab (hx.sub hy)

theorem mul32 (F : FltFacts) {x y : Q} {A B : Nat} (hx : Bd x A) (hy : Bd y B) (hab : A * B ≤ 2 ^ 24) :
    ∃ v, mul f32 x y = some v ∧ Bd v (A * B) := F.abs_le32 _ _ hab (hx.mul hy)

theorem mul64 (F : FltFacts) {x y : Q} {A B : Nat} (hx : Bd x A) (hy : Bd y B) (hab : A * B ≤ 2 ^ 53) :
    ∃ v, mul f64 x y = some v ∧ Bd v (A * B) := F.abs_le64 _ _ hab (hx.mul hy)

/-- `if c { score += v }` -/
theorem addIf32 (F : FltFacts) {s v : Q} {A B : Nat} (c : Bool) (hs : Bd s A) (hv : Bd v B) (hab : A + B ≤ 2 ^ 24) :
    ∃ r, addIf c v s = some r ∧ Bd r (A + B) := by
  cases c
  · refine ⟨s, ?_, hs.mono (by omega)⟩
    unfold addIf
    exact if_neg (by decide)
  · obtain ⟨r, hr, hb⟩ := add32 F hs hv hab
    refine ⟨r, ?_, hb⟩
    unfold addIf
    rw [if_pos rfl]
    exact hr

theorem bd_q0 : Bd q0 0 := ⟨by decide, by decide⟩
theorem bd_q1 : Bd q1 1 := ⟨by decide, by decide⟩
theorem bd_qHalf : Bd qHalf 1 := ⟨by decide, by decide⟩

end Morlock.Proofs.Turochamp
