import Morlock.Proofs.GenCastle
/-!
# Stage E of C01: the pseudo-legal move list against the reference `pseudoMoves`
-/
namespace Morlock.Proofs.Gen
open Morlock Morlock.Model Morlock.Proofs.Attack

/-- A pseudo-legal move of `turn` with its metadata: the four kinds the generator emits. -/
def PseudoMove (b : Board) (castling ep : Nat) (turn : Color) (m : Move) : Prop :=
  (∃ pc ∈ Position.promoPieces, StepMove b turn pc m) ∨
  PawnMove b ep turn m ∨
  StepMove b turn .king m ∨
  (m.from = kingHomeSq turn ∧ CastleMove b castling turn m)

/-- The king part of the generator under `WF`. -/
theorem mem_genKing {p : Position} {b : Board} (h : Rep p b) {turn t : Color}
    (hw : WFb b p.castling p.enpassant t) (m : Move) :
    m ∈ genKing p turn ↔
      StepMove b turn .king m ∨ (m.from = kingHomeSq turn ∧ CastleMove b p.castling turn m) := by
  unfold genKing
  by_cases h0 : p.pieces turn .king = 0
  · rw [if_pos h0]
    have hno := (king_zero_iff h turn).mp h0
    simp only [List.not_mem_nil, false_iff]
    rintro (hs | ⟨_, hc⟩)
    · exact hno _ hs.1
    · exact hno _ (hc.kingHome hw)
  · rw [if_neg h0, List.mem_append, mem_genKingSteps h turn h0, mem_genCastles h]
    obtain ⟨hk, _⟩ := kingSquare_spec h turn h0
    constructor
    · rintro (⟨_, hs⟩ | ⟨hf, hc⟩)
      · exact Or.inl hs
      · exact Or.inr ⟨by rw [hf]; exact hw.king_unique _ _ _ hk (hc.kingHome hw), hc⟩
    · rintro (hs | ⟨hf, hc⟩)
      · exact Or.inl ⟨hw.king_unique _ _ _ hs.1 hk, hs⟩
      · exact Or.inr ⟨by rw [hf]; exact hw.king_unique _ _ _ (hc.kingHome hw) hk, hc⟩

/-- **Stage E (generator side).** Under `WF`, the generator's output is exactly the set of
    pseudo-legal moves with accurate metadata. -/
theorem mem_pseudoLegalMoves {p : Position} {b : Board} (h : Rep p b) {turn t : Color}
    (hw : WFb b p.castling p.enpassant t) (m : Move) :
    m ∈ p.pseudoLegalMoves turn ↔ PseudoMove b p.castling p.enpassant turn m := by
  rw [pseudoLegalMoves_eq, List.mem_append, List.mem_append, mem_genOfficers h, mem_genPawns h,
    mem_genKing h hw]
  unfold PseudoMove
  constructor
  · rintro ((h1 | h2) | h3)
    · exact Or.inl h1
    · exact Or.inr (Or.inl h2)
    · exact Or.inr (Or.inr h3)
  · rintro (h1 | h2 | h3)
    · exact Or.inl (Or.inl h1)
    · exact Or.inl (Or.inr h2)
    · exact Or.inr h3

/-- Generated castles are pseudo-legal moves of the reference. -/
theorem CastleMove.abs_mem_pseudoMoves {p : Position} {b : Board} (h : Rep p b) {turn t : Color}
    (hw : WFb b p.castling p.enpassant t) {m : Move} (hm : CastleMove b p.castling turn m)
    (hfr : m.from = kingHomeSq turn) : absMove m ∈ Spec.pseudoMoves (abs p turn) := by
  have hk : b m.from = some (turn, .king) := by rw [hfr]; exact hm.kingHome hw
  rw [mem_pseudoMoves]
  refine ⟨h.lt_of_some hk, ?_⟩
  have hat : (abs p turn).at (absMove m).from = some ((abs p turn).turn, .king) :=
    (h.abs_at_iff turn m.from turn .king).mpr hk
  rw [movesFrom_officer hat (by simp), List.mem_append]
  exact Or.inr (hm.abs_mem h hfr)

/-- Every pseudo-legal move with metadata abstracts to a reference pseudo-legal move. -/
theorem PseudoMove.abs_mem_pseudoMoves {p : Position} {b : Board} (h : Rep p b) {turn : Color}
    (hw : WFb b p.castling p.enpassant turn) {m : Move}
    (hm : PseudoMove b p.castling p.enpassant turn m) : absMove m ∈ Spec.pseudoMoves (abs p turn) := by
  rcases hm with ⟨pc, hpc, hs⟩ | hp | hs | ⟨hf, hc⟩
  · have hpw : pc ≠ .pawn := by
      rcases (mem_promoPieces pc).mp hpc with rfl | rfl | rfl | rfl <;> simp
    exact hs.abs_mem_pseudoMoves h hpw
  · exact hp.abs_mem_pseudoMoves h hw
  · exact hs.abs_mem_pseudoMoves h (by simp)
  · exact hc.abs_mem_pseudoMoves h hw hf

/-- Every reference pseudo-legal move is the abstraction of a pseudo-legal move with metadata. -/
theorem exists_pseudoMove {p : Position} {b : Board} (h : Rep p b) {turn : Color} {sm : Spec.SMove}
    (hsm : sm ∈ Spec.pseudoMoves (abs p turn)) :
    ∃ m, PseudoMove b p.castling p.enpassant turn m ∧ absMove m = sm := by
  rw [mem_pseudoMoves] at hsm
  obtain ⟨_, hsm⟩ := hsm
  obtain ⟨K, hat⟩ := at_of_mem_movesFrom hsm
  have hb : b sm.from = some (turn, kindPiece K) := (h.abs_at_iff turn sm.from turn K).mp hat
  by_cases hK : K = .pawn
  · subst hK
    rw [movesFrom_pawn hat] at hsm
    obtain ⟨m, hm, e⟩ := exists_pawnMove h hb hsm
    exact ⟨m, Or.inr (Or.inl hm), e⟩
  · rw [movesFrom_officer hat hK, List.mem_append] at hsm
    rcases hsm with hsm | hsm
    · have hsm' : sm ∈ officerNormal (abs p turn) (absColor turn) (kindOf (kindPiece K)) sm.from := by
        rw [kindOf_kindPiece]; exact hsm
      obtain ⟨m, hm, e⟩ := exists_stepMove_of_officerNormal h hb hsm'
      refine ⟨m, ?_, e⟩
      cases K
      · exact absurd rfl hK
      · exact Or.inl ⟨_, (mem_promoPieces _).mpr (Or.inr (Or.inr (Or.inr rfl))), hm⟩
      · exact Or.inl ⟨_, (mem_promoPieces _).mpr (Or.inr (Or.inr (Or.inl rfl))), hm⟩
      · exact Or.inl ⟨_, (mem_promoPieces _).mpr (Or.inr (Or.inl rfl)), hm⟩
      · exact Or.inl ⟨_, (mem_promoPieces _).mpr (Or.inl rfl), hm⟩
      · exact Or.inr (Or.inr (Or.inl hm))
    · obtain ⟨_, hfr, m, hf, hc, e⟩ := exists_castleMove h hsm
      exact ⟨m, Or.inr (Or.inr (Or.inr ⟨hf.trans hfr, hc⟩)), e⟩

/-- **Stage E `pseudo_iff`.** -/
theorem pseudo_iff_aux {p : Position} {b : Board} (h : Rep p b) {turn : Color}
    (hw : WFb b p.castling p.enpassant turn) (sm : Spec.SMove) :
    (∃ m, m ∈ p.pseudoLegalMoves turn ∧ absMove m = sm) ↔ sm ∈ Spec.pseudoMoves (abs p turn) := by
  constructor
  · rintro ⟨m, hm, rfl⟩
    exact ((mem_pseudoLegalMoves h hw m).mp hm).abs_mem_pseudoMoves h hw
  · intro hsm
    obtain ⟨m, hm, e⟩ := exists_pseudoMove h hsm
    exact ⟨m, (mem_pseudoLegalMoves h hw m).mpr hm, e⟩

end Morlock.Proofs.Gen
