import Morlock.Proofs.DrawWorld
/-!
# C05, arena level: the result written by `pushMove`, and the invariants under every operation

* `pushResult_spec` - the precedence chain of the draw conditions;
* `push_result` - the result of the board after `pushMove` in terms of the new world only;
* `push_line` / `pop_line` - how the line of the board operated on changes;
* `lineK_congr` and the `*_other` lemmas - no operation changes the line, the side to move or the
  repetition map of *another* board (operations only append nodes and rewrite `next`);
* `Reach` - worlds built from the empty world by the board operations; `reach_inv`: they are well-formed
  and `RepMapOK` holds for every board.
-/
namespace Morlock.Proofs.Draw
open Morlock Morlock.Model Morlock.Model.World Morlock.Proofs.Arena

/-! ## the precedence chain -/

/-- The result `pushMove` computes, as a precedence chain: material > clock > five-fold > three-fold. -/
theorem pushResult_spec (rep actual np : Int) (pos : Position) (m : Move) :
    pushResult rep actual np pos m =
      if (materialTrigger m && pos.hasInsufficientMaterial) = true then { outcome := .draw, reason := .insufficientMaterial }
      else if np ≥ 100 then { outcome := .draw, reason := .noProgress }
      else if rep ≥ 3 ∧ actual ≥ 5 then { outcome := .draw, reason := .repetition5 }
      else if rep ≥ 3 ∧ actual ≥ 3 then { outcome := .draw, reason := .repetition3 }
      else {} := by
  unfold pushResult materialTrigger
  have h3 : ((Gen.repetition3Limit : Nat) : Int) = 3 := rfl
  have h5 : ((Gen.repetition5Limit : Nat) : Int) = 5 := rfl
  have h100 : ((Gen.noprogressPlyLimit : Nat) : Int) = 100 := rfl
  simp only [h3, h5, h100]
  split
  · rfl
  · split
    · rfl
    · by_cases hr : rep ≥ 3
      · simp only [hr, if_true, true_and]
      · simp only [hr, if_false, false_and]

/-! ## the board that moves -/

theorem ipc_cur_view {w : World} (hw : WFWorld w) (b : Nat) (turn t0 : Color) (limit : Int) :
    w.identicalPositionCount (w.cur b) turn t0 limit =
      ipcList (view w b).hash (view w b).pos turn limit (view w b).past 1 t0 1 := by
  rw [ipc_eq hw _ _ _ _ (bound_cur_prev_le_size hw b)]
  simp only [view, ipcList_erase]

/-- **The result after a move**, in terms of the world after the move only: the hash counter of the new
node's hash, `identicalPositionCount` of the new node (side to move now, limit = the new clock), the new
clock, the new position and the move. -/
theorem push_result {w w' : World} {z : ZTable} {b : Nat} {m : Move} (hw : WFWorld w) (hb : b < w.boards.size)
    (h : w.pushMove z b m = some w') :
    (w'.board b).result =
      pushResult (repGet (w'.board b).repetitions (w'.cur b).hash)
        (w'.identicalPositionCount (w'.cur b) (w'.board b).turn (w'.board b).turn.opp (w'.cur b).noprogress)
        (w'.cur b).noprogress (w'.cur b).pos m := by
  have hw' := wf_push hw hb h
  have hv := push_view_some hw hb h
  rw [ipc_cur_view hw']
  exact vresult_push hv

/-- After a move: the line grows by the new node, the side changes, the clock is updated, the position is
`Position.move` of the old one, the hash is `ZTable.move` of the old one, the map counts the new hash once more. -/
theorem push_line {w w' : World} {z : ZTable} {b : Nat} {m : Move} (hw : WFWorld w) (hb : b < w.boards.size)
    (h : w.pushMove z b m = some w') :
    lineK w' b = key (w'.cur b) :: lineK w b ∧
    (w'.board b).turn = (w.board b).turn.opp ∧
    (w'.cur b).hash = z.move (w.cur b).hash (w.cur b).pos m ∧
    (w.cur b).pos.move m = some (w'.cur b).pos ∧
    (w'.cur b).noprogress = updateNoProgress (w.cur b).noprogress m ∧
    (∀ x, repGet (w'.board b).repetitions x =
      if x = (w'.cur b).hash then repGet (w.board b).repetitions (w'.cur b).hash + 1
      else repGet (w.board b).repetitions x) := by
  have hv := push_view_some hw hb h
  obtain ⟨h1, h2, h3, h4, h5, h6, _⟩ := vlineK_push hv
  rw [lineK_view, lineK_view]
  exact ⟨h1, h2, h3, h4, h5, h6⟩

theorem repMapOK_push {w w' : World} {z : ZTable} {b : Nat} {m : Move} (hw : WFWorld w) (hb : b < w.boards.size)
    (h : w.pushMove z b m = some w') (hr : RepMapOK w b) : RepMapOK w' b := by
  rw [repMapOK_view] at hr ⊢
  exact repMapOKV_push (push_view_some hw hb h) hr

theorem clockOK_push {w w' : World} {z : ZTable} {b : Nat} {m : Move} (hw : WFWorld w) (hb : b < w.boards.size)
    (h : w.pushMove z b m = some w') (hc : ClockOK w b) : ClockOK w' b := by
  rw [clockOK_view] at hc ⊢
  exact clockOKV_push (push_view_some hw hb h) hc

/-- Hash faithfulness survives a move as soon as the new node's hash is the from-scratch hash. -/
theorem hashFaithful_push {w w' : World} {z : ZTable} {b : Nat} {m : Move} (hw : WFWorld w) (hb : b < w.boards.size)
    (h : w.pushMove z b m = some w') (hf : HashFaithful z w b)
    (hnew : (w'.cur b).hash = z.hash (w'.cur b).pos (w'.board b).turn) : HashFaithful z w' b := by
  obtain ⟨hl, ht, _⟩ := push_line hw hb h
  intro e he
  rw [hl, sided_cons, ht, opp_opp] at he
  rcases List.mem_cons.mp he with rfl | he
  · rw [ht] at hnew; exact hnew
  · exact hf e he

/-! ## the board that is taken back -/

theorem pop_line {w w' : World} {b : Nat} {m : Move} (hw : WFWorld w) (hb : b < w.boards.size)
    (h : w.popMove b = some (w', m)) :
    lineK w b = key (w.cur b) :: lineK w' b ∧
    (w'.board b).turn = (w.board b).turn.opp ∧
    (∀ x, repGet (w'.board b).repetitions x =
      if x = (w.cur b).hash then repGet (w.board b).repetitions (w.cur b).hash - 1
      else repGet (w.board b).repetitions x) := by
  have hv := pop_view_some hw hb h
  obtain ⟨h1, h2, h3, _⟩ := vlineK_pop hv
  rw [lineK_view, lineK_view]
  exact ⟨h1, h2, h3⟩

theorem repMapOK_pop {w w' : World} {b : Nat} {m : Move} (hw : WFWorld w) (hb : b < w.boards.size)
    (h : w.popMove b = some (w', m)) (hr : RepMapOK w b) : RepMapOK w' b := by
  rw [repMapOK_view] at hr ⊢
  exact repMapOKV_pop (pop_view_some hw hb h) hr

theorem hashFaithful_pop {w w' : World} {z : ZTable} {b : Nat} {m : Move} (hw : WFWorld w) (hb : b < w.boards.size)
    (h : w.popMove b = some (w', m)) (hf : HashFaithful z w b) : HashFaithful z w' b := by
  rw [hashFaithful_view] at hf ⊢
  exact hashFaithfulV_pop (pop_view_some hw hb h) hf

theorem clockOK_pop {w w' : World} {b : Nat} {m : Move} (hw : WFWorld w) (hb : b < w.boards.size)
    (h : w.popMove b = some (w', m)) (hc : ClockOK w b) : ClockOK w' b := by
  rw [clockOK_view] at hc ⊢
  exact clockOKV_pop (pop_view_some hw hb h) hc

/-! ## other boards: nothing changes -/

/-- The line (links erased) of board `y` only depends on its `current` index and on position, hash, clock
and `prev` of the existing nodes. -/
theorem lineK_congr {w w' : World} {y : Nat} (hw : WFWorld w) (hy : y < w.boards.size)
    (hcur : (w'.board y).current = (w.board y).current)
    (hnode : ∀ j, j < w.nodes.size → key (w'.node j) = key (w.node j) ∧ (w'.node j).prev = (w.node j).prev) :
    lineK w' y = lineK w y := by
  have hc := hw.cur_lt y hy
  have hcn : key (w'.cur y) = key (w.cur y) ∧ (w'.cur y).prev = (w.cur y).prev := by
    unfold cur; rw [hcur]; exact hnode _ hc
  rw [lineK_head, lineK_head, hcn.1, hcn.2]
  congr 1
  have hlt : ∀ j ∈ ancIdx w (w.cur y).prev, j < w.nodes.size := by
    intro j hj
    have h1 := ancIdx_lt hw hj
    have h2 := bound_cur_prev_le_size hw y
    omega
  have hidx : ancIdx w' (w.cur y).prev = ancIdx w (w.cur y).prev := by
    show path w' _ _ = path w _ _
    apply path_congr
    intro j hj
    exact (hnode j (hlt j hj)).2
  unfold anc
  rw [hidx, List.map_map, List.map_map]
  apply List.map_congr_left
  intro j hj
  exact (hnode j (hlt j hj)).1

/-- What the draw logic of a board reads besides its line. -/
structure SameBoard (w w' : World) (y : Nat) : Prop where
  line : lineK w' y = lineK w y
  turn : (w'.board y).turn = (w.board y).turn
  reps : (w'.board y).repetitions = (w.board y).repetitions
  cur : key (w'.cur y) = key (w.cur y)

theorem SameBoard.of_line {w w' : World} {y : Nat} (hl : lineK w' y = lineK w y) (hb : w'.board y = w.board y) :
    SameBoard w w' y := by
  refine ⟨hl, by rw [hb], by rw [hb], ?_⟩
  rw [lineK_head, lineK_head] at hl
  exact (List.cons.inj hl).1

theorem SameBoard.repMapOK {w w' : World} {y : Nat} (h : SameBoard w w' y) (hr : RepMapOK w y) : RepMapOK w' y := by
  intro x
  rw [h.reps, h.line]
  exact hr x

theorem SameBoard.hashFaithful {z : ZTable} {w w' : World} {y : Nat} (h : SameBoard w w' y)
    (hf : HashFaithful z w y) : HashFaithful z w' y := by
  intro e he
  rw [h.turn, h.line] at he
  exact hf e he

theorem SameBoard.occurrences {w w' : World} {y : Nat} (h : SameBoard w w' y) : occurrences w' y = occurrences w y := by
  unfold Draw.occurrences
  have := congrArg Node.pos h.cur
  simp only [key_pos] at this
  rw [h.turn, h.line, this]

theorem push_other {w w' : World} {z : ZTable} {x y : Nat} {m : Move} (hw : WFWorld w) (hy : y < w.boards.size)
    (hxy : x ≠ y) (h : w.pushMove z x m = some w') : SameBoard w w' y := by
  have hbd := push_board_other h hxy
  refine SameBoard.of_line (lineK_congr hw hy (by rw [hbd]) ?_) hbd
  intro j hj
  obtain ⟨_, next, _, rfl⟩ := pushMove_some h
  rw [setBoard_node, pushArena_node_old _ _ _ _ hj]
  split <;> exact ⟨rfl, rfl⟩

theorem pop_other {w w' : World} {x y : Nat} {m : Move} (hw : WFWorld w) (hy : y < w.boards.size)
    (hxy : x ≠ y) (h : w.popMove x = some (w', m)) : SameBoard w w' y := by
  have hbd := pop_board_other h hxy
  refine SameBoard.of_line (lineK_congr hw hy (by rw [hbd]) ?_) hbd
  intro j _
  obtain ⟨pi, _, _, rfl⟩ := popMove_some h
  rw [setBoard_node, setNode_node]
  split
  · rename_i hc; rw [← hc.1]; exact ⟨rfl, rfl⟩
  · exact ⟨rfl, rfl⟩

theorem fork_other {w : World} (hw : WFWorld w) (b : Nat) {y : Nat} (hy : y < w.boards.size) :
    SameBoard w (w.fork b).1 y := by
  have hbd : (w.fork b).1.board y = w.board y := by rw [fork_board, if_neg (by omega)]
  refine SameBoard.of_line (lineK_congr hw hy (by rw [hbd]) ?_) hbd
  intro j hj
  rw [fork_node_old b hj]
  exact ⟨rfl, rfl⟩

theorem newBoard_other {w : World} (hw : WFWorld w) (z : ZTable) (pos : Position) (turn : Color) (np fm : Int)
    {y : Nat} (hy : y < w.boards.size) : SameBoard w (w.newBoard z pos turn np fm).1 y := by
  have hbd : (w.newBoard z pos turn np fm).1.board y = w.board y := by rw [newBoard_board, if_neg (by omega)]
  refine SameBoard.of_line (lineK_congr hw hy (by rw [hbd]) ?_) hbd
  intro j hj
  rw [newBoard_node, if_neg (by omega)]
  exact ⟨rfl, rfl⟩

theorem adjudicate_same {w : World} (hw : WFWorld w) (b : Nat) {y : Nat} (hy : y < w.boards.size) :
    SameBoard w (w.adjudicateNoLegalMoves b).1 y := by
  have hcur : ((w.adjudicateNoLegalMoves b).1.board y).current = (w.board y).current := by
    unfold adjudicateNoLegalMoves
    simp only [setBoard_board]
    split
    · rename_i hc; rw [hc.1]
    · rfl
  have hl : lineK (w.adjudicateNoLegalMoves b).1 y = lineK w y :=
    lineK_congr hw hy hcur (fun j _ => ⟨rfl, rfl⟩)
  refine ⟨hl, ?_, ?_, ?_⟩
  · unfold adjudicateNoLegalMoves
    simp only [setBoard_board]
    split
    · rename_i hc; rw [hc.1]
    · rfl
  · unfold adjudicateNoLegalMoves
    simp only [setBoard_board]
    split
    · rename_i hc; rw [hc.1]
    · rfl
  · rw [lineK_head, lineK_head] at hl
    exact (List.cons.inj hl).1

/-! ## new boards and forks -/

theorem newBoard_cur (w : World) (z : ZTable) (pos : Position) (turn : Color) (np fm : Int) :
    (w.newBoard z pos turn np fm).1.cur (w.newBoard z pos turn np fm).2 =
      { pos := pos, noprogress := np, hash := z.hash pos turn } ∧
    ((w.newBoard z pos turn np fm).1.board (w.newBoard z pos turn np fm).2).turn = turn ∧
    ((w.newBoard z pos turn np fm).1.board (w.newBoard z pos turn np fm).2).repetitions = [(z.hash pos turn, 1)] ∧
    ((w.newBoard z pos turn np fm).1.board (w.newBoard z pos turn np fm).2).result = {} := by
  have hid : (w.newBoard z pos turn np fm).2 = w.boards.size := rfl
  have hbd := newBoard_board w z pos turn np fm w.boards.size
  rw [if_pos rfl] at hbd
  refine ⟨?_, ?_, ?_, ?_⟩
  · unfold cur
    rw [hid, hbd, newBoard_node]
    simp
  · rw [hid, hbd]
  · rw [hid, hbd]
  · rw [hid, hbd]

/-- The line of a new board is its start node alone. -/
theorem newBoard_line (w : World) (z : ZTable) (pos : Position) (turn : Color) (np fm : Int) :
    lineK (w.newBoard z pos turn np fm).1 (w.newBoard z pos turn np fm).2 =
      [{ pos := pos, noprogress := np, hash := z.hash pos turn }] := by
  rw [lineK_head, (newBoard_cur w z pos turn np fm).1]
  rfl

theorem repMapOK_newBoard (w : World) (z : ZTable) (pos : Position) (turn : Color) (np fm : Int) :
    RepMapOK (w.newBoard z pos turn np fm).1 (w.newBoard z pos turn np fm).2 := by
  intro x
  rw [newBoard_line, (newBoard_cur w z pos turn np fm).2.2.1, repGet_cons, hashCount_cons]
  by_cases hx : z.hash pos turn = x
  · simp [hx, hashCount]
  · simp [hx, hashCount, repGet_nil]

theorem hashFaithful_newBoard (w : World) (z : ZTable) (pos : Position) (turn : Color) (np fm : Int) :
    HashFaithful z (w.newBoard z pos turn np fm).1 (w.newBoard z pos turn np fm).2 := by
  intro e he
  rw [newBoard_line, (newBoard_cur w z pos turn np fm).2.1] at he
  simp only [sided_cons, sided_nil, List.mem_singleton] at he
  subst he
  rfl

theorem clockOK_newBoard (w : World) (z : ZTable) (pos : Position) (turn : Color) (np fm : Int) :
    ClockOK (w.newBoard z pos turn np fm).1 (w.newBoard z pos turn np fm).2 := by
  unfold ClockOK
  rw [(newBoard_cur w z pos turn np fm).1]
  exact trivial

/-- A fork has the line, side and repetition map of the original. -/
theorem fork_same {w : World} (hw : WFWorld w) (b : Nat) :
    lineK (w.fork b).1 (w.fork b).2 = lineK w b ∧
    ((w.fork b).1.board (w.fork b).2).turn = (w.board b).turn ∧
    ((w.fork b).1.board (w.fork b).2).repetitions = (w.board b).repetitions ∧
    key ((w.fork b).1.cur (w.fork b).2) = key (w.cur b) := by
  have hv := view_fork_new hw b
  have hbd : (w.fork b).1.board (w.fork b).2 = { w.board b with current := w.nodes.size } := by
    rw [fork_board, fork_id, if_pos rfl]
  have hl : lineK (w.fork b).1 (w.fork b).2 = lineK w b := by rw [lineK_view, lineK_view, hv]
  refine ⟨hl, by rw [hbd], by rw [hbd], ?_⟩
  rw [lineK_head, lineK_head] at hl
  exact (List.cons.inj hl).1

theorem repMapOK_fork {w : World} (hw : WFWorld w) (b : Nat) (hr : RepMapOK w b) :
    RepMapOK (w.fork b).1 (w.fork b).2 := by
  rw [repMapOK_view] at hr ⊢
  rw [view_fork_new hw b]
  exact hr

theorem hashFaithful_fork {z : ZTable} {w : World} (hw : WFWorld w) (b : Nat) (hf : HashFaithful z w b) :
    HashFaithful z (w.fork b).1 (w.fork b).2 := by
  rw [hashFaithful_view] at hf ⊢
  rw [view_fork_new hw b]
  exact hf

theorem clockOK_fork {w : World} (hw : WFWorld w) (b : Nat) (hc : ClockOK w b) :
    ClockOK (w.fork b).1 (w.fork b).2 := by
  rw [clockOK_view] at hc ⊢
  rw [view_fork_new hw b]
  exact hc

/-! ## reachable worlds -/

/-- Worlds built from the empty world by the operations of `pkg/board` (any boards, any interleaving,
forks, take-backs below fork points, adjudications). -/
inductive Reach (z : ZTable) : World → Prop
  | empty : Reach z {}
  | newBoard {w : World} (pos : Position) (turn : Color) (np fm : Int) :
      Reach z w → Reach z (w.newBoard z pos turn np fm).1
  | fork {w : World} (b : Nat) : Reach z w → b < w.boards.size → Reach z (w.fork b).1
  | push {w w' : World} {b : Nat} {m : Move} :
      Reach z w → b < w.boards.size → w.pushMove z b m = some w' → Reach z w'
  | pop {w w' : World} {b : Nat} {m : Move} :
      Reach z w → b < w.boards.size → w.popMove b = some (w', m) → Reach z w'
  | adjudicate {w : World} (b : Nat) : Reach z w → b < w.boards.size → Reach z (w.adjudicateNoLegalMoves b).1

/-- **Invariant of all reachable worlds**: well-formed, and the repetition map of every board is exact. -/
theorem reach_inv {z : ZTable} {w : World} (h : Reach z w) :
    WFWorld w ∧ ∀ b, b < w.boards.size → RepMapOK w b := by
  induction h with
  | empty => exact ⟨wf_empty, fun b hb => by simp at hb⟩
  | @newBoard w pos turn np fm _ ih =>
    refine ⟨wf_newBoard ih.1 z pos turn np fm, ?_⟩
    intro y hy
    have hs : (w.newBoard z pos turn np fm).1.boards.size = w.boards.size + 1 := by simp [World.newBoard]
    rw [hs] at hy
    by_cases hyb : y = w.boards.size
    · subst hyb; exact repMapOK_newBoard w z pos turn np fm
    · exact (newBoard_other ih.1 z pos turn np fm (by omega)).repMapOK (ih.2 y (by omega))
  | @fork w b _ hb ih =>
    refine ⟨wf_fork ih.1 b, ?_⟩
    intro y hy
    rw [fork_boards_size] at hy
    by_cases hyb : y = w.boards.size
    · subst hyb; exact repMapOK_fork ih.1 b (ih.2 b hb)
    · exact (fork_other ih.1 b (by omega)).repMapOK (ih.2 y (by omega))
  | @push w w' b m _ hb hp ih =>
    refine ⟨wf_push ih.1 hb hp, ?_⟩
    intro y hy
    rw [boards_size_push hp] at hy
    by_cases hyb : b = y
    · subst hyb; exact repMapOK_push ih.1 hb hp (ih.2 b hb)
    · exact (push_other ih.1 hy hyb hp).repMapOK (ih.2 y hy)
  | @pop w w' b m _ hb hp ih =>
    refine ⟨wf_pop ih.1 hp, ?_⟩
    intro y hy
    rw [boards_size_pop hp] at hy
    by_cases hyb : b = y
    · subst hyb; exact repMapOK_pop ih.1 hb hp (ih.2 b hb)
    · exact (pop_other ih.1 hy hyb hp).repMapOK (ih.2 y hy)
  | @adjudicate w b _ hb ih =>
    refine ⟨wf_adjudicate ih.1 b hb, ?_⟩
    intro y hy
    have hs : (w.adjudicateNoLegalMoves b).1.boards.size = w.boards.size := by
      simp [World.adjudicateNoLegalMoves]
    rw [hs] at hy
    exact (adjudicate_same ih.1 b hy).repMapOK (ih.2 y hy)

end Morlock.Proofs.Draw
