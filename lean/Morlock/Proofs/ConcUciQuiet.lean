import Morlock.Proofs.ConcUciEng
/-!
# UCI driver model: what a quiescent state (no thread can step) looks like
-/
namespace Morlock.Proofs.ConcUci
open Morlock.Model.UciConc

theorem set_getElem?_eq {α : Type} {l : List α} {i : Nat} {a b : α} (h : l[i]? = some a) (he : l.set i b = l) :
    b = a := by
  have hlt : i < l.length := (List.getElem?_eq_some_iff.1 h).1
  have : (l.set i b)[i]? = some b := List.getElem?_set_self hlt
  rw [he, h] at this
  exact (Option.some.inj this).symm

/-- in a quiescent state every searcher has exited -/
theorem quiet_searches {s : State} (hq : Quiescent s) (j : Nat) (x : Search) (hj : s.srch[j]? = some x) :
    x.done = true := by
  have h := hq (.searchIter j)
  simp only [step, stepWith, stepIter, hj] at h
  cases hd : x.done with
  | true => rfl
  | false =>
    simp only [hd] at h
    have h2 := congrArg State.srch h
    have h3 := set_getElem?_eq hj h2
    have h4 := congrArg Search.latest h3
    simp only at h4
    omega

theorem searchAt_of_lt {s : State} {j : Nat} (h : j < s.srch.length) : s.srch[j]? = some (searchAt s j) := by
  unfold searchAt
  rw [List.getD_eq_getElem?_getD, List.getElem?_eq_getElem h]; rfl

/-- in a quiescent state every forwarder has finished -/
theorem quiet_fwds {s : State} (hq : Quiescent s) (he : EngInv s) (f : Fwd) (hf : f ∈ s.fwds) :
    f.pc = .finished := by
  obtain ⟨j, hj⟩ := List.mem_iff_getElem?.1 hf
  have h := hq (.fwd j)
  have hdone : (searchAt s f.sidx).done = true :=
    quiet_searches hq f.sidx _ (searchAt_of_lt (he.fidx f hf))
  simp only [step, stepWith, stepFwd, hj] at h
  have key : ∀ (s' : State) (f' : Fwd), s'.fwds = s.fwds.set j f' → s' = s → f'.pc = f.pc := by
    intro s' f' h1 h2
    have h3 : s.fwds.set j f' = s.fwds := by rw [← h1, h2]
    rw [set_getElem?_eq hj h3]
  cases hpc : f.pc with
  | finished => rfl
  | recv =>
    simp only [hpc] at h
    split at h
    · have := key _ _ rfl h; simp [hpc] at this
    · rw [if_pos hdone] at h
      have := key _ _ rfl h
      simp only [hpc] at this
      split at this <;> cases this
  | pond pv => simp only [hpc] at h; have := key _ _ rfl h; simp [hpc] at this
  | complete =>
    simp only [hpc] at h
    split at h
    · have := key _ _ rfl h; simp only [hpc] at this; split at this <;> cases this
    · have := key _ _ rfl h; simp [hpc] at this
  | sendInfo => simp only [hpc] at h; have := key _ _ rfl h; simp [hpc] at this
  | sendBest => simp only [hpc] at h; have := key _ _ rfl h; simp [hpc] at this
  | wgDone => simp only [hpc] at h; have := key _ _ rfl h; simp [hpc] at this

theorem afterHalt_ne (k : HaltK) (res : Option Nat) : afterHalt .repaired k res ≠ .haltUnlock k res := by
  cases k with
  | ensure a => cases a <;> simp [afterHalt, Cfg.repaired]
  | stop i => cases res <;> simp [afterHalt]

/-- in a quiescent state the loop has returned or is blocked in `select` with nothing to receive -/
theorem quiet_loop {s : State} (hq : Quiescent s) (he : EngInv s) (hc : CloseInv s) (hs : SrchInv s) :
    s.loop = .finished ∨ (s.loop = .select ∧ s.cmds = [] ∧ s.ponder = [] ∧ s.timeouts = none) := by
  have hmu : s.emu = s.loop.holdsMu := he.emuOk
  have hwg : s.wg = 0 := by
    rw [hc.wg, List.countP_eq_zero]
    intro f hf; rw [quiet_fwds hq he f hf]; simp
  have key : ∀ c (s' : State), step s (.loop c) = s' → s'.loop = s.loop := by
    intro c s' h; rw [← h, hq]
  cases hpc : s.loop with
  | finished => exact .inl rfl
  | select =>
    refine .inr ⟨rfl, ?_, ?_, ?_⟩
    · cases hcm : s.cmds with
      | nil => rfl
      | cons cmd rest =>
        have h := congrArg State.cmds (hq (.loop .cmd))
        simp [step, stepWith, stepLoop, hpc, hcm] at h
    · cases hp : s.ponder with
      | nil => rfl
      | cons pv rest =>
        have h := key .ponder _ rfl
        simp [step, stepWith, stepLoop, hpc, hp] at h
    · cases ht : s.timeouts with
      | none => rfl
      | some id =>
        have h := key .timeout _ rfl
        simp [step, stepWith, stepLoop, hpc, ht] at h
  | haltLock k =>
    have h := key .cmd _ rfl
    have hm : s.emu = false := by rw [hmu, hpc]; rfl
    simp only [step, stepWith, stepLoop, hpc, hm, Bool.false_eq_true, if_false] at h
    split at h <;> simp at h
  | haltAwait k j =>
    have h := key .cmd _ rfl
    have hj : j < s.srch.length := he.eidx j (he.sidxOk j (by rw [hpc]; rfl))
    have hd := quiet_searches hq j _ (searchAt_of_lt hj)
    have hi := srchInv_at hs j hd
    simp [step, stepWith, stepLoop, hpc, hi] at h
  | analyze g id =>
    have h := key .cmd _ rfl
    have hm : s.emu = false := by rw [hmu, hpc]; rfl
    simp only [step, stepWith, stepLoop, hpc, hm, Bool.false_eq_true, if_false] at h
    split at h <;> simp at h
  | waitFwd =>
    have h := key .cmd _ rfl
    simp [step, stepWith, stepLoop, hpc, hwg] at h
  | haltUnlock k res =>
    have h := key .cmd _ rfl
    simp only [step, stepWith, stepLoop, hpc] at h
    exact absurd h (afterHalt_ne k res)
  | goStart g =>
    have h := key .cmd _ rfl
    simp only [step, stepWith, stepLoop, hpc] at h
    split at h <;> simp at h
  | goSpawn g id j =>
    have h := key .cmd _ rfl
    simp only [step, stepWith, stepLoop, hpc] at h
    split at h <;> simp at h
  | stopChk id =>
    have h := key .cmd _ rfl
    simp only [step, stepWith, stepLoop, hpc] at h
    split at h
    · simp at h
    · split at h <;> simp at h
  | complete id pv =>
    have h := key .cmd _ rfl
    simp only [step, stepWith, stepLoop, hpc] at h
    split at h
    · split at h <;> simp at h
    · simp at h
  | ponderChk pv =>
    have h := key .cmd _ rfl
    simp only [step, stepWith, stepLoop, hpc] at h
    split at h <;> simp at h
  | _ =>
    have h := key .cmd _ rfl
    simp [step, stepWith, stepLoop, hpc] at h

/-- in a quiescent state with the loop alive, every timer has fired and its token was consumed -/
theorem quiet_timers {s : State} (hq : Quiescent s) (ht : s.timeouts = none) (t : Timer) (hm : t ∈ s.timers) :
    t.fired = true := by
  obtain ⟨j, hj⟩ := List.mem_iff_getElem?.1 hm
  have h := hq (.timerSend j)
  simp only [step, stepWith, stepTimerSend, hj] at h
  cases hf : t.fired with
  | true => rfl
  | false =>
    simp [hf, ht] at h
    have h2 := congrArg State.timeouts h
    simp [ht] at h2

end Morlock.Proofs.ConcUci
