import Morlock.Model.Flt
/-!
# Powers of two with integer exponents as pairs of naturals, and `roundHalfEven`

`2^e = pn e / pd e` (one of the two is `1`).  All comparisons of `X / Y` with `2^e` are stated by cross-multiplication:
`X * pd e < Y * pn e`  means  `X / Y < 2^e`.
-/
namespace Morlock.Model.Flt

/-- numerator of `2^e` -/
def pn (e : Int) : Nat := 2 ^ e.toNat
/-- denominator of `2^e` -/
def pd (e : Int) : Nat := 2 ^ (-e).toNat

theorem pn_pos (e : Int) : 0 < pn e := Nat.two_pow_pos _
theorem pd_pos (e : Int) : 0 < pd e := Nat.two_pow_pos _

theorem pd_of_nonneg {e : Int} (h : 0 ≤ e) : pd e = 1 := by
  unfold pd; have : (-e).toNat = 0 := by omega
  simp [this]
theorem pn_of_nonpos {e : Int} (h : e ≤ 0) : pn e = 1 := by
  unfold pn; have : e.toNat = 0 := by omega
  simp [this]

theorem scaled_eq (a b : Nat) (e : Int) : scaled a b e = (a * pd e, b * pn e) := by
  unfold scaled
  split
  · rename_i h; simp [pd_of_nonneg h, pn]
  · rename_i h; simp [pn_of_nonpos (by omega : e ≤ 0), pd]

/-- `2^(e+k) = 2^k * 2^e` -/
theorem pn_pd_shift (e : Int) (k : Nat) : pn (e + k) * pd e = 2 ^ k * pn e * pd (e + k) := by
  unfold pn pd
  rw [← Nat.pow_add, ← Nat.pow_add, ← Nat.pow_add]
  congr 1; omega

/-- `X / Y < 2^k * 2^e ↔ X / Y < 2^(e+k)` -/
theorem lt_shift (X Y : Nat) (e : Int) (k : Nat) :
    X * pd e < 2 ^ k * Y * pn e ↔ X * pd (e + k) < Y * pn (e + k) := by
  have hs := pn_pd_shift e k
  have h1 : X * pd e * pd (e + k) < 2 ^ k * Y * pn e * pd (e + k) ↔ X * pd e < 2 ^ k * Y * pn e :=
    Nat.mul_lt_mul_right (pd_pos _)
  have h2 : X * pd (e + k) * pd e < Y * pn (e + k) * pd e ↔ X * pd (e + k) < Y * pn (e + k) :=
    Nat.mul_lt_mul_right (pd_pos _)
  rw [← h1, ← h2]
  have e1 : X * pd e * pd (e + k) = X * pd (e + k) * pd e := by grind
  have e2 : 2 ^ k * Y * pn e * pd (e + k) = Y * pn (e + k) * pd e := by grind
  rw [e1, e2]

theorem le_shift (X Y : Nat) (e : Int) (k : Nat) :
    X * pd e ≤ 2 ^ k * Y * pn e ↔ X * pd (e + k) ≤ Y * pn (e + k) := by
  have hs := pn_pd_shift e k
  have h1 : X * pd e * pd (e + k) ≤ 2 ^ k * Y * pn e * pd (e + k) ↔ X * pd e ≤ 2 ^ k * Y * pn e :=
    Nat.mul_le_mul_right_iff (pd_pos _)
  have h2 : X * pd (e + k) * pd e ≤ Y * pn (e + k) * pd e ↔ X * pd (e + k) ≤ Y * pn (e + k) :=
    Nat.mul_le_mul_right_iff (pd_pos _)
  rw [← h1, ← h2]
  have e1 : X * pd e * pd (e + k) = X * pd (e + k) * pd e := by grind
  have e2 : 2 ^ k * Y * pn e * pd (e + k) = Y * pn (e + k) * pd e := by grind
  rw [e1, e2]

theorem eq_shift (X Y : Nat) (e : Int) (k : Nat) :
    X * pd e = 2 ^ k * Y * pn e ↔ X * pd (e + k) = Y * pn (e + k) := by
  have h1 := le_shift X Y e k
  have h2 := lt_shift X Y e k
  constructor <;> intro h <;> omega

/-- an upper bound `X / Y < 2^e` persists for larger exponents -/
theorem lt_mono_exp {X Y : Nat} {e e' : Int} (hee : e ≤ e') (h : X * pd e < Y * pn e) :
    X * pd e' < Y * pn e' := by
  obtain ⟨k, rfl⟩ : ∃ k : Nat, e' = e + k := ⟨(e' - e).toNat, by omega⟩
  rw [← lt_shift]
  have : 1 ≤ 2 ^ k := Nat.two_pow_pos k
  calc X * pd e < Y * pn e := h
    _ = 1 * (Y * pn e) := by simp
    _ ≤ 2 ^ k * (Y * pn e) := Nat.mul_le_mul_right _ this
    _ = 2 ^ k * Y * pn e := by grind

theorem le_mono_exp {X Y : Nat} {e e' : Int} (hee : e ≤ e') (h : X * pd e ≤ Y * pn e) :
    X * pd e' ≤ Y * pn e' := by
  obtain ⟨k, rfl⟩ : ∃ k : Nat, e' = e + k := ⟨(e' - e).toNat, by omega⟩
  rw [← le_shift]
  have : 1 ≤ 2 ^ k := Nat.two_pow_pos k
  calc X * pd e ≤ Y * pn e := h
    _ = 1 * (Y * pn e) := by simp
    _ ≤ 2 ^ k * (Y * pn e) := Nat.mul_le_mul_right _ this
    _ = 2 ^ k * Y * pn e := by grind

/-- a lower bound `2^e' ≤ X / Y` persists for smaller exponents -/
theorem ge_mono_exp {X Y : Nat} {e e' : Int} (hee : e ≤ e') (h : Y * pn e' ≤ X * pd e') :
    Y * pn e ≤ X * pd e := by
  apply Nat.le_of_not_lt
  intro hlt
  exact absurd (lt_mono_exp hee hlt) (Nat.not_lt.mpr h)

theorem gt_mono_exp {X Y : Nat} {e e' : Int} (hee : e ≤ e') (h : Y * pn e' < X * pd e') :
    Y * pn e < X * pd e := by
  apply Nat.lt_of_not_le
  intro hle
  exact absurd (le_mono_exp hee hle) (Nat.not_le.mpr h)

/-- comparison of ratios transfers a strict upper bound: `a/b ≤ a'/b'`, `a'/b' < C·2^e` ⟹ `a/b < C·2^e` -/
theorem lt_of_ratio_le {a b a' b' C : Nat} {e : Int} (hb : 0 < b) (hr : a * b' ≤ a' * b)
    (h : a' * pd e < C * b' * pn e) : a * pd e < C * b * pn e := by
  have hb' : 0 < b' := by
    rcases Nat.eq_zero_or_pos b' with h0 | h0
    · subst h0; simp at h
    · exact h0
  have h1 : a' * pd e * b < C * b' * pn e * b := (Nat.mul_lt_mul_right hb).mpr h
  have h2 : a * b' * pd e ≤ a' * b * pd e := Nat.mul_le_mul_right _ hr
  have h3 : a * pd e * b' < C * b * pn e * b' := by
    calc a * pd e * b' = a * b' * pd e := by grind
      _ ≤ a' * b * pd e := h2
      _ = a' * pd e * b := by grind
      _ < C * b' * pn e * b := h1
      _ = C * b * pn e * b' := by grind
  exact Nat.lt_of_mul_lt_mul_right h3

/-- `a/b ≤ a'/b'`, `C·2^e ≤ a/b` ⟹ `C·2^e ≤ a'/b'` -/
theorem ge_of_ratio_le {a b a' b' C : Nat} {e : Int} (hb : 0 < b) (hr : a * b' ≤ a' * b)
    (h : C * b * pn e ≤ a * pd e) : C * b' * pn e ≤ a' * pd e := by
  apply Nat.le_of_not_lt
  intro hlt
  exact absurd (lt_of_ratio_le hb hr hlt) (Nat.not_lt.mpr h)

end Morlock.Model.Flt
