import Morlock.Proofs.DrawSync
/-!
# C05 / C14: lock-step with the reference game under take-backs, forks and operations on other boards

`Sync z g w b` (`DrawSync.lean`) ties the clock of the reference game `g` to the clock of the *current* node
only. That is not enough to survive a take-back: after a clock-resetting move both clocks are `0` whatever the
clocks were before, so `Sync` alone does not determine the clock of the shorter game (`sync_pop` therefore
takes the clock of the shorter game as a hypothesis). `SyncAll` closes the gap: the clocks agree at *every*
node of the line (`ClockLine`), and the moves of `g` are exactly the moves stored on the line (`lineMoves`).
`SyncAll` is established by `newBoard`, preserved by fully sound moves, by take-backs, by `fork` (on both
boards) and by every operation that leaves the `view` of the board alone. `SyncFen`: the full-move number.
-/
namespace Morlock.Proofs.Draw
open Morlock Morlock.Model Morlock.Model.World Morlock.Proofs Morlock.Proofs.Arena Morlock.Proofs.Material

/-! ## the reference game without its last move -/

/-- The game without its last move. -/
def gpop (g : Spec.Game) : Spec.Game := { g with moves := g.moves.dropLast }

@[simp] theorem gpop_start (g : Spec.Game) : (gpop g).start = g.start := rfl
@[simp] theorem gpop_moves (g : Spec.Game) : (gpop g).moves = g.moves.dropLast := rfl

theorem gpop_gsnoc (g : Spec.Game) (m : Spec.SMove) : gpop (gsnoc g m) = g := by
  unfold gpop gsnoc
  simp

/-- A game with at least one move is the shorter game continued by its last move. -/
theorem gsnoc_gpop (g : Spec.Game) (h : g.moves ≠ []) : g = gsnoc (gpop g) (g.moves.getLast h) := by
  unfold gpop gsnoc
  simp only [List.dropLast_concat_getLast]

theorem positions_length (g : Spec.Game) : g.positions.length = g.moves.length + 1 := by
  unfold Spec.Game.positions
  have : ∀ (ms : List Spec.SMove) (acc : List Spec.Pos),
      (ms.foldl (fun (acc : List Spec.Pos) m => acc ++ [Spec.apply (acc.getLastD g.start.pos) m]) acc).length =
        acc.length + ms.length := by
    intro ms
    induction ms with
    | nil => intro acc; rfl
    | cons m r ih =>
      intro acc
      simp only [List.foldl_cons]
      rw [ih]
      simp
      omega
  rw [this]
  simp
  omega

theorem positions_head (g : Spec.Game) : g.positions.head? = some g.start.pos := by
  unfold Spec.Game.positions
  have : ∀ (ms : List Spec.SMove) (acc : List Spec.Pos), acc ≠ [] →
      (ms.foldl (fun (acc : List Spec.Pos) m => acc ++ [Spec.apply (acc.getLastD g.start.pos) m]) acc).head? =
        acc.head? := by
    intro ms
    induction ms with
    | nil => intro acc _; rfl
    | cons m r ih =>
      intro acc hne
      simp only [List.foldl_cons]
      rw [ih _ (by simp)]
      cases acc with
      | nil => exact absurd rfl hne
      | cons a t => rfl
  exact this g.moves [g.start.pos] (by simp)

theorem fullmove_snoc (g : Spec.Game) (m : Spec.SMove) :
    (gsnoc g m).fullmove = if g.current.turn = .black then g.fullmove + 1 else g.fullmove := by
  unfold Spec.Game.fullmove
  simp only [gsnoc_moves, gsnoc_start, List.foldl_append, List.foldl_cons, List.foldl_nil]
  rw [fold_fst (fun p h _ => if p.turn = .black then h + 1 else h), ← current_eq_foldl]

theorem abs_turn_black (p : Position) (t : Color) : (abs p t).turn = .black ↔ t = .black := by
  cases t <;> simp [abs, absColor]

/-! ## everything `Sync` reads is in the `view` -/

theorem goodHistory_of_view {z : ZTable} {w w' : World} {a a' : Nat} (hv : view w' a' = view w a)
    (hg : GoodHistory z w a) : GoodHistory z w' a' := by
  refine ⟨?_, ?_, ?_, ?_, ?_⟩
  · rw [repMapOK_view, hv, ← repMapOK_view]; exact hg.reps
  · rw [hashFaithful_view, hv, ← hashFaithful_view]; exact hg.hash
  · rw [clockOK_view, hv, ← clockOK_view]; exact hg.clock
  · rw [rootClockOK_view, hv, ← rootClockOK_view]; exact hg.root
  · rw [goodLine_view, hv, ← goodLine_view]; exact hg.line

theorem lineK_of_view {w w' : World} {a a' : Nat} (hv : view w' a' = view w a) : lineK w' a' = lineK w a := by
  rw [lineK_view, hv, ← lineK_view]

theorem turn_of_view {w w' : World} {a a' : Nat} (hv : view w' a' = view w a) :
    (w'.board a').turn = (w.board a).turn := congrArg View.turn hv

theorem clock_of_view {w w' : World} {a a' : Nat} (hv : view w' a' = view w a) :
    (w'.cur a').noprogress = (w.cur a).noprogress := congrArg View.noprogress hv

/-- **`Sync` only depends on the view of the board**: any operation (on whatever board) that leaves the view
of board `a` alone keeps `a` in lock-step with the same reference game. -/
theorem sync_of_view {z : ZTable} {g : Spec.Game} {w w' : World} {a a' : Nat} (hv : view w' a' = view w a)
    (hs : Sync z g w a) : Sync z g w' a' := by
  refine ⟨goodHistory_of_view hv hs.hist, ?_, ?_, ?_⟩
  · rw [lineK_of_view hv]; exact hs.posOK
  · rw [lineK_of_view hv, turn_of_view hv]; exact hs.positions
  · rw [clock_of_view hv]; exact hs.clock

/-! ## take-back -/

theorem lineK_length_pos (w : World) (b : Nat) : 1 ≤ (lineK w b).length := by
  rw [lineK_head]; simp

/-- In lock-step, the game has as many moves as the line has strict ancestors. -/
theorem Sync.moves_length {z : ZTable} {g : Spec.Game} {w : World} {b : Nat} (h : Sync z g w b) :
    g.moves.length + 1 = (lineK w b).length := by
  have := congrArg List.length h.positions
  rw [List.length_reverse, positions_length, List.length_map, sided_length] at this
  exact this

/-- The start position of the reference game is the abstraction of the oldest node of the line. -/
theorem Sync.start {z : ZTable} {g : Spec.Game} {w : World} {b : Nat} (h : Sync z g w b) :
    ((sided (w.board b).turn (lineK w b)).getLast?.map fun e => abs e.1.pos e.2) = some g.start.pos := by
  rw [← List.getLast?_map, ← h.positions, List.getLast?_reverse]
  exact positions_head g

/-- **sync_pop.** A take-back keeps the board in lock-step with the game without its last move — positions,
repetition data and history are derived; the one thing `Sync` does not know is the clock of the shorter game
(after a clock-resetting move both clocks are `0` whatever they were before), which is therefore a hypothesis
here. `SyncAll` below carries the clocks of all prefixes and needs no such hypothesis. -/
theorem sync_pop {z : ZTable} {g : Spec.Game} {w w' : World} {b : Nat} {m : Move}
    (hw : WFWorld w) (hb : b < w.boards.size) (h : w.popMove b = some (w', m)) (hs : Sync z g w b)
    (hclk : ((gpop g).halfmove : Int) = (w'.cur b).noprogress) :
    Sync z (gpop g) w' b := by
  obtain ⟨hl, ht, _⟩ := pop_line hw hb h
  have hne : g.moves ≠ [] := by
    have h1 := hs.moves_length
    have h2 := lineK_length_pos w' b
    rw [hl, List.length_cons] at h1
    intro hnil
    rw [hnil, List.length_nil] at h1
    omega
  refine ⟨goodHistory_pop hw hb h hs.hist, ?_, ?_, hclk⟩
  · intro n hn
    apply hs.posOK n
    rw [hl]
    exact List.mem_cons_of_mem _ hn
  · have hp := hs.positions
    rw [gsnoc_gpop g hne, positions_snoc, List.reverse_append, hl, sided_cons, ← ht] at hp
    simp only [List.reverse_cons, List.reverse_nil, List.nil_append, List.singleton_append, List.map_cons] at hp
    exact (List.cons.inj hp).2

/-- `Sync` reads the reference game through its positions and its current clock only: a game with the same start
position, the same moves and the same current clock (the set-up clock may differ when a resetting move has
been played) is in lock-step too. -/
theorem sync_congr {z : ZTable} {g g' : Spec.Game} {w : World} {b : Nat} (hs : Sync z g w b)
    (hstart : g'.start.pos = g.start.pos) (hmoves : g'.moves = g.moves) (hclk : g'.halfmove = g.halfmove) :
    Sync z g' w b := by
  have hpos : g'.positions = g.positions := by
    unfold Spec.Game.positions
    rw [hstart, hmoves]
  exact ⟨hs.hist, hs.posOK, by rw [hpos]; exact hs.positions, by rw [hclk]; exact hs.clock⟩

/-! ## the clocks of all prefixes -/

/-- `ClockLine s ms l`: along the line `l` (current node first) the clock of every node is the half-move clock
of the reference game with start `s` and the corresponding prefix of the moves (`ms` = the moves, latest first). -/
def ClockLine (s : Spec.FenGame) : List Spec.SMove → List Node → Prop
  | _, [] => True
  | ms, n :: r =>
    ((({ start := s, moves := ms.reverse } : Spec.Game).halfmove : Nat) : Int) = n.noprogress ∧ ClockLine s ms.tail r

/-- The moves stored on the line of board `b` (the `next` fields of the strict ancestors), oldest first, as
reference moves. -/
def lineMoves (w : World) (b : Nat) : List Spec.SMove :=
  ((view w b).past.map fun n => absMove n.next).reverse

theorem lineMoves_eq (w : World) (b : Nat) :
    lineMoves w b = ((anc w (w.cur b).prev).map fun n => absMove n.next).reverse := by
  unfold lineMoves view
  simp only [List.map_map]
  rfl

/-- Lock-step at every node of the line: `Sync`, the clocks of all prefixes of the game are the clocks of the
nodes of the line, and the moves of the game are exactly the moves stored on the line. -/
structure SyncAll (z : ZTable) (g : Spec.Game) (w : World) (b : Nat) : Prop where
  sync : Sync z g w b
  clocks : ClockLine g.start g.moves.reverse (lineK w b)
  moves : g.moves = lineMoves w b

/-- The set-up clock of the reference game is the clock of the oldest node of the line. -/
theorem clockLine_root (s : Spec.FenGame) : ∀ (l : List Node) (ms : List Spec.SMove), ClockLine s ms l →
    l.length = ms.length + 1 → (l.getLast?.map fun n => n.noprogress) = some (s.halfmove : Int)
  | [], _, _, hlen => by simp at hlen
  | [n], ms, h, hlen => by
    have : ms = [] := by
      cases ms with
      | nil => rfl
      | cons _ _ => simp at hlen
    subst this
    simp only [List.getLast?_singleton, Option.map_some, Option.some.injEq]
    exact h.1.symm
  | n :: n' :: r, ms, h, hlen => by
    rw [List.getLast?_cons_cons]
    apply clockLine_root s (n' :: r) ms.tail h.2
    cases ms with
    | nil => simp at hlen
    | cons _ t => simpa using hlen

theorem SyncAll.root_clock {z : ZTable} {g : Spec.Game} {w : World} {b : Nat} (h : SyncAll z g w b) :
    ((lineK w b).getLast?.map fun n => n.noprogress) = some (g.start.halfmove : Int) := by
  apply clockLine_root g.start _ _ h.clocks
  rw [List.length_reverse]
  exact h.sync.moves_length.symm

theorem syncAll_of_view {z : ZTable} {g : Spec.Game} {w w' : World} {a a' : Nat} (hv : view w' a' = view w a)
    (hs : SyncAll z g w a) : SyncAll z g w' a' := by
  refine ⟨sync_of_view hv hs.sync, ?_, ?_⟩
  · rw [lineK_of_view hv]; exact hs.clocks
  · unfold lineMoves; rw [hv]; exact hs.moves

theorem syncAll_newBoard (w : World) (z : ZTable) {pos : Position} (turn : Color) (n0 f : Nat) (fm : Int)
    (hpos : PosOK pos) :
    SyncAll z { start := { pos := abs pos turn, halfmove := n0, fullmove := f }, moves := [] }
      (w.newBoard z pos turn (n0 : Int) fm).1 (w.newBoard z pos turn (n0 : Int) fm).2 := by
  refine ⟨sync_newBoard w z turn n0 f fm hpos, ?_, ?_⟩
  · rw [newBoard_line]
    exact ⟨rfl, trivial⟩
  · unfold lineMoves view
    rw [(newBoard_cur w z pos turn n0 fm).1]
    rfl

/-- **Lock-step at every node is preserved by a fully sound move.** -/
theorem syncAll_push {z : ZTable} {g : Spec.Game} {w w' : World} {b : Nat} {m : Move} (hz : z.enpassant 0 = 0)
    (hw : WFWorld w) (hb : b < w.boards.size) (h : w.pushMove z b m = some w') (hs : SyncAll z g w b)
    (hstep : FullStep (w.cur b).pos (w.board b).turn m (w'.cur b).pos) :
    SyncAll z (gsnoc g (absMove m)) w' b := by
  have hs' := sync_push hz hw hb h hs.sync hstep
  obtain ⟨hl, _⟩ := push_line hw hb h
  obtain ⟨_, _, _, _, _, _, hpast⟩ := vlineK_push (push_view_some hw hb h)
  refine ⟨hs', ?_, ?_⟩
  · rw [hl]
    have hrev : (gsnoc g (absMove m)).moves.reverse = absMove m :: g.moves.reverse := by simp
    rw [hrev]
    refine ⟨?_, hs.clocks⟩
    have hg : ({ start := (gsnoc g (absMove m)).start, moves := (absMove m :: g.moves.reverse).reverse } : Spec.Game)
        = gsnoc g (absMove m) := by
      unfold gsnoc; simp
    rw [hg]
    exact hs'.clock
  · unfold lineMoves
    rw [hpast, gsnoc_moves, hs.moves]
    unfold lineMoves
    simp

/-- **Lock-step at every node is preserved by a take-back** (no side condition beyond well-formedness: also
when the node returned to is shared with other boards). -/
theorem syncAll_pop {z : ZTable} {g : Spec.Game} {w w' : World} {b : Nat} {m : Move}
    (hw : WFWorld w) (hb : b < w.boards.size) (h : w.popMove b = some (w', m)) (hs : SyncAll z g w b) :
    SyncAll z (gpop g) w' b ∧ g = gsnoc (gpop g) (absMove m) := by
  obtain ⟨hl, _, _, p, hpast, _, hm⟩ := vlineK_pop (pop_view_some hw hb h)
  have hlk := (pop_line hw hb h).1
  have hmv : g.moves = (gpop g).moves ++ [absMove m] := by
    rw [gpop_moves, hs.moves]
    unfold lineMoves
    rw [hpast, hm]
    simp
  have hck := hs.clocks
  rw [hlk, hmv] at hck
  simp only [List.reverse_append, List.reverse_cons, List.reverse_nil, List.nil_append, List.singleton_append] at hck
  have hck2 : ClockLine g.start (gpop g).moves.reverse (lineK w' b) := hck.2
  have hclk : ((gpop g).halfmove : Int) = (w'.cur b).noprogress := by
    rw [lineK_head] at hck2
    have h1 := hck2.1
    rw [List.reverse_reverse] at h1
    exact h1
  refine ⟨⟨sync_pop hw hb h hs.sync hclk, hck2, ?_⟩, ?_⟩
  · rw [gpop_moves, hs.moves]
    unfold lineMoves
    rw [hpast]
    simp
  · cases g with
    | mk st ms =>
      unfold gsnoc
      simp only [Spec.Game.mk.injEq]
      exact ⟨rfl, hmv⟩

/-- **Lock-step is inherited by a fork and kept by the original.** -/
theorem syncAll_fork {z : ZTable} {g : Spec.Game} {w : World} {b : Nat} (hw : WFWorld w) (hb : b < w.boards.size)
    (hs : SyncAll z g w b) :
    SyncAll z g (w.fork b).1 (w.fork b).2 ∧ SyncAll z g (w.fork b).1 b :=
  ⟨syncAll_of_view (view_fork_new hw b) hs, syncAll_of_view (view_fork_old hw b hb) hs⟩

/-! ## operations on other boards -/

/-- `newBoard` does not change what existing boards see. -/
theorem view_newBoard_old {w : World} (hw : WFWorld w) (z : ZTable) (pos : Position) (turn : Color) (np fm : Int)
    {a : Nat} (ha : a < w.boards.size) : view (w.newBoard z pos turn np fm).1 a = view w a := by
  have hbd : (w.newBoard z pos turn np fm).1.board a = w.board a := by
    rw [newBoard_board, if_neg (by omega)]
  have hc := hw.cur_lt a ha
  have hcur : (w.newBoard z pos turn np fm).1.cur a = w.cur a := by
    unfold cur
    rw [hbd, newBoard_node, if_neg (by omega)]
  apply frame_view hbd <;> try rw [hcur]
  intro j hj
  have h1 := ancIdx_lt hw hj
  have h2 := bound_cur_prev_le_size hw a
  rw [newBoard_node, if_neg (by omega)]

/-- `adjudicateNoLegalMoves` on another board does not change what board `a` sees. -/
theorem view_adjudicate_other {w : World} {x a : Nat} (hxa : x ≠ a) :
    view (w.adjudicateNoLegalMoves x).1 a = view w a := by
  unfold adjudicateNoLegalMoves
  exact view_setBoard_other _ hxa

/-- **sync_other.** Lock-step of board `y` with `g` survives every operation on another board `x` that does not
write into `y`'s past: a move on `x` unless `x`'s current node is a strict ancestor of `y`'s current node (then
`y` reads the `next` the move overwrites), a take-back on `x` unless the node `x` returns to is such an ancestor
(then `y` reads the `next` the take-back clears), any `fork`, `newBoard`, and adjudication of `x`. -/
theorem syncAll_other {z : ZTable} {g : Spec.Game} {w : World} {y : Nat} (hw : WFWorld w) (hy : y < w.boards.size)
    (hs : SyncAll z g w y) :
    (∀ {w' : World} {x : Nat} {m : Move}, x ≠ y → w.pushMove z x m = some w' →
      (w.board x).current ∉ ancIdx w (w.cur y).prev → SyncAll z g w' y) ∧
    (∀ {w' : World} {x : Nat} {m : Move}, x ≠ y → w.popMove x = some (w', m) →
      (∀ pi, (w.cur x).prev = some pi → pi ∉ ancIdx w (w.cur y).prev) → SyncAll z g w' y) ∧
    (∀ x, SyncAll z g (w.fork x).1 y) ∧
    (∀ pos turn np fm, SyncAll z g (w.newBoard z pos turn np fm).1 y) ∧
    (∀ x, x ≠ y → SyncAll z g (w.adjudicateNoLegalMoves x).1 y) :=
  ⟨fun hxy h hsep => syncAll_of_view (push_frame hw hy hxy h hsep) hs,
   fun hxy h hsep => syncAll_of_view (pop_frame hxy h hsep) hs,
   fun x => syncAll_of_view (view_fork_old hw x hy) hs,
   fun pos turn np fm => syncAll_of_view (view_newBoard_old hw z pos turn np fm hy) hs,
   fun _ hxy => syncAll_of_view (view_adjudicate_other hxy) hs⟩

/-! ## the full-move number -/

/-- The full-move number of the reference game is the board's `moves` counter. -/
structure SyncFen (g : Spec.Game) (w : World) (b : Nat) : Prop where
  fullmove : (g.fullmove : Int) = (w.board b).moves

theorem syncFen_of_view {g : Spec.Game} {w w' : World} {a a' : Nat} (hv : view w' a' = view w a)
    (hs : SyncFen g w a) : SyncFen g w' a' :=
  ⟨by rw [hs.fullmove]; exact (congrArg View.moves hv).symm⟩

theorem syncFen_newBoard (w : World) (z : ZTable) (pos : Position) (turn : Color) (np : Int) (n0 f : Nat) :
    SyncFen { start := { pos := abs pos turn, halfmove := n0, fullmove := f }, moves := [] }
      (w.newBoard z pos turn np (f : Int)).1 (w.newBoard z pos turn np (f : Int)).2 := by
  constructor
  have hid : (w.newBoard z pos turn np (f : Int)).2 = w.boards.size := rfl
  rw [hid, newBoard_board, if_pos rfl]
  rfl

theorem syncFen_push {z : ZTable} {g : Spec.Game} {w w' : World} {b : Nat} {m : Move}
    (hw : WFWorld w) (hb : b < w.boards.size) (h : w.pushMove z b m = some w') (hs : Sync z g w b)
    (hf : SyncFen g w b) : SyncFen (gsnoc g (absMove m)) w' b := by
  obtain ⟨next, _, hv'⟩ := viewPush_some (push_view_some hw hb h)
  have hmoves : (w'.board b).moves =
      if (w.board b).turn.opp = .white then (w.board b).moves + 1 else (w.board b).moves := congrArg View.moves hv'
  constructor
  rw [fullmove_snoc, hs.current, hmoves, ← hf.fullmove]
  cases ht : (w.board b).turn <;> simp [abs, absColor, Color.opp]

theorem syncFen_pop {z : ZTable} {g : Spec.Game} {w w' : World} {b : Nat} {m : Move}
    (hw : WFWorld w) (hb : b < w.boards.size) (h : w.popMove b = some (w', m)) (hne : g.moves ≠ [])
    (hs' : Sync z (gpop g) w' b) (hf : SyncFen g w b) : SyncFen (gpop g) w' b := by
  obtain ⟨p, r, _, _, hv'⟩ := viewPop_some (pop_view_some hw hb h)
  have hmoves : (w'.board b).moves =
      if (w.board b).turn.opp = .black then (w.board b).moves - 1 else (w.board b).moves := congrArg View.moves hv'
  have hturn : (w'.board b).turn = (w.board b).turn.opp := congrArg View.turn hv'
  have hfm := hf.fullmove
  rw [gsnoc_gpop g hne, fullmove_snoc, hs'.current, hturn] at hfm
  constructor
  rw [hmoves]
  cases ht : (w.board b).turn <;> rw [ht] at hfm <;> simp [abs, absColor, Color.opp] at hfm ⊢ <;> omega

end Morlock.Proofs.Draw
