import Morlock.Proofs.DrawGood
import Morlock.Proofs.DrawAbs
import Morlock.Proofs.DrawSpecGame
/-!
# C05: a board and a reference game in lock-step

`Sync z g w b`: the reference game `g` (`Spec.Game`: start position with clocks, moves) and board `b` of `w`
tell the same story - the positions of `g` are the abstractions of the positions of the line (with sides),
the half-move clock of `g` is the clock of the current node, and the history is good. Established by
`newBoard`, preserved by fully sound moves (`FullStep`); it yields the three quantities the draw rules
read: repetitions, clock, material.
-/
namespace Morlock.Proofs.Draw
open Morlock Morlock.Model Morlock.Model.World Morlock.Proofs Morlock.Proofs.Arena Morlock.Proofs.Material

/-- A fully sound step: good (`GoodStep`: views agree, accurate metadata, mover is the side to move, sound
type, `Position.move` gives `q`), classified as the rules classify it (`ClassOK`), and no king is captured. -/
structure FullStep (p : Position) (t : Color) (m : Move) (q : Position) : Prop where
  good : GoodStep p t m q
  cls : ClassOK (abs p t) m = true
  noKing : m.capture ≠ .king

structure Sync (z : ZTable) (g : Spec.Game) (w : World) (b : Nat) : Prop where
  hist : GoodHistory z w b
  posOK : ∀ n ∈ lineK w b, PosOK n.pos
  positions : g.positions.reverse = (sided (w.board b).turn (lineK w b)).map (fun e => abs e.1.pos e.2)
  clock : (g.halfmove : Int) = (w.cur b).noprogress

theorem Sync.cur_posOK {z : ZTable} {g : Spec.Game} {w : World} {b : Nat} (h : Sync z g w b) : PosOK (w.cur b).pos :=
  h.posOK (key (w.cur b)) (by rw [lineK_head]; exact List.mem_cons_self)

/-- The current position of the reference game is the abstraction of the board's current position. -/
theorem Sync.current {z : ZTable} {g : Spec.Game} {w : World} {b : Nat} (h : Sync z g w b) :
    g.current = abs (w.cur b).pos (w.board b).turn := by
  have hp := congrArg List.reverse h.positions
  rw [List.reverse_reverse, lineK_head, sided_cons, List.map_cons, List.reverse_cons] at hp
  unfold Spec.Game.current
  rw [hp]
  simp

/-- **Repetitions agree**: the reference's repetition count of the current position over the whole game is
the occurrence count on the board's line. -/
theorem Sync.repetitions {z : ZTable} {g : Spec.Game} {w : World} {b : Nat} (h : Sync z g w b) :
    g.repetitions = occurrences w b := by
  rw [repetitions_eq, h.positions, List.countP_map, h.current]
  unfold occurrences occOf
  apply List.countP_congr
  intro e he
  have hpe := h.posOK e.1 (mem_sided_fst he)
  have hpc := h.cur_posOK
  simp only [Function.comp]
  rw [abs_beq hpe.rep hpc.rep hpe.castling hpc.castling]
  rfl

/-- A new board is in lock-step with the game that has just been set up. -/
theorem sync_newBoard (w : World) (z : ZTable) {pos : Position} (turn : Color) (n0 f : Nat) (fm : Int)
    (hpos : PosOK pos) :
    Sync z { start := { pos := abs pos turn, halfmove := n0, fullmove := f }, moves := [] }
      (w.newBoard z pos turn (n0 : Int) fm).1 (w.newBoard z pos turn (n0 : Int) fm).2 := by
  refine ⟨goodHistory_newBoard w z pos turn fm (Int.natCast_nonneg n0), ?_, ?_, ?_⟩
  · intro n hn
    rw [newBoard_line] at hn
    simp only [List.mem_singleton] at hn
    subst hn
    exact hpos
  · rw [newBoard_line, (newBoard_cur w z pos turn n0 fm).2.1]
    rfl
  · rw [(newBoard_cur w z pos turn n0 fm).1]
    rfl

/-- **Lock-step is preserved by a fully sound move.** -/
theorem sync_push {z : ZTable} {g : Spec.Game} {w w' : World} {b : Nat} {m : Move} (hz : z.enpassant 0 = 0)
    (hw : WFWorld w) (hb : b < w.boards.size) (h : w.pushMove z b m = some w') (hs : Sync z g w b)
    (hstep : FullStep (w.cur b).pos (w.board b).turn m (w'.cur b).pos) :
    Sync z (gsnoc g (absMove m)) w' b := by
  obtain ⟨hl, ht, _, _, hnp, _⟩ := push_line hw hb h
  have hpc := hs.cur_posOK
  have hgs := hstep.good
  obtain ⟨pc, hsq⟩ := hgs.mover
  have hq : PosOK (w'.cur b).pos := posOK_move hpc hgs.ok hgs.sound hstep.noKing hgs.moved
  have habs : abs (w'.cur b).pos (w.board b).turn.opp = Spec.apply (abs (w.cur b).pos (w.board b).turn) (absMove m) :=
    abs_move hpc.rep hgs.ok hsq hstep.cls (landOK_of_kingHome hpc.rep hgs.ok hpc.kingHome hstep.noKing _) hgs.moved
  refine ⟨goodHistory_push hz hw hb h hs.hist hgs, ?_, ?_, ?_⟩
  · intro n hn
    rw [hl] at hn
    rcases List.mem_cons.mp hn with rfl | hn
    · exact hq
    · exact hs.posOK n hn
  · rw [positions_snoc, List.reverse_append, hs.positions, hs.current, ← habs, hl, ht, sided_cons, opp_opp]
    rfl
  · rw [halfmove_snoc, hs.current, reset_eq hpc.rep hsq hgs.sound, hnp, updateNoProgress_eq, ← hs.clock]
    by_cases hr : isReset m = true
    · simp [hr]
    · simp [hr]

/-- **The three quantities the draw rules read agree** after a fully sound move: repetition count, half-move
clock, and the material test. -/
theorem sync_quantities {z : ZTable} {g : Spec.Game} {w w' : World} {b : Nat} {m : Move} (hz : z.enpassant 0 = 0)
    (hw : WFWorld w) (hb : b < w.boards.size) (h : w.pushMove z b m = some w') (hs : Sync z g w b)
    (hstep : FullStep (w.cur b).pos (w.board b).turn m (w'.cur b).pos) :
    (gsnoc g (absMove m)).repetitions = occurrences w' b ∧
    ((gsnoc g (absMove m)).halfmove : Int) = (w'.cur b).noprogress ∧
    ((g.current.occ (absMove m).to ||
        ((absMove m).promo.isSome && decide ((absMove m).promo ≠ some Spec.Kind.queen))) &&
      Spec.insufficientMaterial (gsnoc g (absMove m)).current) =
      (materialTrigger m && (w'.cur b).pos.hasInsufficientMaterial) := by
  have hs' := sync_push hz hw hb h hs hstep
  refine ⟨hs'.repetitions, hs'.clock, ?_⟩
  obtain ⟨_, ht, _⟩ := push_line hw hb h
  have hgs := hstep.good
  obtain ⟨pc, hsq⟩ := hgs.mover
  rw [hs'.current, hs.current, ht]
  exact material_flag_eq hs.cur_posOK hgs.ok hsq hstep.cls hgs.sound hstep.noKing hgs.moved

/-! ## whole games -/

/-- Every move of the list, played in turn on board `b`, is a fully sound step. -/
def FullPlay (z : ZTable) (b : Nat) : World → List Move → Prop
  | _, [] => True
  | w, m :: ms => ∀ w', w.pushMove z b m = some w' →
      FullStep (w.cur b).pos (w.board b).turn m (w'.cur b).pos ∧ FullPlay z b w' ms

def gappend (g : Spec.Game) (ms : List Spec.SMove) : Spec.Game := { g with moves := g.moves ++ ms }

theorem gappend_nil (g : Spec.Game) : gappend g [] = g := by
  unfold gappend; simp

theorem gappend_cons (g : Spec.Game) (m : Spec.SMove) (ms : List Spec.SMove) :
    gappend g (m :: ms) = gappend (gsnoc g m) ms := by
  unfold gappend gsnoc; simp

theorem gappend_snoc (g : Spec.Game) (ms : List Spec.SMove) (m : Spec.SMove) :
    gappend g (ms ++ [m]) = gsnoc (gappend g ms) m := by
  unfold gappend gsnoc; simp

theorem sync_pushAll {z : ZTable} {b : Nat} (hz : z.enpassant 0 = 0) (ms : List Move) :
    ∀ {g : Spec.Game} {w w' : World}, WFWorld w → b < w.boards.size → pushAll z b w ms = some w' →
      Sync z g w b → FullPlay z b w ms → Sync z (gappend g (ms.map absMove)) w' b := by
  induction ms with
  | nil => intro g w w' _ _ h hs _; cases h; rw [List.map_nil, gappend_nil]; exact hs
  | cons m r ih =>
    intro g w w' hw hb h hs hp
    simp only [pushAll] at h
    cases hpm : w.pushMove z b m with
    | none => rw [hpm] at h; cases h
    | some w1 =>
      rw [hpm] at h
      simp only [Option.bind_some] at h
      obtain ⟨hstep, hrest⟩ := hp w1 hpm
      have hb1 : b < w1.boards.size := by rw [boards_size_push hpm]; exact hb
      rw [List.map_cons, gappend_cons]
      exact ih (wf_push hw hb hpm) hb1 h (sync_push hz hw hb hpm hs hstep) hrest

theorem pushAll_snoc {z : ZTable} {b : Nat} (ms : List Move) (m : Move) :
    ∀ (w : World), pushAll z b w (ms ++ [m]) = (pushAll z b w ms).bind (fun w1 => w1.pushMove z b m) := by
  induction ms with
  | nil => intro w; simp [pushAll]
  | cons x r ih =>
    intro w
    simp only [List.cons_append, pushAll]
    cases w.pushMove z b x with
    | none => rfl
    | some w1 => simp only [Option.bind_some]; exact ih w1

theorem fullPlay_snoc {z : ZTable} {b : Nat} (ms : List Move) (m : Move) :
    ∀ {w w1 : World}, FullPlay z b w (ms ++ [m]) → pushAll z b w ms = some w1 →
      FullPlay z b w ms ∧ (∀ w', w1.pushMove z b m = some w' →
        FullStep (w1.cur b).pos (w1.board b).turn m (w'.cur b).pos) := by
  induction ms with
  | nil =>
    intro w w1 hp h
    cases h
    exact ⟨trivial, fun w' hw' => (hp w' hw').1⟩
  | cons x r ih =>
    intro w w1 hp h
    simp only [pushAll] at h
    cases hpm : w.pushMove z b x with
    | none => rw [hpm] at h; cases h
    | some w2 =>
      rw [hpm] at h
      simp only [Option.bind_some] at h
      obtain ⟨hstep, hrest⟩ := hp w2 hpm
      obtain ⟨h1, h2⟩ := ih hrest h
      refine ⟨?_, h2⟩
      intro w2' hpm'
      rw [hpm] at hpm'
      cases hpm'
      exact ⟨hstep, h1⟩

/-! ## a decidable sufficient criterion -/

/-- Everything asked of one move, as a `Bool`: `StepOK` (accurate metadata, classified as the rules do, no
king capture, moved by the side to move) and `MoveSound`. -/
def stepCheck (p : Position) (t : Color) (m : Move) : Bool := StepOK p t m && MoveSound p.square m

/-- `stepCheck` for every move of a line played with `Position.move` from `p`. -/
def playCheck : Position → Color → List Move → Bool
  | _, _, [] => true
  | p, t, m :: ms => stepCheck p t m && (match p.move m with | some q => playCheck q t.opp ms | none => true)

theorem fullStep_of_stepCheck {p q : Position} {t : Color} {m : Move} (hp : PosOK p)
    (hc : stepCheck p t m = true) (hm : p.move m = some q) : FullStep p t m q := by
  unfold stepCheck StepOK at hc
  simp only [Bool.and_eq_true, bne_iff_ne, ne_eq] at hc
  obtain ⟨⟨⟨⟨hok, hcl⟩, hcap⟩, hcol⟩, hsound⟩ := hc
  cases hsq : p.square m.from with
  | none => rw [hsq] at hcol; cases hcol
  | some x =>
    obtain ⟨c, pc⟩ := x
    rw [hsq] at hcol
    have hct : c = t := by simpa using hcol
    subst hct
    exact ⟨⟨hp.rep, hok, ⟨pc, hsq⟩, hsound, hm⟩, hcl, hcap⟩

theorem fullPlay_of_playCheck {z : ZTable} {b : Nat} (ms : List Move) :
    ∀ {w : World}, WFWorld w → b < w.boards.size → PosOK (w.cur b).pos →
      playCheck (w.cur b).pos (w.board b).turn ms = true → FullPlay z b w ms := by
  induction ms with
  | nil => intro w _ _ _ _; trivial
  | cons m r ih =>
    intro w hw hb hp hc w' hpm
    obtain ⟨_, ht, _, hmv, _⟩ := push_line hw hb hpm
    simp only [playCheck, Bool.and_eq_true] at hc
    obtain ⟨hsc, hrest⟩ := hc
    rw [hmv] at hrest
    simp only at hrest
    have hstep := fullStep_of_stepCheck hp hsc hmv
    refine ⟨hstep, ?_⟩
    have hb' : b < w'.boards.size := by rw [boards_size_push hpm]; exact hb
    apply ih (wf_push hw hb hpm) hb'
    · exact posOK_move hp hstep.good.ok hstep.good.sound hstep.noKing hmv
    · rw [ht]; exact hrest

end Morlock.Proofs.Draw
