import Morlock.Proofs.ArenaObs
/-!
# Any number of boards, forks of forks, adjudication

`ArenaFork.lean` separates *two* boards (`Sep`, `step_sep`, `run2_view`). Here:

* `OpN` - the four mutating operations of `pkg/board/board.go` (`PushMove`, `PopMove`, `Fork`,
  `AdjudicateNoLegalMoves`), `stepN` / `runN`: a run addressed to arbitrary boards of the world, where
  a `fork` creates a new board (its id is the number of boards at that moment, as in `World.fork`);
* `viewStepN` / `viewRunN`: the same operations on a view (`fork` does not change what the forked board sees,
  `adjudicate` only sets the result);
* `depthStep` / `aboveN`: the side condition "no board is taken back below the point where it was last
  forked (or created by a fork, or where the run started)";
* `lineages`: for every board, the board of the initial world it descends from and the operations of its
  lineage (those of its ancestors up to the fork, then its own);
* `Inv`: pairwise separation of all participating boards plus "each view is the view-run of its lineage";
  `stepN_inv`, `runN_inv`: preserved by every allowed operation.
-/
namespace Morlock.Proofs.Arena
open Morlock Morlock.Model Morlock.Model.World

/-! ## operations -/

inductive OpN
  | push (m : Move)
  | pop
  | fork
  | adjudicate
deriving DecidableEq, Repr

/-- One operation on board `b`. `none` = `PushMove` / `PopMove` returned false. -/
def stepN (z : ZTable) (w : World) (b : Nat) : OpN → Option World
  | .push m => w.pushMove z b m
  | .pop => (w.popMove b).map (·.1)
  | .fork => some (w.fork b).1
  | .adjudicate => some (w.adjudicateNoLegalMoves b).1

/-- A run of operations, each addressed to a board. -/
def runN (z : ZTable) : World → List (Nat × OpN) → Option World
  | w, [] => some w
  | w, (b, o) :: r => (stepN z w b o).bind (runN z · r)

/-- The result written by `AdjudicateNoLegalMoves`. -/
def adjResult (pos : Position) (turn : Color) : Result :=
  if pos.isChecked turn then
    { outcome := (match turn with | .white => .blackWins | .black => .whiteWins), reason := .checkmate }
  else { outcome := .draw, reason := .stalemate }

def viewAdj (v : View) : View := { v with result := adjResult v.pos v.turn }

def viewStepN (z : ZTable) (v : View) : OpN → Option View
  | .push m => viewPush z v m
  | .pop => (viewPop v).map (·.1)
  | .fork => some v
  | .adjudicate => some (viewAdj v)

def viewRunN (z : ZTable) : View → List OpN → Option View
  | v, [] => some v
  | v, o :: r => (viewStepN z v o).bind (viewRunN z · r)

/-- Number of boards an operation creates. -/
def OpN.grow : OpN → Nat
  | .fork => 1
  | _ => 0

/-- Depth bookkeeping: a move goes one up; a take-back one down and is only allowed above depth 0; a fork
makes the current node the new floor of the forked board (the fork shares everything below it);
adjudication does not move. -/
def OpN.depth : OpN → Nat → Option Nat
  | .push _, d => some (d + 1)
  | .pop, 0 => none
  | .pop, d + 1 => some d
  | .fork, _ => some 0
  | .adjudicate, d => some d

/-! ## adjudication -/

theorem adjudicate_eq (w : World) (b : Nat) :
    (w.adjudicateNoLegalMoves b).1 =
      w.setBoard b { w.board b with result := adjResult (w.cur b).pos (w.board b).turn } := rfl

theorem adjudicate_result (w : World) (b : Nat) :
    (w.adjudicateNoLegalMoves b).2 = adjResult (w.cur b).pos (w.board b).turn := rfl

theorem wf_setBoard' {w : World} (hw : WFWorld w) (b : Nat) (bd : Board)
    (hc : b < w.boards.size → bd.current < w.nodes.size) : WFWorld (w.setBoard b bd) := by
  constructor
  · intro j hj
    rw [setBoard_size] at hj
    rw [setBoard_board, setBoard_nodes]
    split
    · rename_i h; exact hc (by omega)
    · exact hw.cur_lt j hj
  · intro i p h; exact hw.prev_lt i p h

/-- `wf_adjudicate` without the bound on `b` (out of range the world is unchanged). -/
theorem wf_adjudicate' {w : World} (hw : WFWorld w) (b : Nat) : WFWorld (w.adjudicateNoLegalMoves b).1 := by
  rw [adjudicate_eq]
  exact wf_setBoard' hw _ _ (fun hb => hw.cur_lt b hb)

theorem adjudicate_boards_size (w : World) (b : Nat) : (w.adjudicateNoLegalMoves b).1.boards.size = w.boards.size := by
  rw [adjudicate_eq]; simp

theorem adjudicate_node (w : World) (b j : Nat) : (w.adjudicateNoLegalMoves b).1.node j = w.node j := rfl

theorem adjudicate_current (w : World) (b y : Nat) :
    ((w.adjudicateNoLegalMoves b).1.board y).current = (w.board y).current := by
  rw [adjudicate_eq, setBoard_board]
  split
  · rename_i h; rw [← h.1]
  · rfl

/-- Adjudicating board `b` does not change what any other board sees (no hypothesis on the world). -/
theorem view_adjudicate_other (w : World) {b a : Nat} (h : b ≠ a) :
    view (w.adjudicateNoLegalMoves b).1 a = view w a := by
  rw [adjudicate_eq]
  exact view_setBoard_other _ h

/-- On the adjudicated board only the result changes. -/
theorem view_adjudicate_self (w : World) {b : Nat} (hb : b < w.boards.size) :
    view (w.adjudicateNoLegalMoves b).1 b = viewAdj (view w b) := by
  have hbd : (w.adjudicateNoLegalMoves b).1.board b
      = { w.board b with result := adjResult (w.cur b).pos (w.board b).turn } := by
    rw [adjudicate_eq, setBoard_board, if_pos ⟨rfl, hb⟩]
  have hcur : (w.adjudicateNoLegalMoves b).1.cur b = w.cur b := by
    unfold cur
    rw [hbd]
    rfl
  have hanc : ∀ o, anc (w.adjudicateNoLegalMoves b).1 o = anc w o :=
    fun o => (anc_congr (fun j _ => adjudicate_node w b j)).2
  unfold view viewAdj
  rw [hbd, hcur, hanc]

/-! ## well-formedness and the operated board's own view -/

theorem stepN_wf {w w' : World} {z : ZTable} {b : Nat} {o : OpN} (hw : WFWorld w) (hb : b < w.boards.size)
    (h : stepN z w b o = some w') : WFWorld w' ∧ w'.boards.size = w.boards.size + o.grow := by
  cases o with
  | push m => exact ⟨wf_push hw hb h, boards_size_push h⟩
  | pop =>
    have := step_wf (o := Op.pop) hw hb (z := z) h
    exact this
  | fork =>
    simp only [stepN, Option.some.injEq] at h
    subst h
    exact ⟨wf_fork hw b, by simp [OpN.grow]⟩
  | adjudicate =>
    simp only [stepN, Option.some.injEq] at h
    subst h
    exact ⟨wf_adjudicate' hw b, adjudicate_boards_size w b⟩

/-- Every operation commutes with `view` on the board it is addressed to. -/
theorem stepN_view_self {w : World} (hw : WFWorld w) {z : ZTable} {b : Nat} (hb : b < w.boards.size) (o : OpN) :
    (stepN z w b o).map (fun w' => view w' b) = viewStepN z (view w b) o := by
  cases o with
  | push m => exact push_view hw hb m
  | pop => exact step_view (z := z) hw hb Op.pop
  | fork =>
    simp only [stepN, viewStepN, Option.map_some]
    rw [view_fork_old hw b hb]
  | adjudicate =>
    simp only [stepN, viewStepN, Option.map_some]
    rw [view_adjudicate_self w hb]

theorem viewRunN_snoc {z : ZTable} (l : List OpN) (o : OpN) :
    ∀ (v : View), viewRunN z v (l ++ [o]) = (viewRunN z v l).bind (viewStepN z · o) := by
  induction l with
  | nil =>
    intro v
    simp only [List.nil_append, viewRunN, Option.bind_some]
    cases viewStepN z v o <;> rfl
  | cons a r ih =>
    intro v
    simp only [List.cons_append, viewRunN]
    cases viewStepN z v a with
    | none => rfl
    | some v1 => simp only [Option.bind_some]; exact ih v1

theorem runN_wf {z : ZTable} (ops : List (Nat × OpN)) :
    ∀ {w w' : World}, WFWorld w → (∀ p ∈ ops, p.1 < w.boards.size) → runN z w ops = some w' →
      WFWorld w' ∧ w.boards.size ≤ w'.boards.size := by
  induction ops with
  | nil => intro w w' hw _ h; cases h; exact ⟨hw, Nat.le_refl _⟩
  | cons p r ih =>
    intro w w' hw hlt h
    obtain ⟨b, o⟩ := p
    simp only [runN] at h
    cases hs : stepN z w b o with
    | none => rw [hs] at h; cases h
    | some w1 =>
      rw [hs] at h
      simp only [Option.bind_some] at h
      have h1 := stepN_wf hw (hlt (b, o) (by simp)) hs
      have h2 := ih h1.1 (fun p hp => by have := hlt p (by simp [hp]); omega) h
      exact ⟨h2.1, by omega⟩

/-- A run addressed to one board commutes with `view` (forks it makes on the way create other boards). -/
theorem runN_view_one {z : ZTable} {b : Nat} (l : List OpN) :
    ∀ {w : World}, WFWorld w → b < w.boards.size →
      (runN z w (l.map fun o => (b, o))).map (fun w' => view w' b) = viewRunN z (view w b) l := by
  induction l with
  | nil => intro w _ _; rfl
  | cons o r ih =>
    intro w hw hb
    simp only [List.map_cons, runN, viewRunN]
    rw [← stepN_view_self hw hb o]
    cases hs : stepN z w b o with
    | none => rfl
    | some w1 =>
      have h1 := stepN_wf hw hb hs
      simp only [Option.bind_some, Option.map_some]
      exact ih h1.1 (by omega)

/-! ## chains of the boards that are not operated on -/

theorem Sep.mono {w : World} {x y d d' : Nat} (h : Sep w x y d) (hd : d' ≤ d) : Sep w x y d' :=
  fun j hj => h j (mem_take_of_mem_take hj (by omega))

theorem Sep.congr {w w' : World} {x y d : Nat} (hx : chainIdx w' x = chainIdx w x) (hy : chainIdx w' y = chainIdx w y)
    (h : Sep w x y d) : Sep w' x y d := by
  unfold Sep
  rw [hx, hy]
  exact h

theorem mem_chain_lt {w : World} (hw : WFWorld w) {y : Nat} (hy : y < w.boards.size) {j : Nat}
    (hj : j ∈ chainIdx w y) : j < w.nodes.size := by
  have h1 := ancIdx_lt hw hj
  have h2 := hw.cur_lt y hy
  simp only [bound] at h1
  omega

theorem mem_anc_lt_cur {w : World} (hw : WFWorld w) (x : Nat) {j : Nat}
    (hj : j ∈ ancIdx w (w.cur x).prev) : j < (w.board x).current := by
  have h1 := ancIdx_lt hw hj
  have h2 : bound (w.cur x).prev ≤ (w.board x).current := bound_prev_le hw.prev_lt _
  omega

/-- A move or take-back on `x` leaves the chain (indices) of every other board alone. -/
theorem chainIdx_step_other {w w' : World} {z : ZTable} {x y : Nat} {o : Op} (hw : WFWorld w)
    (hy : y < w.boards.size) (hxy : x ≠ y) (h : step z x w o = some w') : chainIdx w' y = chainIdx w y := by
  have hcy := hw.cur_lt y hy
  cases o with
  | push m =>
    simp only [step] at h
    unfold chainIdx
    rw [push_board_other h hxy]
    exact ancIdx_push hw h (by simp only [bound]; omega)
  | pop =>
    simp only [step] at h
    cases hp : w.popMove x with
    | none => rw [hp] at h; cases h
    | some r =>
      obtain ⟨w1, m⟩ := r
      rw [hp] at h
      simp only [Option.map_some, Option.some.injEq] at h
      subst h
      unfold chainIdx
      rw [pop_board_other hp hxy]
      exact ancIdx_pop hp _

theorem chainIdx_adjudicate (w : World) (b y : Nat) :
    chainIdx (w.adjudicateNoLegalMoves b).1 y = chainIdx w y := by
  unfold chainIdx
  rw [adjudicate_current]
  exact (anc_congr (fun j _ => adjudicate_node w b j)).1

theorem chainIdx_fork_old {w : World} (hw : WFWorld w) (x : Nat) {y : Nat} (hy : y < w.boards.size) :
    chainIdx (w.fork x).1 y = chainIdx w y := by
  have hc := hw.cur_lt y hy
  have hby : (w.fork x).1.board y = w.board y := by rw [fork_board, if_neg (by omega)]
  unfold chainIdx
  rw [hby]
  exact (anc_fork hw x (o := some (w.board y).current) (by simp only [bound]; omega)).1

theorem chainIdx_fork_new {w : World} (hw : WFWorld w) (x : Nat) :
    chainIdx (w.fork x).1 w.boards.size = w.nodes.size :: ancIdx w (w.cur x).prev := by
  have hw1 := wf_fork hw x
  have hbf : ((w.fork x).1.board w.boards.size).current = w.nodes.size := by
    rw [fork_board, if_pos rfl]
  unfold chainIdx
  rw [hbf, ancIdx_some hw1, fork_node, if_pos rfl]
  simp only [forkNode]
  rw [(anc_fork hw x (bound_cur_prev_le_size hw x)).1]

/-- What one allowed operation other than `fork` on `x` does to the other boards: their chains stay, and
a board separated from `x` keeps its view and stays separated. -/
theorem stepN_others {w w' : World} {z : ZTable} {x : Nat} {o : OpN} {dx dx' : Nat} (hw : WFWorld w)
    (hx : x < w.boards.size) (hnf : o ≠ .fork) (hd : o.depth dx = some dx') (h : stepN z w x o = some w') :
    (∀ y, y < w.boards.size → x ≠ y → chainIdx w' y = chainIdx w y) ∧
    (∀ y dy, y < w.boards.size → x ≠ y → Sep w x y dx → Sep w y x dy →
      view w' y = view w y ∧ Sep w' x y dx' ∧ Sep w' y x dy) := by
  cases o with
  | fork => exact absurd rfl hnf
  | push m =>
    have h' : step z x w (Op.push m) = some w' := h
    have hd' : (Op.push m).depth dx = some dx' := hd
    exact ⟨fun y hy hxy => chainIdx_step_other hw hy hxy h',
      fun y dy hy hxy hsx hsy => step_sep hw hx hy hxy hsx hsy hd' h'⟩
  | pop =>
    have h' : step z x w Op.pop = some w' := h
    have hd' : Op.pop.depth dx = some dx' := by
      cases dx with
      | zero => simp [OpN.depth] at hd
      | succ d => exact hd
    exact ⟨fun y hy hxy => chainIdx_step_other hw hy hxy h',
      fun y dy hy hxy hsx hsy => step_sep hw hx hy hxy hsx hsy hd' h'⟩
  | adjudicate =>
    simp only [stepN, Option.some.injEq] at h
    subst h
    simp only [OpN.depth, Option.some.injEq] at hd
    subst hd
    refine ⟨fun y _ _ => chainIdx_adjudicate w x y, ?_⟩
    intro y dy _ hxy hsx hsy
    exact ⟨view_adjudicate_other w hxy,
      hsx.congr (chainIdx_adjudicate w x x) (chainIdx_adjudicate w x y),
      hsy.congr (chainIdx_adjudicate w x y) (chainIdx_adjudicate w x x)⟩

/-! ## bookkeeping: depths and lineages -/

/-- Function update. -/
def upd {α : Type} (f : Nat → α) (i : Nat) (a : α) : Nat → α := fun j => if j = i then a else f j

/-- After a `fork` of board `b` in a world of `n` boards, the new board `n` inherits the entry of `b`. -/
def forkUpd {α : Type} (o : OpN) (n b : Nat) (f : Nat → α) : Nat → α :=
  match o with
  | .fork => upd f n (f b)
  | _ => f

/-- One operation on the depth assignment `D` (`none` = the board does not take part / does not exist).
Fails if the board does not take part or would be taken back below its floor. -/
def depthStep (n : Nat) (D : Nat → Option Nat) (b : Nat) (o : OpN) : Option (Nat → Option Nat) :=
  (D b).bind fun d => (o.depth d).map fun d' => forkUpd o n b (upd D b (some d'))

/-- The side condition of the isolation theorem: every operation is addressed to a participating board,
and no board is taken back below its floor - the point where the run started, where it was created by a
fork, or where it was last forked. `n` is the number of boards of the world, `D` the current heights. -/
def aboveN : Nat → (Nat → Option Nat) → List (Nat × OpN) → Bool
  | _, _, [] => true
  | n, D, (b, o) :: r =>
    match depthStep n D b o with
    | none => false
    | some D' => aboveN (n + o.grow) D' r

/-- The depth assignment at the end of the run (where `aboveN` holds). -/
def depthsAfter : Nat → (Nat → Option Nat) → List (Nat × OpN) → (Nat → Option Nat)
  | _, D, [] => D
  | n, D, (b, o) :: r =>
    match depthStep n D b o with
    | none => D
    | some D' => depthsAfter (n + o.grow) D' r

/-- Roots `R` (board of the initial world a board descends from) and lineages `H` (operations of the
ancestors up to the fork, then the board's own) after a run. -/
def lineages : Nat → (Nat → Nat) → (Nat → List OpN) → List (Nat × OpN) → (Nat → Nat) × (Nat → List OpN)
  | _, R, H, [] => (R, H)
  | n, R, H, (b, o) :: r =>
    lineages (n + o.grow) (forkUpd o n b R) (forkUpd o n b (upd H b (H b ++ [o]))) r

/-- The board of the initial world (of `n` boards) from which board `b` descends after `ops`. -/
def rootOf (n : Nat) (ops : List (Nat × OpN)) (b : Nat) : Nat := (lineages n id (fun _ => []) ops).1 b

/-- The operations of the lineage of board `b` after `ops`, starting from a world of `n` boards. -/
def lineOf (n : Nat) (ops : List (Nat × OpN)) (b : Nat) : List OpN := (lineages n id (fun _ => []) ops).2 b

theorem depthStep_some {n : Nat} {D D' : Nat → Option Nat} {x : Nat} {o : OpN} (h : depthStep n D x o = some D') :
    ∃ d d', D x = some d ∧ o.depth d = some d' ∧ D' = forkUpd o n x (upd D x (some d')) := by
  unfold depthStep at h
  cases hD : D x with
  | none => rw [hD] at h; cases h
  | some d =>
    rw [hD] at h
    simp only [Option.bind_some] at h
    cases ho : o.depth d with
    | none => rw [ho] at h; cases h
    | some d' =>
      rw [ho] at h
      simp only [Option.map_some, Option.some.injEq] at h
      exact ⟨d, d', rfl, ho, h.symm⟩

/-- The operations addressed to an initial board are exactly its lineage. -/
theorem lineages_initial (ops : List (Nat × OpN)) :
    ∀ (n : Nat) (R : Nat → Nat) (H : Nat → List OpN) (b : Nat), b < n →
      (lineages n R H ops).1 b = R b ∧
      (lineages n R H ops).2 b = H b ++ (ops.filter (fun p => p.1 == b)).map (·.2) := by
  induction ops with
  | nil => intro n R H b _; simp [lineages]
  | cons p r ih =>
    intro n R H b hb
    obtain ⟨x, o⟩ := p
    simp only [lineages]
    obtain ⟨h1, h2⟩ := ih (n + o.grow) (forkUpd o n x R) (forkUpd o n x (upd H x (H x ++ [o]))) b (by omega)
    rw [h1, h2]
    have hR : forkUpd o n x R b = R b := by
      cases o <;> simp only [forkUpd, upd]
      rw [if_neg (by omega)]
    have hH : forkUpd o n x (upd H x (H x ++ [o])) b = upd H x (H x ++ [o]) b := by
      cases o <;> simp only [forkUpd]
      simp only [upd]
      rw [if_neg (by omega)]
    rw [hR, hH]
    refine ⟨rfl, ?_⟩
    by_cases hxb : x = b
    · subst hxb
      simp [upd]
    · have : (x == b) = false := by simp [hxb]
      have hbx : ¬ b = x := fun h => hxb h.symm
      simp [upd, this, hbx]

theorem filter_map_addr (b : Nat) (ops : List (Nat × OpN)) :
    ((ops.filter (fun p => p.1 == b)).map (·.2)).map (fun o => (b, o)) = ops.filter (fun p => p.1 == b) := by
  induction ops with
  | nil => rfl
  | cons p r ih =>
    obtain ⟨x, o⟩ := p
    by_cases hxb : x = b
    · subst hxb
      simp only [List.filter_cons, beq_self_eq_true, if_true, List.map_cons, ih]
    · have : (x == b) = false := by simp [hxb]
      simp only [List.filter_cons, this, Bool.false_eq_true, if_false, ih]

/-! ## the invariant -/

/-- The invariant of a run started in `w0`: the participating boards (`D b ≠ none`) exist, descend from boards
of `w0`, are pairwise separated at their heights, and each sees what the view-run of its lineage gives. -/
structure Inv (z : ZTable) (w0 w : World) (D : Nat → Option Nat) (R : Nat → Nat) (H : Nat → List OpN) : Prop where
  wf : WFWorld w
  act_lt : ∀ b d, D b = some d → b < w.boards.size
  root_lt : ∀ b d, D b = some d → R b < w0.boards.size
  sep : ∀ x y dx dy, D x = some dx → D y = some dy → x ≠ y → Sep w x y dx
  hist : ∀ b d, D b = some d → viewRunN z (view w0 (R b)) (H b) = some (view w b)

theorem stepN_inv_nofork {z : ZTable} {w0 w w' : World} {D : Nat → Option Nat} {R : Nat → Nat}
    {H : Nat → List OpN} {x : Nat} {o : OpN} {d d' : Nat} (hI : Inv z w0 w D R H) (hnf : o ≠ .fork)
    (hDx : D x = some d) (hd : o.depth d = some d') (h : stepN z w x o = some w') :
    Inv z w0 w' (upd D x (some d')) R (upd H x (H x ++ [o])) := by
  have hw := hI.wf
  have hx := hI.act_lt x d hDx
  have hwf := stepN_wf hw hx h
  have hgrow : o.grow = 0 := by cases o <;> first | rfl | exact absurd rfl hnf
  have hsize : w'.boards.size = w.boards.size := by rw [hwf.2, hgrow]; rfl
  obtain ⟨hch, hoth⟩ := stepN_others hw hx hnf hd h
  -- participating boards before the step
  have hact : ∀ b db, upd D x (some d') b = some db → b ≠ x → D b = some db := by
    intro b db hb hne
    simpa [upd, hne] using hb
  have hself : ∀ db, upd D x (some d') x = some db → db = d' := by
    intro db hb
    simp only [upd, if_true, Option.some.injEq] at hb
    exact hb.symm
  constructor
  · exact hwf.1
  · intro b db hb
    rw [hsize]
    by_cases hbx : b = x
    · rw [hbx]; exact hx
    · exact hI.act_lt b db (hact b db hb hbx)
  · intro b db hb
    by_cases hbx : b = x
    · rw [hbx]; exact hI.root_lt x d hDx
    · exact hI.root_lt b db (hact b db hb hbx)
  · intro a c da dc ha hc hac
    by_cases hax : a = x
    · subst hax
      have hcx : c ≠ a := fun e => hac e.symm
      have hDc := hact c dc hc hcx
      rw [hself da ha]
      exact (hoth c dc (hI.act_lt c dc hDc) hac (hI.sep a c d dc hDx hDc hac) (hI.sep c a dc d hDc hDx hcx)).2.1
    · have hDa := hact a da ha hax
      by_cases hcx : c = x
      · subst hcx
        have hxa : c ≠ a := fun e => hac e.symm
        exact (hoth a da (hI.act_lt a da hDa) hxa (hI.sep c a d da hDx hDa hxa) (hI.sep a c da d hDa hDx hac)).2.2
      · have hDc := hact c dc hc hcx
        exact (hI.sep a c da dc hDa hDc hac).congr
          (hch a (hI.act_lt a da hDa) (fun e => hax e.symm)) (hch c (hI.act_lt c dc hDc) (fun e => hcx e.symm))
  · intro b db hb
    by_cases hbx : b = x
    · subst hbx
      have hH : upd H b (H b ++ [o]) b = H b ++ [o] := by simp [upd]
      rw [hH, viewRunN_snoc, hI.hist b d hDx, Option.bind_some, ← stepN_view_self hw hx o, h]
      rfl
    · have hDb := hact b db hb hbx
      have hH : upd H x (H x ++ [o]) b = H b := by simp [upd, hbx]
      have hxb : x ≠ b := fun e => hbx e.symm
      have hv := (hoth b db (hI.act_lt b db hDb) hxb (hI.sep x b d db hDx hDb hxb) (hI.sep b x db d hDb hDx hbx)).1
      rw [hH, hv]
      exact hI.hist b db hDb

theorem stepN_inv_fork {z : ZTable} {w0 w : World} {D : Nat → Option Nat} {R : Nat → Nat}
    {H : Nat → List OpN} {x : Nat} {d : Nat} (hI : Inv z w0 w D R H) (hDx : D x = some d) :
    Inv z w0 (w.fork x).1 (upd (upd D x (some 0)) w.boards.size (some 0)) (upd R w.boards.size (R x))
      (upd (upd H x (H x ++ [.fork])) w.boards.size (H x ++ [.fork])) := by
  have hw := hI.wf
  have hx := hI.act_lt x d hDx
  have hw1 := wf_fork hw x
  have hcx := hw.cur_lt x hx
  -- participating boards before the step
  have hact : ∀ b db, upd (upd D x (some 0)) w.boards.size (some 0) b = some db → b ≠ w.boards.size → b ≠ x →
      D b = some db := by
    intro b db hb h1 h2
    simpa [upd, h1, h2] using hb
  have hzero : ∀ b db, upd (upd D x (some 0)) w.boards.size (some 0) b = some db → (b = w.boards.size ∨ b = x) →
      db = 0 := by
    intro b db hb h1
    rcases h1 with h1 | h1
    · simp only [upd, h1, if_true, Option.some.injEq] at hb
      exact hb.symm
    · subst h1
      by_cases h2 : b = w.boards.size
      · simp only [upd, h2, if_true, Option.some.injEq] at hb
        exact hb.symm
      · simp only [upd, h2, if_false, if_true, Option.some.injEq] at hb
        exact hb.symm
  have hchx : chainIdx w x = (w.board x).current :: ancIdx w (w.cur x).prev := chainIdx_eq hw x
  have hnew := chainIdx_fork_new hw x
  have hold : ∀ y, y < w.boards.size → chainIdx (w.fork x).1 y = chainIdx w y := fun y hy => chainIdx_fork_old hw x hy
  -- the new node is on no old chain
  have hN : ∀ y, y < w.boards.size → w.nodes.size ∉ chainIdx w y := by
    intro y hy hm
    have := mem_chain_lt hw hy hm
    omega
  constructor
  · exact hw1
  · intro b db hb
    rw [fork_boards_size]
    by_cases h1 : b = w.boards.size
    · omega
    · by_cases h2 : b = x
      · omega
      · have := hI.act_lt b db (hact b db hb h1 h2); omega
  · intro b db hb
    by_cases h1 : b = w.boards.size
    · simp only [upd, h1, if_true]; exact hI.root_lt x d hDx
    · have hR : upd R w.boards.size (R x) b = R b := by simp [upd, h1]
      rw [hR]
      by_cases h2 : b = x
      · rw [h2]; exact hI.root_lt x d hDx
      · exact hI.root_lt b db (hact b db hb h1 h2)
  · intro a c da dc ha hc hac
    unfold Sep
    by_cases ha1 : a = w.boards.size
    · -- the fork against an old board
      have hda := hzero a da ha (Or.inl ha1)
      subst hda
      have hc1 : c ≠ w.boards.size := fun e => hac (ha1.trans e.symm)
      have hclt : c < w.boards.size := by
        by_cases h2 : c = x
        · omega
        · exact hI.act_lt c dc (hact c dc hc hc1 h2)
      rw [ha1, hnew, hold c hclt]
      intro j hj
      simp only [Nat.zero_add, List.take_succ_cons, List.take_zero, List.mem_singleton] at hj
      subst hj
      exact hN c hclt
    · have halt : a < w.boards.size := by
        by_cases h2 : a = x
        · omega
        · exact hI.act_lt a da (hact a da ha ha1 h2)
      rw [hold a halt]
      by_cases hc1 : c = w.boards.size
      · -- an old board against the fork
        rw [hc1, hnew]
        intro j hj
        have hjlt := mem_chain_lt hw halt (List.mem_of_mem_take hj)
        simp only [List.mem_cons, not_or]
        refine ⟨by omega, ?_⟩
        intro hm
        by_cases h2 : a = x
        · have hda := hzero a da ha (Or.inr h2)
          subst hda
          rw [h2, hchx] at hj
          simp only [Nat.zero_add, List.take_succ_cons, List.take_zero, List.mem_singleton] at hj
          subst hj
          have := mem_anc_lt_cur hw x hm
          omega
        · have hDa := hact a da ha ha1 h2
          apply hI.sep a x da d hDa hDx h2 j hj
          rw [hchx]
          exact List.mem_cons_of_mem _ hm
      · have hclt : c < w.boards.size := by
          by_cases h2 : c = x
          · omega
          · exact hI.act_lt c dc (hact c dc hc hc1 h2)
        rw [hold c hclt]
        by_cases h2 : a = x
        · have hda := hzero a da ha (Or.inr h2)
          subst hda
          have hcx' : c ≠ x := fun e => hac (h2.trans e.symm)
          have hDc := hact c dc hc hc1 hcx'
          rw [h2]
          exact (hI.sep x c d dc hDx hDc (fun e => hcx' e.symm)).mono (Nat.zero_le _)
        · have hDa := hact a da ha ha1 h2
          by_cases h3 : c = x
          · rw [h3]
            exact hI.sep a x da d hDa hDx h2
          · exact hI.sep a c da dc hDa (hact c dc hc hc1 h3) hac
  · intro b db hb
    have hsnoc : viewRunN z (view w0 (R x)) (H x ++ [OpN.fork]) = some (view w x) := by
      rw [viewRunN_snoc, hI.hist x d hDx]
      rfl
    by_cases h1 : b = w.boards.size
    · subst h1
      have hH : upd (upd H x (H x ++ [OpN.fork])) w.boards.size (H x ++ [OpN.fork]) w.boards.size
          = H x ++ [OpN.fork] := by simp [upd]
      have hR : upd R w.boards.size (R x) w.boards.size = R x := by simp [upd]
      rw [hH, hR, hsnoc]
      have := view_fork_new hw x
      rw [fork_id] at this
      rw [this]
    · have hR : upd R w.boards.size (R x) b = R b := by simp [upd, h1]
      rw [hR]
      by_cases h2 : b = x
      · subst h2
        have hH : upd (upd H b (H b ++ [OpN.fork])) w.boards.size (H b ++ [OpN.fork]) b = H b ++ [OpN.fork] := by
          simp [upd]
        rw [hH, hsnoc, view_fork_old hw b hx]
      · have hDb := hact b db hb h1 h2
        have hH : upd (upd H x (H x ++ [OpN.fork])) w.boards.size (H x ++ [OpN.fork]) b = H b := by
          simp [upd, h1, h2]
        rw [hH, view_fork_old hw x (hI.act_lt b db hDb)]
        exact hI.hist b db hDb

/-- Every allowed operation preserves the invariant. -/
theorem stepN_inv {z : ZTable} {w0 w w' : World} {D D' : Nat → Option Nat} {R : Nat → Nat}
    {H : Nat → List OpN} {x : Nat} {o : OpN} (hI : Inv z w0 w D R H)
    (hd : depthStep w.boards.size D x o = some D') (h : stepN z w x o = some w') :
    Inv z w0 w' D' (forkUpd o w.boards.size x R) (forkUpd o w.boards.size x (upd H x (H x ++ [o]))) := by
  obtain ⟨d, d', hDx, hdep, rfl⟩ := depthStep_some hd
  by_cases hf : o = .fork
  · subst hf
    simp only [stepN, Option.some.injEq] at h
    subst h
    simp only [OpN.depth, Option.some.injEq] at hdep
    subst hdep
    have := stepN_inv_fork hI hDx
    simpa [forkUpd, upd] using this
  · have := stepN_inv_nofork hI hf hDx hdep h
    cases o with
    | fork => exact absurd rfl hf
    | push m => exact this
    | pop => exact this
    | adjudicate => exact this

/-- The number of boards after a run started with `n` boards. -/
def boardsAfter : Nat → List (Nat × OpN) → Nat
  | n, [] => n
  | n, (_, o) :: r => boardsAfter (n + o.grow) r

theorem boardsAfter_ge (ops : List (Nat × OpN)) : ∀ n, n ≤ boardsAfter n ops := by
  induction ops with
  | nil => intro n; exact Nat.le_refl _
  | cons p r ih =>
    intro n
    obtain ⟨x, o⟩ := p
    simp only [boardsAfter]
    have := ih (n + o.grow)
    omega

/-- The invariant holds at the end of every allowed run. -/
theorem runN_inv {z : ZTable} {w0 : World} (ops : List (Nat × OpN)) :
    ∀ {w w' : World} {D : Nat → Option Nat} {R : Nat → Nat} {H : Nat → List OpN},
      Inv z w0 w D R H → aboveN w.boards.size D ops = true → runN z w ops = some w' →
      Inv z w0 w' (depthsAfter w.boards.size D ops) (lineages w.boards.size R H ops).1
        (lineages w.boards.size R H ops).2 ∧
      w'.boards.size = boardsAfter w.boards.size ops := by
  induction ops with
  | nil =>
    intro w w' D R H hI _ h
    simp only [runN, Option.some.injEq] at h
    subst h
    exact ⟨hI, rfl⟩
  | cons p r ih =>
    intro w w' D R H hI habove h
    obtain ⟨x, o⟩ := p
    simp only [aboveN] at habove
    simp only [runN] at h
    simp only [depthsAfter, lineages, boardsAfter]
    cases hd : depthStep w.boards.size D x o with
    | none => rw [hd] at habove; cases habove
    | some D' =>
      rw [hd] at habove
      simp only
      cases hs : stepN z w x o with
      | none => rw [hs] at h; cases h
      | some w1 =>
        rw [hs] at h
        simp only [Option.bind_some] at h
        obtain ⟨d, _, hDx, _, _⟩ := depthStep_some hd
        have hsz := (stepN_wf hI.wf (hI.act_lt x d hDx) hs).2
        have hI1 := stepN_inv hI hd hs
        rw [← hsz] at habove ⊢
        exact ih hI1 habove h

/-- Which boards take part at the end: those that descend from a participating board of the initial world. -/
theorem depthsAfter_active (D0 : Nat → Option Nat) (ops : List (Nat × OpN)) :
    ∀ (n : Nat) (D : Nat → Option Nat) (R : Nat → Nat) (H : Nat → List OpN),
      (∀ i, D i ≠ none ↔ (i < n ∧ D0 (R i) ≠ none)) → aboveN n D ops = true →
      ∀ i, depthsAfter n D ops i ≠ none ↔
        (i < boardsAfter n ops ∧ D0 ((lineages n R H ops).1 i) ≠ none) := by
  induction ops with
  | nil => intro n D R H h _ i; exact h i
  | cons p r ih =>
    intro n D R H hyp habove
    obtain ⟨x, o⟩ := p
    simp only [aboveN] at habove
    simp only [depthsAfter, lineages, boardsAfter]
    cases hd : depthStep n D x o with
    | none => rw [hd] at habove; cases habove
    | some D' =>
      rw [hd] at habove
      simp only
      obtain ⟨d, d', hDx, _, rfl⟩ := depthStep_some hd
      have hx : x < n ∧ D0 (R x) ≠ none := (hyp x).mp (by rw [hDx]; simp)
      apply ih _ _ _ _ _ habove
      intro i
      cases o with
      | fork =>
        simp only [forkUpd, upd, OpN.grow]
        by_cases h1 : i = n
        · simp only [h1, if_true]
          exact ⟨fun _ => ⟨by omega, hx.2⟩, fun _ => by simp⟩
        · simp only [h1, if_false]
          by_cases h2 : i = x
          · simp only [h2, if_true]
            exact ⟨fun _ => ⟨by omega, hx.2⟩, fun _ => by simp⟩
          · simp only [h2, if_false]
            rw [hyp i]
            exact ⟨fun h => ⟨by omega, h.2⟩, fun h => ⟨by omega, h.2⟩⟩
      | push m =>
        simp only [forkUpd, upd, OpN.grow, Nat.add_zero]
        by_cases h2 : i = x
        · simp only [h2, if_true]
          exact ⟨fun _ => hx, fun _ => by simp⟩
        · simp only [h2, if_false]
          exact hyp i
      | pop =>
        simp only [forkUpd, upd, OpN.grow, Nat.add_zero]
        by_cases h2 : i = x
        · simp only [h2, if_true]
          exact ⟨fun _ => hx, fun _ => by simp⟩
        · simp only [h2, if_false]
          exact hyp i
      | adjudicate =>
        simp only [forkUpd, upd, OpN.grow, Nat.add_zero]
        by_cases h2 : i = x
        · simp only [h2, if_true]
          exact ⟨fun _ => hx, fun _ => by simp⟩
        · simp only [h2, if_false]
          exact hyp i

/-- The invariant at the start: the participating boards of `w` exist and are pairwise separated. -/
structure Separated (w : World) (D : Nat → Option Nat) : Prop where
  act_lt : ∀ b d, D b = some d → b < w.boards.size
  sep : ∀ x y dx dy, D x = some dx → D y = some dy → x ≠ y → Sep w x y dx

theorem inv_init {z : ZTable} {w : World} {D : Nat → Option Nat} (hw : WFWorld w) (hD : Separated w D) :
    Inv z w w D id (fun _ => []) :=
  ⟨hw, hD.act_lt, hD.act_lt, hD.sep, fun _ _ _ => rfl⟩

theorem Inv.separated {z : ZTable} {w0 w : World} {D : Nat → Option Nat} {R : Nat → Nat} {H : Nat → List OpN}
    (h : Inv z w0 w D R H) : Separated w D := ⟨h.act_lt, h.sep⟩

/-- One participating board only: nothing to separate. -/
def only (b : Nat) : Nat → Option Nat := fun i => if i = b then some 0 else none

theorem separated_only {w : World} {b : Nat} (hb : b < w.boards.size) : Separated w (only b) := by
  constructor
  · intro a d h
    simp only [only] at h
    split at h
    · rename_i e; rw [e]; exact hb
    · cases h
  · intro x y dx dy hx hy hxy
    simp only [only] at hx hy
    split at hx
    · split at hy
      · rename_i e1 e2; exact absurd (e1.trans e2.symm) hxy
      · cases hy
    · cases hx

/-! ## new boards (`NewBoard`) join a separated world -/

theorem newBoard_boards_size (w : World) (z : ZTable) (pos : Position) (turn : Color) (np fm : Int) :
    (w.newBoard z pos turn np fm).1.boards.size = w.boards.size + 1 := by simp [newBoard]

theorem chainIdx_newBoard_old {w : World} (hw : WFWorld w) (z : ZTable) (pos : Position) (turn : Color)
    (np fm : Int) {y : Nat} (hy : y < w.boards.size) :
    chainIdx (w.newBoard z pos turn np fm).1 y = chainIdx w y := by
  have hby : (w.newBoard z pos turn np fm).1.board y = w.board y := by
    rw [newBoard_board, if_neg (by omega)]
  unfold chainIdx
  rw [hby]
  apply (anc_congr _).1
  intro j hj
  have := mem_chain_lt hw hy hj
  rw [newBoard_node, if_neg (by omega)]

theorem chainIdx_newBoard_new {w : World} (hw : WFWorld w) (z : ZTable) (pos : Position) (turn : Color)
    (np fm : Int) : chainIdx (w.newBoard z pos turn np fm).1 w.boards.size = [w.nodes.size] := by
  have hw1 := wf_newBoard hw z pos turn np fm
  have hb : ((w.newBoard z pos turn np fm).1.board w.boards.size).current = w.nodes.size := by
    rw [newBoard_board, if_pos rfl]
  unfold chainIdx
  rw [hb, ancIdx_some hw1, newBoard_node, if_pos rfl]
  rfl

/-- A board created by `NewBoard` is separated from all existing boards (it shares no node with them). -/
theorem separated_newBoard {w : World} {D : Nat → Option Nat} (hw : WFWorld w) (hD : Separated w D)
    (z : ZTable) (pos : Position) (turn : Color) (np fm : Int) :
    Separated (w.newBoard z pos turn np fm).1 (upd D w.boards.size (some 0)) := by
  have hact : ∀ b db, upd D w.boards.size (some 0) b = some db → b ≠ w.boards.size → D b = some db := by
    intro b db hb hne
    simpa [upd, hne] using hb
  constructor
  · intro b db hb
    rw [newBoard_boards_size]
    by_cases h1 : b = w.boards.size
    · omega
    · have := hD.act_lt b db (hact b db hb h1); omega
  · intro a c da dc ha hc hac
    unfold Sep
    by_cases ha1 : a = w.boards.size
    · have hc1 : c ≠ w.boards.size := fun e => hac (ha1.trans e.symm)
      have hclt := hD.act_lt c dc (hact c dc hc hc1)
      rw [ha1, chainIdx_newBoard_new hw, chainIdx_newBoard_old hw _ _ _ _ _ hclt]
      intro j hj
      have hj' : j = w.nodes.size := by
        have := List.mem_of_mem_take hj
        simpa using this
      subst hj'
      intro hm
      have := mem_chain_lt hw hclt hm
      omega
    · have halt := hD.act_lt a da (hact a da ha ha1)
      rw [chainIdx_newBoard_old hw _ _ _ _ _ halt]
      by_cases hc1 : c = w.boards.size
      · rw [hc1, chainIdx_newBoard_new hw]
        intro j hj
        have := mem_chain_lt hw halt (List.mem_of_mem_take hj)
        simp only [List.mem_singleton]
        omega
      · have hclt := hD.act_lt c dc (hact c dc hc hc1)
        rw [chainIdx_newBoard_old hw _ _ _ _ _ hclt]
        exact hD.sep a c da dc (hact a da ha ha1) (hact c dc hc hc1) hac

theorem separated_none (w : World) : Separated w (fun _ => none) :=
  ⟨fun _ _ h => (nomatch h), fun _ _ _ _ h => (nomatch h)⟩

end Morlock.Proofs.Arena
