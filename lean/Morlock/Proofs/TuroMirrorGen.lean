import Morlock.Proofs.TuroMirrorPos
/-!
# The move generator commutes with the colour mirror, bit for bit

`pseudo_mirror`: under `MP p q` (and at most one king bit of the colour), `q.pseudoLegalMoves c.opp` is a permutation
of the mirror images of `p.pseudoLegalMoves c` - for EITHER colour, whatever the en-passant target and whoever is in check
(the generator never asks whose turn it is). `pseudo_ok`: what every generated move satisfies (`GenOK`).
-/
namespace Morlock.Proofs.TuroMirror
open Morlock Morlock.Model Morlock.Proofs.Gen Morlock.Proofs.Attack Morlock.Proofs.Mirror

local notation "ms" => Spec.mirrorSq

/-! ## `emitMove`, `emitPromo` -/

theorem emitMove_mirror {p q : Position} (h : MP p q) (c : Color) (t : MoveType) (piece : Piece) {fr : Nat}
    {ab ab' : Nat} (hab : MB ab ab') :
    (q.emitMove c.opp t piece (ms fr) ab').Perm ((p.emitMove c t piece fr ab).map mm) := by
  unfold Position.emitMove
  rw [List.map_map]
  have h1 := (hab.toSquares).map (fun to =>
    ({ ty := t, piece := piece, «from» := ms fr, to := to, capture := (if t = .capture then q.captureAt to c.opp else .none) } : Move))
  rw [List.map_map] at h1
  refine h1.trans (List.Perm.of_eq ?_)
  apply List.map_congr_left
  intro to hto
  have l := toSquares_lt hab.lx hto
  simp only [Function.comp, mm]
  rw [captureAt_mirror h c l]

theorem emitPromo_mirror {p q : Position} (h : MP p q) (c : Color) (t : MoveType) (piece : Piece) {fr : Nat}
    {ab ab' : Nat} (hab : MB ab ab') :
    (q.emitPromo c.opp t piece (ms fr) ab').Perm ((p.emitPromo c t piece fr ab).map mm) := by
  unfold Position.emitPromo
  apply flatMap_mirror hab.toSquares
  intro to hto
  have l := toSquares_lt hab.lx hto
  refine List.Perm.of_eq ?_
  simp only [List.map_map]
  rw [captureAt_mirror h c l]
  apply List.map_congr_left
  intro pc _
  rfl

/-! ## the three parts of the generator -/

theorem genSteps_mirror {p q : Position} (h : MP p q) (c : Color) (piece : Piece) {fr : Nat} (hf : fr < 64) :
    (genSteps q c.opp piece (ms fr)).Perm ((genSteps p c piece fr).map mm) := by
  unfold genSteps
  have hab := (attackboard_MB h.rp h.rq h.occ hf piece).and (h.pc c .none).not64
  have hopp := h.pc c.opp .none
  simp only [List.map_append]
  exact (emitMove_mirror h c .normal piece (hab.and hopp.not64)).append
    (emitMove_mirror h c .capture piece (hab.and hopp))

theorem genOfficers_mirror {p q : Position} (h : MP p q) (c : Color) :
    (genOfficers q c.opp).Perm ((genOfficers p c).map mm) := by
  unfold genOfficers
  rw [List.map_flatMap]
  apply perm_flatMap_left
  intro piece _
  exact flatMap_mirror (h.pc c piece).toSquares
    (fun fr hfr => genSteps_mirror h c piece (toSquares_lt (h.pc c piece).lx hfr))

theorem genPawn_mirror {p q : Position} (h : MP p q) (c : Color) {fr : Nat} (hf : fr < 64) :
    (genPawn q c.opp (ms fr)).Perm ((genPawn p c fr).map mm) := by
  unfold genPawn
  have mask := (h.pc c .none).not64
  have caps := h.pc c.opp .none
  have org := MB.bitMask hf
  have cb := (org.pawnCapture c).and mask
  have pb := h.occ.pawnMove org c
  have jb := (h.occ.pawnMove pb c).and (jumpRank_MB c)
  have pr := promoRank_MB c
  simp only [List.map_append]
  have e6 : (if q.enpassant != 0 then q.emitMove c.opp .enPassant .pawn (ms fr)
        (pawnCaptureboard c.opp (bitMask (ms fr)) &&& not64 (q.pieces c.opp .none) &&& bitMask q.enpassant) else []).Perm
      ((if p.enpassant != 0 then p.emitMove c .enPassant .pawn fr
        (pawnCaptureboard c (bitMask fr) &&& not64 (p.pieces c .none) &&& bitMask p.enpassant) else []).map mm) := by
    by_cases hep : p.enpassant = 0
    · have hq := h.ep0 hep
      simp [hep, hq]
    · obtain ⟨e, ne, _⟩ := h.ep1 hep
      have n1 : (p.enpassant != 0) = true := by rw [bne_iff_ne]; exact hep
      have n2 : (q.enpassant != 0) = true := by rw [bne_iff_ne]; exact ne
      rw [if_pos n1, if_pos n2, e]
      exact emitMove_mirror h c .enPassant .pawn (cb.and (MB.bitMask h.epl))
  exact (((((emitMove_mirror h c .capture .pawn ((cb.and caps).andNot pr)).append
    (emitMove_mirror h c .push .pawn (pb.andNot pr))).append
    (emitMove_mirror h c .jump .pawn jb)).append
    (emitPromo_mirror h c .capturePromotion .pawn ((cb.and caps).and pr))).append
    (emitPromo_mirror h c .promotion .pawn (pb.and pr))).append e6

theorem genPawns_mirror {p q : Position} (h : MP p q) (c : Color) :
    (genPawns q c.opp).Perm ((genPawns p c).map mm) := by
  unfold genPawns
  exact flatMap_mirror (h.pc c .pawn).toSquares
    (fun fr hfr => genPawn_mirror h c (toSquares_lt (h.pc c .pawn).lx hfr))

theorem genCastle_mirror {p q : Position} (h : MP p q) (c : Color) {fr : Nat}
    {right right' : Nat} {cmask cmask' : List Nat} {rookSq to : Nat}
    (hr : (q.castling &&& right' != 0) = (p.castling &&& right != 0))
    (hm : MB (Position.maskOf cmask) (Position.maskOf cmask')) (hrook : rookSq < 64) (hto : to < 64) (t : MoveType) :
    (genCastle q c.opp (ms fr) right' cmask' (ms rookSq) t (ms to)).Perm
      ((genCastle p c fr right cmask rookSq t to).map mm) := by
  unfold genCastle
  rw [hr, (hm.and h.occ).beq_zero, ((h.pc c .rook).and (MB.bitMask hrook)).bne_zero]
  split
  · exact emitMove_mirror h c t .king (MB.bitMask hto)
  · simp

theorem maskOf_MB :
    MB (Position.maskOf Gen.whiteKingSideCastlingMask) (Position.maskOf Gen.blackKingSideCastlingMask) ∧
    MB (Position.maskOf Gen.whiteQueenSideCastlingMask) (Position.maskOf Gen.blackQueenSideCastlingMask) ∧
    MB (Position.maskOf Gen.blackKingSideCastlingMask) (Position.maskOf Gen.whiteKingSideCastlingMask) ∧
    MB (Position.maskOf Gen.blackQueenSideCastlingMask) (Position.maskOf Gen.whiteQueenSideCastlingMask) := by
  have a : MB (Position.maskOf Gen.whiteKingSideCastlingMask) (Position.maskOf Gen.blackKingSideCastlingMask) :=
    ⟨by decide +kernel, by decide +kernel, by decide +kernel⟩
  have b : MB (Position.maskOf Gen.whiteQueenSideCastlingMask) (Position.maskOf Gen.blackQueenSideCastlingMask) :=
    ⟨by decide +kernel, by decide +kernel, by decide +kernel⟩
  exact ⟨a, b, a.symm, b.symm⟩

theorem genCastles_mirror {p q : Position} (h : MP p q) (c : Color) {fr : Nat} :
    (genCastles q c.opp (ms fr)).Perm ((genCastles p c fr).map mm) := by
  obtain ⟨m1, m2, m3, m4⟩ := maskOf_MB
  obtain ⟨_, _, c3, c4, c5, c6, _, _, _, _, c11, c12, c13, c14⟩ := ms_consts
  cases c
  · show (genCastle q .black (ms fr) bK Gen.blackKingSideCastlingMask H8 .kingSideCastle G8 ++
      genCastle q .black (ms fr) bQ Gen.blackQueenSideCastlingMask A8 .queenSideCastle C8).Perm
      ((genCastle p .white fr wK Gen.whiteKingSideCastlingMask H1 .kingSideCastle G1 ++
      genCastle p .white fr wQ Gen.whiteQueenSideCastlingMask A1 .queenSideCastle C1).map mm)
    rw [List.map_append, ← c3, ← c5, ← c11, ← c13]
    exact (genCastle_mirror h .white h.bk m1 (by decide) (by decide) _).append
      (genCastle_mirror h .white h.bq m2 (by decide) (by decide) _)
  · show (genCastle q .white (ms fr) wK Gen.whiteKingSideCastlingMask H1 .kingSideCastle G1 ++
      genCastle q .white (ms fr) wQ Gen.whiteQueenSideCastlingMask A1 .queenSideCastle C1).Perm
      ((genCastle p .black fr bK Gen.blackKingSideCastlingMask H8 .kingSideCastle G8 ++
      genCastle p .black fr bQ Gen.blackQueenSideCastlingMask A8 .queenSideCastle C8).map mm)
    rw [List.map_append, ← c4, ← c6, ← c12, ← c14]
    exact (genCastle_mirror h .black h.wk m3 (by decide) (by decide) _).append
      (genCastle_mirror h .black h.wq m4 (by decide) (by decide) _)

theorem genKing_mirror {p q : Position} (h : MP p q) (c : Color) (ho : One (p.pieces c .king)) :
    (genKing q c.opp).Perm ((genKing p c).map mm) := by
  unfold genKing
  by_cases hk : p.pieces c .king = 0
  · have hq := (h.pc c .king).eq_zero_iff.mpr hk
    rw [if_pos hk, if_pos hq]
    simp
  · have hq : q.pieces c.opp .king ≠ 0 := fun e => hk ((h.pc c .king).eq_zero_iff.mp e)
    obtain ⟨e, lt⟩ := (h.pc c .king).lastPop ho hk
    rw [if_neg hk, if_neg hq, e, List.map_append]
    exact (genSteps_mirror h c .king lt).append (genCastles_mirror h c)

/-- **the generated moves of the other colour on the mirror image are the mirror images of the generated moves** -/
theorem pseudo_mirror {p q : Position} (h : MP p q) (c : Color) (ho : One (p.pieces c .king)) :
    (q.pseudoLegalMoves c.opp).Perm ((p.pseudoLegalMoves c).map mm) := by
  rw [pseudoLegalMoves_eq, pseudoLegalMoves_eq, List.map_append, List.map_append]
  exact ((genOfficers_mirror h c).append (genPawns_mirror h c)).append (genKing_mirror h c ho)

/-! ## what a generated move looks like -/

/-- facts about a move generated for colour `c` in `p` -/
structure GenOK (p : Position) (c : Color) (m : Move) : Prop where
  ok : MoveOK m
  promo : m.isPromotion = true → m.promotion ∈ Position.promoPieces
  cap : m.isCapture = true → m.capture = p.captureAt m.to c ∧ (p.pieces c.opp .none).testBit m.to = true
  fromBit : (p.pieces c m.piece).testBit m.from = true
  pne : m.piece ≠ .none

/-- the board-size facts `pseudo_ok` needs -/
structure Sized (p : Position) : Prop where
  pl : ∀ c k, p.pieces c k < 2 ^ 64
  epl : p.enpassant < 64
  epr : p.enpassant ≠ 0 → sqRank p.enpassant = 2 ∨ sqRank p.enpassant = 5

theorem MP.sized {p q : Position} (h : MP p q) : Sized p :=
  ⟨fun c k => (h.pc c k).lx, h.epl, fun hne => (h.ep1 hne).2.2⟩

theorem ok_emit {p : Position} {c : Color} {t : MoveType} {piece : Piece} {fr ab : Nat} {m : Move} (hab : ab < 2 ^ 64)
    (hm : m ∈ p.emitMove c t piece fr ab) :
    ab.testBit m.to = true ∧ m.to < 64 ∧ m.ty = t ∧ m.piece = piece ∧ m.from = fr ∧ m.promotion = .none ∧
      m.capture = (if t = .capture then p.captureAt m.to c else .none) := by
  obtain ⟨a, b, c', d, e, f⟩ := (mem_emitMove hab m).mp hm
  exact ⟨a, lt_of_testBit hab a, b, c', d, e, f⟩

/-- a move of a type without special conditions -/
theorem genOK_simple {p : Position} {c : Color} {m : Move} {t : MoveType} (hty : m.ty = t) (hnj : t ≠ .jump)
    (hne : t ≠ .enPassant) (hnp : t ≠ .promotion) (hncp : t ≠ .capturePromotion) (hf : m.from < 64) (ht : m.to < 64)
    (hbit : (p.pieces c m.piece).testBit m.from = true) (hpne : m.piece ≠ .none)
    (hcap : t = .capture → m.capture = p.captureAt m.to c ∧ (p.pieces c.opp .none).testBit m.to = true) :
    GenOK p c m := by
  refine ⟨⟨hf, ht, fun e => absurd (hty.symm.trans e) hnj, fun e => absurd (hty.symm.trans e) hne⟩, ?_, ?_, hbit, hpne⟩
  · intro hp
    unfold Move.isPromotion at hp
    rw [hty] at hp
    simp [hnp, hncp] at hp
  · intro hc
    unfold Move.isCapture at hc
    rw [hty] at hc
    simp only [Bool.or_eq_true, decide_eq_true_eq, hncp, false_or] at hc
    exact hcap hc

theorem genSteps_ok {p : Position} (hs : Sized p) {c : Color} {piece : Piece} {fr : Nat} (hf : fr < 64)
    (hbit : (p.pieces c piece).testBit fr = true) (hpne : piece ≠ .none) {m : Move} (hm : m ∈ genSteps p c piece fr) :
    GenOK p c m := by
  unfold genSteps at hm
  rw [List.mem_append] at hm
  rcases hm with hm | hm
  · obtain ⟨_, b, c', d, e, _, _⟩ := ok_emit (and_lt_right _ (not64_lt _)) hm
    exact genOK_simple c' (by decide) (by decide) (by decide) (by decide) (e ▸ hf) b (by rw [d, e]; exact hbit)
      (d ▸ hpne) (fun x => by cases x)
  · obtain ⟨a, b, c', d, e, _, g⟩ := ok_emit (and_lt_right _ (hs.pl _ _)) hm
    rw [Nat.testBit_and] at a
    simp only [Bool.and_eq_true] at a
    exact genOK_simple c' (by decide) (by decide) (by decide) (by decide) (e ▸ hf) b (by rw [d, e]; exact hbit)
      (d ▸ hpne) (fun _ => ⟨by rw [g]; rfl, a.2⟩)

theorem genOfficers_ok {p : Position} (hs : Sized p) {c : Color} {m : Move} (hm : m ∈ genOfficers p c) : GenOK p c m := by
  unfold genOfficers at hm
  obtain ⟨piece, hp, hm⟩ := List.mem_flatMap.mp hm
  obtain ⟨fr, hfr, hm⟩ := List.mem_flatMap.mp hm
  have hbit := (mem_toSquares (hs.pl c piece) fr).mp hfr
  exact genSteps_ok hs (toSquares_lt (hs.pl c piece) hfr) hbit (ne_none_of_mem_promoPieces hp) hm

theorem genPawn_ok {p : Position} (hs : Sized p) {c : Color} {fr : Nat} (hf : fr < 64)
    (hbit : (p.pieces c .pawn).testBit fr = true) {m : Move} (hm : m ∈ genPawn p c fr) : GenOK p c m := by
  unfold genPawn at hm
  simp only [List.mem_append] at hm
  have hcb : pawnCaptureboard c (bitMask fr) &&& not64 (p.pieces c .none) < 2 ^ 64 := and_lt_right _ (not64_lt _)
  have hpush : pawnMoveboard p.rotated.rot c (bitMask fr) < 2 ^ 64 := by
    cases c <;> exact and_lt_right _ (not64_lt _)
  have hjump : pawnMoveboard p.rotated.rot c (pawnMoveboard p.rotated.rot c (bitMask fr)) &&& pawnJumpRank c < 2 ^ 64 := by
    apply and_lt_left
    cases c <;> exact and_lt_right _ (not64_lt _)
  rcases hm with ((((hm | hm) | hm) | hm) | hm) | hm
  · -- capture
    obtain ⟨a, b, c', d, e, _, g⟩ := ok_emit (andNot_lt _ (and_lt_left _ hcb)) hm
    rw [andNot_testBit, Nat.testBit_and] at a
    simp only [Bool.and_eq_true] at a
    exact genOK_simple c' (by decide) (by decide) (by decide) (by decide) (e ▸ hf) b (by rw [d, e]; exact hbit)
      (by rw [d]; decide) (fun _ => ⟨by rw [g]; rfl, a.1.2⟩)
  · -- push
    obtain ⟨_, b, c', d, e, _, _⟩ := ok_emit (andNot_lt _ hpush) hm
    exact genOK_simple c' (by decide) (by decide) (by decide) (by decide) (e ▸ hf) b (by rw [d, e]; exact hbit)
      (by rw [d]; decide) (fun x => by cases x)
  · -- jump
    obtain ⟨a, b, c', d, e, _, _⟩ := ok_emit hjump hm
    rw [Nat.testBit_and] at a
    simp only [Bool.and_eq_true] at a
    have hr : sqRank m.to = 3 ∨ sqRank m.to = 4 := by
      have a2 := a.2
      rw [sqRank_eq]
      cases c
      · left
        have : (bitRank 3).testBit m.to = true := a2
        rw [bitRank_testBit (by decide)] at this
        simp only [decide_eq_true_eq] at this
        omega
      · right
        have : (bitRank 4).testBit m.to = true := a2
        rw [bitRank_testBit (by decide)] at this
        simp only [decide_eq_true_eq] at this
        omega
    refine ⟨⟨e ▸ hf, b, fun _ => hr, fun x => absurd (c'.symm.trans x) (by decide)⟩, ?_, ?_, by rw [d, e]; exact hbit, by rw [d]; decide⟩
    · intro hp; unfold Move.isPromotion at hp; rw [c'] at hp; simp at hp
    · intro hc; unfold Move.isCapture at hc; rw [c'] at hc; simp at hc
  · -- capture promotion
    obtain ⟨a, c', d, e, f, g⟩ := (mem_emitPromo (and_lt_left _ (and_lt_left _ hcb)) m).mp hm
    have b := lt_of_testBit (and_lt_left _ (and_lt_left _ hcb)) a
    rw [Nat.testBit_and, Nat.testBit_and] at a
    simp only [Bool.and_eq_true] at a
    refine ⟨⟨e ▸ hf, b, fun x => absurd (c'.symm.trans x) (by decide), fun x => absurd (c'.symm.trans x) (by decide)⟩, fun _ => f,
      fun _ => ⟨by rw [g]; rfl, a.1.2⟩, by rw [d, e]; exact hbit, by rw [d]; decide⟩
  · -- promotion
    obtain ⟨a, c', d, e, f, _⟩ := (mem_emitPromo (and_lt_left _ hpush) m).mp hm
    have b := lt_of_testBit (and_lt_left _ hpush) a
    refine ⟨⟨e ▸ hf, b, fun x => absurd (c'.symm.trans x) (by decide), fun x => absurd (c'.symm.trans x) (by decide)⟩, fun _ => f,
      ?_, by rw [d, e]; exact hbit, by rw [d]; decide⟩
    intro hc; unfold Move.isCapture at hc; rw [c'] at hc; simp at hc
  · -- en passant
    split at hm
    · rename_i hep
      rw [bne_iff_ne] at hep
      obtain ⟨a, b, c', d, e, _, _⟩ := ok_emit (and_lt_left _ hcb) hm
      rw [Nat.testBit_and, bitMask_testBit hs.epl] at a
      simp only [Bool.and_eq_true, decide_eq_true_eq] at a
      refine ⟨⟨e ▸ hf, b, fun x => absurd (c'.symm.trans x) (by decide), fun _ => by rw [a.2]; exact hs.epr hep⟩, ?_, ?_,
        by rw [d, e]; exact hbit, by rw [d]; decide⟩
      · intro hp; unfold Move.isPromotion at hp; rw [c'] at hp; simp at hp
      · intro hc; unfold Move.isCapture at hc; rw [c'] at hc; simp at hc
    · cases hm

theorem genPawns_ok {p : Position} (hs : Sized p) {c : Color} {m : Move} (hm : m ∈ genPawns p c) : GenOK p c m := by
  unfold genPawns at hm
  obtain ⟨fr, hfr, hm⟩ := List.mem_flatMap.mp hm
  exact genPawn_ok hs (toSquares_lt (hs.pl c .pawn) hfr) ((mem_toSquares (hs.pl c .pawn) fr).mp hfr) hm

theorem genCastle_ok {p : Position} {c : Color} {fr : Nat} (hf : fr < 64)
    (hbit : (p.pieces c .king).testBit fr = true) {right : Nat} {cmask : List Nat} {rookSq to : Nat} {t : MoveType}
    (ht : t = .kingSideCastle ∨ t = .queenSideCastle) {m : Move}
    (hm : m ∈ genCastle p c fr right cmask rookSq t to) : GenOK p c m := by
  unfold genCastle at hm
  split at hm
  · obtain ⟨_, b, c', d, e, _, _⟩ := ok_emit (bitMask_lt_M64 _) hm
    rcases ht with rfl | rfl
    · exact genOK_simple c' (by decide) (by decide) (by decide) (by decide) (e ▸ hf) b (by rw [d, e]; exact hbit)
        (by rw [d]; decide) (fun x => by cases x)
    · exact genOK_simple c' (by decide) (by decide) (by decide) (by decide) (e ▸ hf) b (by rw [d, e]; exact hbit)
        (by rw [d]; decide) (fun x => by cases x)
  · cases hm

theorem genKing_ok {p : Position} (hs : Sized p) {c : Color} {m : Move} (hm : m ∈ genKing p c) : GenOK p c m := by
  unfold genKing at hm
  split at hm
  · cases hm
  · rename_i hk
    obtain ⟨l, hbit, _⟩ := lastPopSquare_spec hk (hs.pl c .king)
    rw [List.mem_append] at hm
    rcases hm with hm | hm
    · exact genSteps_ok hs l hbit (by decide) hm
    · unfold genCastles at hm
      cases c <;> simp only [List.mem_append] at hm <;> rcases hm with hm | hm
      · exact genCastle_ok l hbit (Or.inl rfl) hm
      · exact genCastle_ok l hbit (Or.inr rfl) hm
      · exact genCastle_ok l hbit (Or.inl rfl) hm
      · exact genCastle_ok l hbit (Or.inr rfl) hm

/-- every generated move is well formed -/
theorem pseudo_ok {p : Position} (hs : Sized p) {c : Color} {m : Move} (hm : m ∈ p.pseudoLegalMoves c) : GenOK p c m := by
  rw [pseudoLegalMoves_eq, List.mem_append, List.mem_append] at hm
  rcases hm with (hm | hm) | hm
  · exact genOfficers_ok hs hm
  · exact genPawns_ok hs hm
  · exact genKing_ok hs hm

end Morlock.Proofs.TuroMirror
