import Morlock.Proofs.AttackScan
/-!
# The eight transcribed loops as `ScanSpec`s

Each `ScanSpec` below repeats one loop of `rookRank`/`rookFile`/`bishopL`/`bishopR` (bounds, cell and
state-bit index functions, start index) together with the reference direction `(df, dr)` it walks.
That they really are the loops of the model is checked by `rfl` in `AttackGlue`.
-/
namespace Morlock.Proofs.Attack
open Morlock Morlock.Model Morlock.Spec

def specRankR (sq : Nat) : ScanSpec :=
  ⟨8, fun i => i + (sqRank sq <<< 3), fun i => i, sqFile sq + 1, 1, 0⟩
def specRankL (sq : Nat) : ScanSpec :=
  ⟨sqFile sq + 1, fun k => (sqFile sq - k) + (sqRank sq <<< 3), fun k => sqFile sq - k, 1, -1, 0⟩
def specFileD (sq : Nat) : ScanSpec :=
  ⟨8, fun i => sqFile sq + (i <<< 3), fun i => i, sqRank sq + 1, 0, 1⟩
def specFileU (sq : Nat) : ScanSpec :=
  ⟨sqRank sq + 1, fun k => sqFile sq + ((sqRank sq - k) <<< 3), fun k => sqRank sq - k, 1, 0, -1⟩
def specUL (sq : Nat) : ScanSpec :=
  ⟨Nat.min (8 - sqRank sq) (8 - sqFile sq), fun i => ((sqRank sq + i) <<< 3) + (sqFile sq + i),
    fun i => Nat.min (sqRank sq) (sqFile sq) + i, 1, 1, 1⟩
def specDR (sq : Nat) : ScanSpec :=
  ⟨Nat.min (sqRank sq) (sqFile sq) + 1, fun i => ((sqRank sq - i) <<< 3) + (sqFile sq - i),
    fun i => Nat.min (sqRank sq) (sqFile sq) - i, 1, -1, -1⟩
def specUR (sq : Nat) : ScanSpec :=
  ⟨Nat.min (8 - sqRank sq) (sqFile sq + 1), fun i => ((sqRank sq + i) <<< 3) + (sqFile sq - i),
    fun i => Nat.min (sqRank sq) (7 - sqFile sq) + i, 1, -1, 1⟩
def specDL (sq : Nat) : ScanSpec :=
  ⟨Nat.min (sqRank sq + 1) (8 - sqFile sq), fun i => ((sqRank sq - i) <<< 3) + (sqFile sq + i),
    fun i => Nat.min (sqRank sq) (7 - sqFile sq) - i, 1, 1, -1⟩

end Morlock.Proofs.Attack
