import Morlock.Proofs.DrawIrrev
/-!
# C05: the bundle of invariants of a well-played game, and its preservation

`GoodHistory z w b`: exact repetition map, faithful hashes, chained clocks, non-negative start clock, and
every step of the line good. Established by `newBoard` (with a start clock `≥ 0`), preserved by good moves,
take-backs and forks; it implies `Irreversible`.
-/
namespace Morlock.Proofs.Draw
open Morlock Morlock.Model Morlock.Model.World Morlock.Proofs Morlock.Proofs.Arena

structure GoodHistory (z : ZTable) (w : World) (b : Nat) : Prop where
  reps : RepMapOK w b
  hash : HashFaithful z w b
  clock : ClockOK w b
  root : RootClockOK w b
  line : GoodLine w b

theorem GoodHistory.irreversible {z : ZTable} {w : World} {b : Nat} (h : GoodHistory z w b) : Irreversible w b :=
  irreversible_of_good h.line h.clock h.root

theorem GoodStep.goodMove {w : World} {b : Nat} {m : Move} {q : Position}
    (h : GoodStep (w.cur b).pos (w.board b).turn m q) : GoodMove w b m :=
  ⟨⟨_, h.rep⟩, h.ok, h.mover⟩

theorem goodHistory_newBoard (w : World) (z : ZTable) (pos : Position) (turn : Color) {np : Int} (fm : Int)
    (hnp : 0 ≤ np) : GoodHistory z (w.newBoard z pos turn np fm).1 (w.newBoard z pos turn np fm).2 :=
  ⟨repMapOK_newBoard w z pos turn np fm, hashFaithful_newBoard w z pos turn np fm,
   clockOK_newBoard w z pos turn np fm, rootClockOK_newBoard w z pos turn fm hnp,
   goodLine_newBoard w z pos turn np fm⟩

theorem goodHistory_push {w w' : World} {z : ZTable} {b : Nat} {m : Move} (hz : z.enpassant 0 = 0)
    (hw : WFWorld w) (hb : b < w.boards.size) (h : w.pushMove z b m = some w') (hg : GoodHistory z w b)
    (hs : GoodStep (w.cur b).pos (w.board b).turn m (w'.cur b).pos) : GoodHistory z w' b :=
  ⟨repMapOK_push hw hb h hg.reps, hashFaithful_push_good hz hw hb h hg.hash hs.goodMove,
   clockOK_push hw hb h hg.clock, rootClockOK_push hw hb h hg.root, goodLine_push hw hb h hg.line hs⟩

theorem goodHistory_pop {w w' : World} {z : ZTable} {b : Nat} {m : Move}
    (hw : WFWorld w) (hb : b < w.boards.size) (h : w.popMove b = some (w', m)) (hg : GoodHistory z w b) :
    GoodHistory z w' b :=
  ⟨repMapOK_pop hw hb h hg.reps, hashFaithful_pop hw hb h hg.hash, clockOK_pop hw hb h hg.clock,
   rootClockOK_pop hw hb h hg.root, goodLine_pop hw hb h hg.line⟩

theorem goodHistory_fork {w : World} {z : ZTable} (hw : WFWorld w) (b : Nat) (hg : GoodHistory z w b) :
    GoodHistory z (w.fork b).1 (w.fork b).2 :=
  ⟨repMapOK_fork hw b hg.reps, hashFaithful_fork hw b hg.hash, clockOK_fork hw b hg.clock,
   rootClockOK_fork hw b hg.root, goodLine_fork hw b hg.line⟩

/-- The step taken by an accepted move is good as soon as the move is: the new position is then the one
`Position.move` computed. -/
theorem goodStep_of_push {w w' : World} {z : ZTable} {b : Nat} {m : Move} (hw : WFWorld w) (hb : b < w.boards.size)
    (h : w.pushMove z b m = some w') (hrep : Rep (w.cur b).pos (w.cur b).pos.square)
    (hok : MetaOK (w.cur b).pos m = true) (hmv : ∃ pc, (w.cur b).pos.square m.from = some ((w.board b).turn, pc))
    (hs : MoveSound (w.cur b).pos.square m = true) :
    GoodStep (w.cur b).pos (w.board b).turn m (w'.cur b).pos :=
  ⟨hrep, hok, hmv, hs, (push_line hw hb h).2.2.2.1⟩

end Morlock.Proofs.Draw
