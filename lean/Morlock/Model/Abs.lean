import Morlock.Model.Position
import Morlock.Spec.Chess
/-!
# Abstraction from the bitboard position to the mailbox position

`abs` reads the model position through `square`, exactly as `fen.Encode` and `ZobristTable.Hash` do.
-/
namespace Morlock.Model
open Morlock

def absColor : Color → Spec.Color
  | .white => .white
  | .black => .black

def absKind : Piece → Option Spec.Kind
  | .pawn => some .pawn | .bishop => some .bishop | .knight => some .knight
  | .rook => some .rook | .queen => some .queen | .king => some .king | .none => none

def kindPiece : Spec.Kind → Piece
  | .pawn => .pawn | .bishop => .bishop | .knight => .knight | .rook => .rook | .queen => .queen | .king => .king

def absCell (p : Position) (sq : Nat) : Option (Spec.Color × Spec.Kind) :=
  match p.square sq with
  | some (c, k) => (absKind k).map fun k' => (absColor c, k')
  | none => none

def abs (p : Position) (turn : Color) : Spec.Pos :=
  { board := ((List.range 64).map (absCell p)).toArray
    turn := absColor turn
    wk := p.castling &&& wK != 0
    wq := p.castling &&& wQ != 0
    bk := p.castling &&& bK != 0
    bq := p.castling &&& bQ != 0
    ep := if p.enpassant = 0 then none else some p.enpassant }

def absMove (m : Move) : Spec.SMove :=
  { «from» := m.from, to := m.to, promo := absKind m.promotion }

end Morlock.Model
