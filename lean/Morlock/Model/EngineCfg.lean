/-!
# The configuration side of `engine.Engine` (pkg/engine/engine.go)

What the user sets (`SetDepth`, `SetHash`, `SetNoise`), what a game is started with (`Reset`: a table of its own - or none -,
the noise limit, a search counter), and what a launched search is given (`Analyze`: the depth limit asked for or else the
configured one, the game's table, a noise source of its own). The position side of the engine is `Model/EngineM.lean`.

Transcribed field by field; tables are represented by the number of the reset that created them (a fresh object each time).
-/
namespace Morlock.Model.EngineCfg

structure Opts where
  depth : Nat
  hash : Nat
  noise : Nat
deriving Repr, DecidableEq, Inhabited

structure Cfg where
  opts : Opts
  /-- the table of the current game: `none` = `NoTranspositionTable{}`, `some g` = the table the `g`-th reset created -/
  table : Option Nat
  /-- its size in bytes (`Hash << 20`), 0 without a table -/
  bytes : Nat
  /-- noise limit of the current game -/
  noise : Nat
  /-- searches launched in the current game -/
  searches : Nat
  /-- resets so far (the next table is number `resets + 1`) -/
  resets : Nat
  active : Bool
deriving Repr, DecidableEq, Inhabited

inductive Op
  | setDepth (n : Nat)
  | setHash (n : Nat)
  | setNoise (n : Nat)
  /-- `Reset`; `ok` = the FEN decodes -/
  | reset (ok : Bool)
  /-- `Move`; `parses` = `ParseMove` accepts the text (only then is an active search halted) -/
  | move (parses : Bool)
  | takeBack
  | analyze (limit : Option Nat)
  | halt
deriving Repr, DecidableEq

/-- What `Launcher.Launch` is handed. -/
structure Launch where
  /-- 0 = no limit -/
  depthLimit : Nat
  table : Option Nat
  bytes : Nat
  /-- `none` = `eval.Random{}`; `some (limit, k)` = `eval.NewRandom(limit, seed + k)` -/
  noise : Option (Nat × Nat)
deriving Repr, DecidableEq

inductive Out
  | done
  | error
  | launched (l : Launch)
deriving Repr, DecidableEq

/-- `Reset` on the options in force. -/
def startGame (c : Cfg) : Cfg :=
  { c with
    table := if c.opts.hash > 0 then some (c.resets + 1) else none
    bytes := if c.opts.hash > 0 then c.opts.hash <<< 20 else 0
    noise := c.opts.noise
    searches := 0
    resets := c.resets + 1
    active := false }

/-- `engine.New`: the options given, then a `Reset` to the initial position. -/
def new (o : Opts) : Cfg :=
  startGame { opts := o, table := none, bytes := 0, noise := 0, searches := 0, resets := 0, active := false }

def step (c : Cfg) : Op → Cfg × Out
  | .setDepth n => ({ c with opts := { c.opts with depth := n } }, .done)
  | .setHash n => ({ c with opts := { c.opts with hash := n } }, .done)
  | .setNoise n => ({ c with opts := { c.opts with noise := n } }, .done)
  | .reset true => (startGame c, .done)
  | .reset false => ({ c with active := false }, .error)     -- the running search is halted before the FEN is looked at
  | .move true => ({ c with active := false }, .done)
  | .move false => (c, .error)
  | .takeBack => ({ c with active := false }, .done)
  | .analyze lim =>
    if c.active then (c, .error) else
    let searches := if c.noise > 0 then c.searches + 1 else c.searches
    ({ c with searches := searches, active := true },
     .launched { depthLimit := lim.getD c.opts.depth, table := c.table, bytes := c.bytes,
                 noise := if c.noise > 0 then some (c.noise, searches) else none })
  | .halt => if c.active then ({ c with active := false }, .done) else (c, .error)

def run (c : Cfg) : List Op → Cfg × List Out
  | [] => (c, [])
  | op :: ops =>
    let (c', o) := step c op
    let (c'', os) := run c' ops
    (c'', o :: os)

end Morlock.Model.EngineCfg
