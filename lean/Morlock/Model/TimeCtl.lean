import Morlock.Basic
/-!
# Model of `TimeControl.Limits` (`pkg/search/searchctl/timectrl.go`)

`time.Duration` is an `int64` of nanoseconds: multiplication wraps, division truncates towards zero.
-/
namespace Morlock.Model

/-- `TimeControl.Limits`: `(soft, hard)` for the clock `remainder` and `t.Moves = moves`. -/
def limits (remainder moves : Int) : Int × Int :=
  let m : Int := if moves > 0 then wrap64 (moves + 1) else 40
  let den := wrap64 (2 * m)
  let soft := if den = 0 then 0 else wrap64 (Int.tdiv remainder den)   -- den = 0 would panic in Go; unreachable for moves < 2^62
  (soft, wrap64 (3 * soft))

end Morlock.Model
