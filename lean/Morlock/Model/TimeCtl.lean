import Morlock.Basic
import Morlock.Gen.Facts
/-!
# Model of `TimeControl.Limits` (`pkg/search/searchctl/timectrl.go`)

`time.Duration` is an `int64` of nanoseconds: multiplication wraps, division truncates towards zero.
-/
namespace Morlock.Model

/-- `TimeControl.Limits`: `(soft, hard)` for the clock `remainder` and `t.Moves = moves` (every operation in `int64`:
`moves + 1`, the two divisions, `3 * soft`). `remainder / moves / 2`: the first divisor is `Moves + 1` (wrapped: in `[2, 2^63)` or,
for `Moves = 2^63 - 1`, `-2^63`), never `0` or `-1`, so neither division can panic. The number of moves assumed when none is given is read from the source
(`Gen.defaultHorizon`, regenerated on every run; `C15Limits.horizon_ok` re-checks that it is in `[2, 2^62)`). -/
def limits (remainder moves : Int) : Int × Int :=
  let m : Int := if moves > 0 then wrap64 (moves + 1) else Gen.defaultHorizon
  let soft := wrap64 (Int.tdiv (wrap64 (Int.tdiv remainder m)) 2)
  (soft, wrap64 (3 * soft))

end Morlock.Model
