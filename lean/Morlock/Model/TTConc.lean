import Morlock.Model.TT
/-!
# Small-step concurrent model of `pkg/search/transposition.go` (`table.Read` / `table.Write`)

Any number of threads, any number of slots. One *step* of a thread is one access to shared memory
(atomic pointer load, CAS, `atomic.Uint64.Add`) or one thread-local action (allocating the fresh node,
comparing `val`s). A schedule is a list of thread indices; `run` folds `step` over it; a step of a
thread that has nothing left to do (or of an index that is not a thread) is a no-op.

Transcription of `Write(h, payload, val)`:

* `call` (local): `fresh := &node{…}` — a new allocation, modelled by a globally fresh `id`
  (`nextId`), so pointer comparison is comparison of ids; goto `w0`.
* `w0`: `ptr := atomic.LoadPointer(&slot[h % n])`; goto `w1`.
* `w1` (local): `if val(ptr) > val(fresh) { return false }`; else goto `w2`.
* `w2`: `if CAS(&slot, ptr, fresh)` then (`if ptr == nil` goto `w3` else `return true`) else goto `w0`
  (the reload is a separate shared access, hence a separate step).
* `w3`: `t.used.Add(1)` (ONE atomic step); `return true`.
  With `atomicAdd = false` (the pre-repair code `t.used++`) it is split in two steps
  `w3: tmp := used` and `w3b: used := tmp + 1`.

`Read(h)` is one step: `r0: ptr := load slot[h % n]; return ptr if ptr ≠ nil ∧ ptr.hash = h`.

Nodes are immutable once allocated (Go never writes to a published `*node`), so a node is a value
`(id, hash, payload, val)`. The payload type `π` is abstract; `Call.ofOp` instantiates it with
`Morlock.Model.TTEntry` to relate the model to the sequential `Model/TT.lean`.

Ghost state: `trace` records, newest first, every successful CAS and every return of a call.
-/
namespace Morlock.Model.TTConc

/-- An allocated (immutable) table node. `id` is the identity of the allocation (the Go pointer). -/
structure Node (π : Type) where
  id : Nat
  hash : Nat
  payload : π
  val : Nat
deriving DecidableEq, Repr

/-- One call of the table API made by a thread. -/
inductive Call (π : Type) where
  | write (hash : Nat) (payload : π) (val : Nat)
  | read (hash : Nat)
deriving DecidableEq, Repr

/-- Program counter of a thread, carrying the call's local variables (`fresh`, `ptr`, `tmp`). -/
inductive Pc (π : Type) where
  /-- between calls: the next step starts the head of `calls` -/
  | call
  | w0 (fresh : Node π)
  | w1 (fresh : Node π) (ptr : Option (Node π))
  | w2 (fresh : Node π) (ptr : Option (Node π))
  | w3 (fresh : Node π)
  | w3b (fresh : Node π) (tmp : Nat)
deriving DecidableEq, Repr

/-- Ghost events (newest first in `State.trace`). -/
inductive Event (π : Type) where
  /-- thread `tid` CASed slot `slot` from `old` to `new` -/
  | cas (tid slot : Nat) (old : Option (Node π)) (new : Node π)
  /-- `Write` returned `ok` -/
  | writeRet (tid : Nat) (hash : Nat) (payload : π) (val : Nat) (ok : Bool)
  /-- `Read(hash)` returned `res` (`none` = not found) -/
  | readRet (tid : Nat) (hash : Nat) (res : Option (Node π))
deriving DecidableEq, Repr

structure Thread (π : Type) where
  pc : Pc π := .call
  /-- calls still to make; the head is the call in progress when `pc ≠ .call` -/
  calls : List (Call π)
deriving DecidableEq, Repr

structure State (π : Type) where
  slots : List (Option (Node π))
  used : Nat := 0
  nextId : Nat := 0
  threads : List (Thread π)
  trace : List (Event π) := []
deriving DecidableEq, Repr

variable {π : Type}

/-- `val(ptr)`, 0 for nil. -/
def valOf : Option (Node π) → Nat
  | none => 0
  | some n => n.val

/-- pointer comparison: identity of allocations -/
def samePtr (a b : Option (Node π)) : Bool := a.map (·.id) == b.map (·.id)

def slotAt (s : State π) (k : Nat) : Option (Node π) := s.slots.getD k none

/-- index of the slot for a hash (`hash & mask`, `n` a power of two in Go; any `n > 0` here) -/
def key (s : State π) (hash : Nat) : Nat := hash % s.slots.length

/-- the thread pops its current call and goes back to `call` -/
def Thread.ret (t : Thread π) : Thread π := { pc := .call, calls := t.calls.tail }

/-- result of `Read(hash)` given the loaded pointer -/
def readResult (ptr : Option (Node π)) (hash : Nat) : Option (Node π) :=
  match ptr with
  | some n => if n.hash = hash then some n else none
  | none => none

/-- the CAS of `w2` succeeds: the slot still holds the pointer loaded at `w0` -/
def casOk (s : State π) (fresh : Node π) (ptr : Option (Node π)) : Bool :=
  samePtr (slotAt s (key s fresh.hash)) ptr

/-- effect of a successful CAS by thread `i` -/
def publish (s : State π) (i : Nat) (fresh : Node π) : State π :=
  { s with slots := s.slots.set (key s fresh.hash) (some fresh),
           trace := .cas i (key s fresh.hash) (slotAt s (key s fresh.hash)) fresh :: s.trace }

/-- log the return of `Write` -/
def logWrite (s : State π) (i : Nat) (fresh : Node π) (ok : Bool) : State π :=
  { s with trace := .writeRet i fresh.hash fresh.payload fresh.val ok :: s.trace }

/-- One step of thread `t` (index `i`) against the shared state. Returns the new shared state
(with `threads` untouched) and the new thread. -/
def stepT (atomicAdd : Bool) (s : State π) (i : Nat) (t : Thread π) : State π × Thread π :=
  match t.pc with
  | .call =>
    match t.calls with
    | [] => (s, t)
    | .read h :: _ =>
      ({ s with trace := .readRet i h (readResult (slotAt s (key s h)) h) :: s.trace }, t.ret)
    | .write h p v :: _ =>
      ({ s with nextId := s.nextId + 1 }, { t with pc := .w0 ⟨s.nextId, h, p, v⟩ })
  | .w0 fresh => (s, { t with pc := .w1 fresh (slotAt s (key s fresh.hash)) })
  | .w1 fresh ptr =>
    if valOf ptr > fresh.val then (logWrite s i fresh false, t.ret)
    else (s, { t with pc := .w2 fresh ptr })
  | .w2 fresh ptr =>
    if casOk s fresh ptr then
      if ptr.isNone then (publish s i fresh, { t with pc := .w3 fresh })
      else (logWrite (publish s i fresh) i fresh true, t.ret)
    else (s, { t with pc := .w0 fresh })
  | .w3 fresh =>
    if atomicAdd then (logWrite { s with used := s.used + 1 } i fresh true, t.ret)
    else (s, { t with pc := .w3b fresh s.used })
  | .w3b fresh tmp => (logWrite { s with used := tmp + 1 } i fresh true, t.ret)

/-- Thread `i` takes one step (no-op if `i` is not a thread). -/
def stepWith (atomicAdd : Bool) (s : State π) (i : Nat) : State π :=
  match s.threads[i]? with
  | none => s
  | some t =>
    let r := stepT atomicAdd s i t
    { r.1 with threads := s.threads.set i r.2 }

/-- The repaired code: `used.Add(1)` is one atomic step. -/
def step (s : State π) (i : Nat) : State π := stepWith true s i

/-- Run a schedule. -/
def run (s : State π) (sched : List Nat) : State π := sched.foldl step s

/-- The pre-repair code: `used++` is a load and a store. -/
def runSplit (s : State π) (sched : List Nat) : State π := sched.foldl (stepWith false) s

/-- number of occupied slots -/
def occupied (s : State π) : Nat := s.slots.countP (·.isSome)

def Pc.isW3 : Pc π → Bool
  | .w3 _ => true
  | _ => false

/-- number of threads that have published into an empty slot and not yet incremented `used` -/
def pendingAdds (s : State π) : Nat := s.threads.countP (·.pc.isW3)

/-- initial state: `n` empty slots, each thread about to start its list of calls -/
def init (n : Nat) (progs : List (List (Call π))) : State π :=
  { slots := List.replicate n none, threads := progs.map (fun cs => { calls := cs }) }

/-- no thread can take a step that changes anything: all calls have returned -/
def Quiescent (s : State π) : Prop := ∀ t ∈ s.threads, t.pc = .call ∧ t.calls = []

/-- every thread is between calls -/
def AllIdle (s : State π) : Prop := ∀ t ∈ s.threads, t.pc = .call

/-! ## Link to the sequential model `Model/TT.lean` -/

/-- A call of the sequential API with its Go arguments. -/
inductive Op where
  | write (hash : Nat) (bound : Nat) (ply depth : Int) (score : Score) (m : Move)
  | read (hash : Nat)

/-- the `fresh` node `Write` builds from its arguments -/
def Op.entry (hash : Nat) (bound : Nat) (ply depth : Int) (score : Score) (m : Move) : TTEntry :=
  { hash := hash, score := score, bound := bound, «from» := m.from, to := m.to,
    promotion := m.promotion, ply := u16 ply, depth := u16 depth }

def Call.ofOp : Op → Call TTEntry
  | .write hash bound ply depth score m =>
    let e := Op.entry hash bound ply depth score m
    .write hash e (TTState.val (some e))
  | .read hash => .read hash

/-- the sequential table a concurrent state stands for (fields modelled: slots, used; `minDepth = 0`,
i.e. the bare `table` without the `WriteLimited` wrapper) -/
def absState (s : State TTEntry) : TTState :=
  { slots := (s.slots.map (Option.map (·.payload))).toArray, used := s.used, minDepth := 0 }

/-- result of a sequential call: `Write`'s bool or `Read`'s entry -/
inductive SeqResult where
  | wrote (ok : Bool)
  | found (e : Option TTEntry)
deriving DecidableEq, Repr

/-- run one call on the sequential model -/
def seqCall (t : TTState) : Op → TTState × SeqResult
  | .write hash bound ply depth score m =>
    let r := t.write hash bound ply depth score m
    (r.1, .wrote r.2)
  | .read hash => (t, .found (t.read hash))

/-- what the concurrent model logged for a returned call -/
def Event.result : Event TTEntry → Option SeqResult
  | .cas .. => none
  | .writeRet _ _ _ _ ok => some (.wrote ok)
  | .readRet _ _ res => some (.found (res.map (·.payload)))

end Morlock.Model.TTConc
