import Morlock.Model.Position
/-!
# Model of `pkg/board/zobrist.go`

The table is a *parameter* (arbitrary functions): `NewZobristTable`/`math/rand` is not modelled, the
theorems hold for every table with `enpassant 0 = 0` (which `NewZobristTable` guarantees because it
only fills ranks 3 and 6).
-/
namespace Morlock.Model

structure ZTable where
  pieces : Color → Piece → Nat → Nat
  castling : Nat → Nat
  enpassant : Nat → Nat
  turn : Color → Nat

namespace ZTable

/-- `ZobristTable.Hash`. -/
def hash (z : ZTable) (pos : Position) (turn : Color) : Nat :=
  let h := (List.range 64).foldl (fun h sq =>
    match pos.square sq with
    | some (c, p) => h ^^^ z.pieces c p sq
    | none => h) 0
  let h := h ^^^ z.castling pos.castling
  let h := if pos.enpassant != 0 then h ^^^ z.enpassant pos.enpassant else h
  h ^^^ z.turn turn

/-- `ZobristTable.Move`. -/
def move (z : ZTable) (h : Nat) (pos : Position) (m : Move) : Nat :=
  let turn := match pos.square m.from with
    | some (c, _) => c
    | none => Color.white
  -- (1) undo existing metastatus
  let hash := h ^^^ z.castling pos.castling
  let hash := if pos.enpassant != 0 then hash ^^^ z.enpassant pos.enpassant else hash
  let hash := hash ^^^ z.turn turn
  -- (2) moved pieces and new status
  let hash := hash ^^^ z.pieces turn m.piece m.from
  let hash :=
    match m.ty with
    | .capture => (hash ^^^ z.pieces turn.opp m.capture m.to) ^^^ z.pieces turn m.piece m.to
    | .promotion => hash ^^^ z.pieces turn m.promotion m.to
    | .capturePromotion => (hash ^^^ z.pieces turn.opp m.capture m.to) ^^^ z.pieces turn m.promotion m.to
    | .enPassant => (hash ^^^ z.pieces turn m.piece m.to) ^^^ z.pieces turn.opp .pawn m.enPassantCapture
    | .kingSideCastle | .queenSideCastle =>
      let (rf, rt) := m.castlingRookMove
      ((hash ^^^ z.pieces turn m.piece m.to) ^^^ z.pieces turn .rook rf) ^^^ z.pieces turn .rook rt
    | _ => hash ^^^ z.pieces turn m.piece m.to
  let hash := hash ^^^ z.castling (andNot pos.castling m.castlingRightsLost)
  let hash := hash ^^^ z.enpassant m.enPassantTarget
  hash ^^^ z.turn turn.opp

end ZTable
end Morlock.Model
