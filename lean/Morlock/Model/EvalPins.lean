import Morlock.Model.Position
/-!
# Model of `pkg/eval/pins.go`

`FindPins(pos, side, piece)`: for every `piece` of `side` (the *target*), every own piece on a rook
(bishop) line next to the target is lifted from the rotated occupancy; an enemy rook/queen
(bishop/queen) that becomes visible behind it is the *attacker* of a pin. The result slice is in the
order of the Go loops: targets, then the rook-line candidates, then the bishop-line candidates, each
in `LastPopSquare` order (`toSquares` is that loop).
-/
namespace Morlock.Model
open Morlock

/-- `eval.Pin`. -/
structure Pin where
  attacker : Nat
  pinned : Nat
  target : Nat
deriving DecidableEq, Repr, Inhabited

/-- One of the two inner loops of `FindPins`: `ab` is `RookAttackboard` (`slider = Rook`) or
    `BishopAttackboard` (`slider = Bishop`). -/
def findPinsLine (pos : Position) (side : Color) (target : Nat) (ab : Rotated → Nat → Bitboard) (slider : Piece) :
    List Pin :=
  let line := ab pos.rotated target
  let pins := line &&& pos.pieces side .none
  (toSquares pins).filterMap fun pinned =>
    let attackers := pos.pieces side.opp .queen ||| pos.pieces side.opp slider
    let candidate := andNot (ab (pos.rotated.xor pinned) target) line &&& attackers
    if candidate != 0 then some { attacker := lastPopSquare candidate, pinned := pinned, target := target } else none

/-- The body of the outer loop of `FindPins` for one target square. -/
def findPinsAt (pos : Position) (side : Color) (target : Nat) : List Pin :=
  findPinsLine pos side target rookAttackboard .rook ++ findPinsLine pos side target bishopAttackboard .bishop

/-- `eval.FindPins`. -/
def findPins (pos : Position) (side : Color) (piece : Piece) : List Pin :=
  (toSquares (pos.pieces side piece)).flatMap fun target => findPinsAt pos side target

end Morlock.Model
