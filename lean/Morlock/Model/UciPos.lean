import Morlock.Model.UciSeq
/-!
# Model of the `position` / `ucinewgame` handlers of `pkg/engine/uci/uci.go`

Over `List Char`, parametric in an abstract engine `Eng E` (`Engine.Reset`, `Engine.Move`), so that
statements about *any* engine can be proved and tiny engines can be evaluated by the kernel.
`Morlock.Driver.Uci.uciPosition` is this very function instantiated with the concrete engine model
(`EngineM.reset` / `EngineM.move`), and that one is tied to the real driver by the `ucidet` stream.

Handler state: `(e, lastPosition)`. `Reset` and `Move` leave the engine as it was when they fail.

```go
case "ucinewgame": d.lastPosition = ""
case "position":
    if rest, ok := continuation(d.lastPosition, line); ok && d.extend(ctx, rest) {
        d.lastPosition = line; break
    }
    position := fen.Initial
    if len(args) >= 7 && args[0] == "fen" { position = strings.Join(args[1:7], " ") }
    if err := d.e.Reset(ctx, position); err != nil { d.lastPosition = ""; continue loop }
    move := false
    for _, arg := range args {
        if arg == "moves" { move = true; continue }
        if !move { continue }
        if err := d.e.Move(ctx, arg); err != nil { d.lastPosition = ""; continue loop }
    }
    d.lastPosition = line
```
with `args = strings.Split(strings.TrimSpace(line), " ")[1:]`. Note the two tokenisers: the new-position path splits
at single blanks (`strings.Split`), the extension path at runs of Unicode white space (`strings.Fields`, `UciSeq.fields`).
-/
namespace Morlock.Model.UciPos
open Morlock.Model Morlock.Model.UciSeq

/-- The two engine operations the handlers use. `none` = error, engine unchanged. -/
structure Eng (E : Type) where
  reset : List Char → Option E
  move : E → List Char → Option E

def kwPosition : List Char := ['p', 'o', 's', 'i', 't', 'i', 'o', 'n']
def kwStartpos : List Char := ['s', 't', 'a', 'r', 't', 'p', 'o', 's']
def kwFen : List Char := ['f', 'e', 'n']
def kwMoves : List Char := ['m', 'o', 'v', 'e', 's']

/-- `fen.Initial`. -/
def initialFen : List Char := "rnbqkbnr/pppppppp/8/8/8/8/PPPPPPPP/RNBQKBNR w KQkq - 0 1".toList

/-- `strings.Join(ws, " ")`. -/
def joinSp : List (List Char) → List Char
  | [] => []
  | [w] => w
  | w :: ws => w ++ ' ' :: joinSp ws

/-- `Driver.extend` (also the move loop of the new-position path once `move` is set): play every
    word except the literal `moves`; stop at the first failure. Returns the engine — advanced by
    the moves played so far — and whether all of them could be played. -/
def extend (eng : Eng E) : E → List (List Char) → E × Bool
  | e, [] => (e, true)
  | e, a :: as =>
    if a = kwMoves then extend eng e as else
      match eng.move e a with
      | some e' => extend eng e' as
      | none => (e, false)

/-- `args`: the words of the trimmed line after the command word. -/
def argsOf (line : List Char) : List (List Char) := (Fen.splitSpaces (Fen.trimSpace line)).drop 1

/-- The position text the new-position path resets to. -/
def fenOf (args : List (List Char)) : List Char :=
  if args.length ≥ 7 && args.head? = some kwFen then joinSp ((args.drop 1).take 6) else initialFen

/-- The words the move loop of the new-position path looks at: everything after the first `moves`. -/
def afterMoves (args : List (List Char)) : List (List Char) := (args.dropWhile (· ≠ kwMoves)).drop 1

/-- The new-position path, entered with engine `e`. -/
def fresh (eng : Eng E) (e : E) (line : List Char) : E × List Char :=
  let args := argsOf line
  match eng.reset (fenOf args) with
  | none => (e, [])
  | some e' =>
    let r := extend eng e' (afterMoves args)
    (r.1, if r.2 then line else [])

/-- The `position` handler. -/
def position (eng : Eng E) (st : E × List Char) (line : List Char) : E × List Char :=
  match continuation st.2 line with
  | some rest =>
    let r := extend eng st.1 rest
    if r.2 then (r.1, line) else fresh eng r.1 line   -- not an extension after all: set up from scratch
  | none => fresh eng st.1 line

/-- The `ucinewgame` handler. -/
def newgame (st : E × List Char) : E × List Char := (st.1, [])

/-! ## What a well-formed `position` line means -/

/-- A word: non-empty and free of white space — in the sense of `unicode.IsSpace` (`Fen.isSpace`), which is
    what `strings.Fields` (the extension path) splits at; the blank, at which `strings.Split(_, " ")` (the
    new-position path) splits, is one of them. -/
def Word (w : List Char) : Prop := w ≠ [] ∧ ∀ c ∈ w, Fen.isSpace c = false

/-- The content of a well-formed line: `fen = none` is `startpos`; `moves = []` means no `moves` part. -/
structure Cmd where
  fen : Option (List (List Char))
  moves : List (List Char)

/-- The words after `position`. -/
def Cmd.header (c : Cmd) : List (List Char) :=
  match c.fen with
  | none => [kwStartpos]
  | some fs => kwFen :: fs

def Cmd.tail (c : Cmd) : List (List Char) := if c.moves = [] then [] else kwMoves :: c.moves

def Cmd.words (c : Cmd) : List (List Char) := kwPosition :: (c.header ++ c.tail)

/-- The line: the words separated by single spaces. -/
def Cmd.render (c : Cmd) : List Char := joinSp c.words

/-- Six FEN fields and the moves are words; none of them is the literal `moves` (the handler would
    skip it resp. start the move list there). -/
def Cmd.Ok (c : Cmd) : Prop :=
  (∀ fs, c.fen = some fs → fs.length = 6 ∧ ∀ f ∈ fs, Word f ∧ f ≠ kwMoves) ∧
  (∀ m ∈ c.moves, Word m ∧ m ≠ kwMoves)

/-- `position startpos` or `position fen f1 … f6`, optionally followed by ` moves m1 … mk` (k ≥ 1),
    single spaces, no leading or trailing blanks (in the sense of `strings.TrimSpace`), every field
    and move a word, none of them `moves`. -/
def WellFormed (line : List Char) : Prop :=
  ∃ c : Cmd, c.Ok ∧ line = c.render ∧ Fen.trimSpace line = line

/-- Play the moves one after the other (`none` as soon as one is refused). -/
def play (eng : Eng E) : E → List (List Char) → Option E
  | e, [] => some e
  | e, m :: ms => (eng.move e m).bind fun e' => play eng e' ms

def denoteFrom (eng : Eng E) (fen : List Char) (tail : List (List Char)) : Option E :=
  match tail with
  | [] => eng.reset fen
  | w :: ms => if w = kwMoves ∧ ms ≠ [] then (eng.reset fen).bind fun e => play eng e ms else none

/-- The game a line describes, set up from scratch: an independent reading of the line
    (split at spaces; `position startpos [moves m+]` or `position fen f1 … f6 [moves m+]`);
    `none` if the line has another shape, the position is refused or a move is. -/
def denote (eng : Eng E) (line : List Char) : Option E :=
  match Fen.splitSpaces line with
  | p :: s :: r =>
    if p ≠ kwPosition then none
    else if s = kwStartpos then denoteFrom eng initialFen r
    else if s = kwFen ∧ r.length ≥ 6 then denoteFrom eng (joinSp (r.take 6)) (r.drop 6)
    else none
  | _ => none

def Playable (eng : Eng E) (line : List Char) : Prop := (denote eng line).isSome

instance (eng : Eng E) (line : List Char) : Decidable (Playable eng line) := by unfold Playable; infer_instance

/-! ## Command sequences -/

inductive Command where
  | newgame
  | position (line : List Char)
  deriving DecidableEq

def step (eng : Eng E) (st : E × List Char) : Command → E × List Char
  | .newgame => newgame st
  | .position line => position eng st line

def run (eng : Eng E) (st : E × List Char) (cmds : List Command) : E × List Char := cmds.foldl (step eng) st

/-- The line of the most recent `position` command (`acc` if there is none). -/
def lastLineFrom (acc : Option (List Char)) (cmds : List Command) : Option (List Char) :=
  cmds.foldl (fun acc c => match c with | .position l => some l | .newgame => acc) acc

def lastLine (cmds : List Command) : Option (List Char) := lastLineFrom none cmds

/-- An engine that never accepts the word `startpos` as a move, nor the sixth field (the move number)
    of a position text it accepts. True of the real engine (`board.ParseMove` wants `e2e4`-like text);
    only needed for robustness against *arbitrary* previous lines (`Props.C10.robust_*`). -/
structure Eng.Strict (eng : Eng E) : Prop where
  startpos : ∀ e, eng.move e kwStartpos = none
  lastField : ∀ fs f, fs.length = 5 → (eng.reset (joinSp (fs ++ [f]))).isSome → ∀ e, eng.move e f = none

end Morlock.Model.UciPos
