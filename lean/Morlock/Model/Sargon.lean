import Morlock.Model.EvalPins
import Morlock.Model.Board
import Morlock.Model.BoardGame
import Morlock.Model.Flt
/-!
# Model of `cmd/sargon/sargon`: `eval.go`, `exchange.go`, `search.go`

Function-by-function transcription. Conventions:

* A Go `*Attacker` chain (`Behind` pointers) is an `Attacker` = the front placement plus the list of the
  placements behind it (`att.Behind == nil` iff the list is empty).
* `Points.roots` (a Go `map[*board.Board]root`, one entry per board being searched) is `PointsMap`, keyed by the index of
  the board in the arena; the functions `reset`, `evaluateW` below work on one entry (`Points` = Go's `root`).
* `Pins` (a Go `map[Square][]Square`) is only ever *looked up* by key in this package, never iterated: it is
  the list of `(pinned, attacker)` pairs in insertion order, `pins[sq]` is the sub-list with key `sq`.
* `sort.Slice` is not stable by contract. Every function that sorts takes the sorter `srt` as a parameter;
  the functions without the `W` suffix use `stableSort` (insertion sort: what Go's `sort.Slice` actually runs
  for slices of at most 12 elements).
* `eval.Pawns` values that are sums and differences of small integers are carried as `Int` (every float32
  operation on integers below `2^24` is exact; the bounds are theorems in `Props/C20Sargon.lean`); the value
  of `Material` is a multiple of `1/2` and carried as an exact rational; the three rounding operations of
  `Points.Evaluate` (`mtrl*4`, `brdc/100`, the additions) are `Flt` operations on `float32`.
* Every place where the Go code could panic (`Attackboard` on a pawn, `defenders[0]`, `attackers[0]`), where
  a recursion or loop of the Go code has no a-priori bound (`addAttackerStack`, the `findSide` flattening loop,
  the `Exchange` loop), and where a float32 result could be infinite is an explicit error.
-/
namespace Morlock.Model
open Morlock
open Morlock.Model.Flt (Q f32)

namespace Sargon

/-- what can go wrong in the Go code -/
inductive SErr
  /-- a recursion / loop of the Go code did not terminate within the model's bound -/
  | fuel
  /-- `board.Attackboard` panicked ("invalid piece or Pawn") -/
  | attackboard
  /-- slice index out of range -/
  | index
  /-- a float32 operation overflowed or divided by zero -/
  | float
deriving DecidableEq, Repr, Inhabited

/-- `board.Placement`. -/
structure Placement where
  piece : Piece
  color : Color
  square : Nat
deriving DecidableEq, Repr, Inhabited

/-- `sargon.Attacker`: `front` = `Piece`, `behind` = the chain `Behind, Behind.Behind, …`. -/
structure Attacker where
  front : Placement
  behind : List Placement := []
deriving DecidableEq, Repr, Inhabited

/-- `att.Behind` (`none` = nil). -/
def Attacker.next (a : Attacker) : Option Attacker :=
  match a.behind with
  | [] => none
  | p :: rest => some { front := p, behind := rest }

/-- `sargon.Pins`: `(pinned, attacker)` in insertion order. -/
abbrev Pins := List (Nat × Nat)

/-- `pins[sq]`. -/
def pinsGet (pins : Pins) (sq : Nat) : List Nat := (pins.filter fun e => e.1 == sq).map (·.2)

/-- explicit monadic map (order of evaluation = list order) -/
def mapE {α β : Type} (f : α → Except SErr β) : List α → Except SErr (List β)
  | [] => .ok []
  | a :: as =>
    match f a with
    | .error e => .error e
    | .ok b =>
      match mapE f as with
      | .error e => .error e
      | .ok bs => .ok (b :: bs)

/-- the piece standing on a square as the Go code reads it with `_, piece, _ := pos.Square(sq)`: `NoPiece` if empty -/
def pieceAt (pos : Position) (sq : Nat) : Piece :=
  match pos.square sq with
  | some (_, k) => k
  | none => .none

/-! ## exchange.go -/

/-- `FindKingQueenPins`. -/
def findKingQueenPins (pos : Position) : Pins :=
  let pins : List Pin :=
    [Color.white, Color.black].flatMap fun side =>
      (Gen.listKingQueen.map Piece.ofCode).flatMap fun piece => findPins pos side piece
  pins.filterMap fun pin =>
    let att := pieceAt pos pin.attacker
    let dfn := pieceAt pos pin.target
    if att = dfn then none          -- omit: Q on Q pins
    else some (pin.pinned, pin.attacker)

/-- `board.IsSameRankOrFile`. -/
def isSameRankOrFile (a b : Nat) : Bool := sqFile a == sqFile b || sqRank a == sqRank b

/-- `board.IsSameDiagonal`. -/
def isSameDiagonal (a b : Nat) : Bool :=
  let x : Int := (sqFile a : Int) - (sqFile b : Int)
  let y : Int := (sqRank a : Int) - (sqRank b : Int)
  x == y || x == -y

/-- the test at the head of `addAttackerStack`: "attacker is pinned" -/
def isPinnedFor (pins : Pins) («from» target : Nat) : Bool :=
  let list := pinsGet pins «from»
  decide (list.length > 1) || (list.length == 1 && list.head? != some target)

/-- `addAttackerStack`: `ok none` = `(nil, false)`. The recursion of the Go code has no explicit bound; the
    model gives it `fuel` levels and reports `SErr.fuel` when they are used up. -/
def addAttackerStack (pos : Position) (pins : Pins) (side : Color) (target : Nat) :
    Nat → Rotated → Piece → Nat → Except SErr (Option Attacker)
  | 0, _, _, _ => .error .fuel
  | fuel + 1, r, piece, «from» =>
    if isPinnedFor pins «from» target then .ok none else
    let me : Placement := { piece := piece, color := side, square := «from» }
    if piece = .king then .ok (some { front := me }) else
    let next := r.xor «from»
    let bb : Bitboard :=
      if isSameRankOrFile «from» target then
        andNot (rookAttackboard next target) (rookAttackboard r target) &&&
          (pos.pieces side .queen ||| pos.pieces side .rook)
      else if isSameDiagonal «from» target then
        andNot (bishopAttackboard next target) (bishopAttackboard r target) &&&
          (pos.pieces side .queen ||| pos.pieces side .bishop)
      else 0
    if bb != 0 then
      let from' := lastPopSquare bb
      let piece' := pieceAt pos from'
      match addAttackerStack pos pins side target fuel next piece' from' with
      | .error e => .error e
      | .ok none => .ok (some { front := me })                  -- `ret.Behind, _ =`: a pinned piece behind is dropped
      | .ok (some b) => .ok (some { front := me, behind := b.front :: b.behind })
    else .ok (some { front := me })

/-- recursion budget given to `addAttackerStack` (a ray holds at most 7 squares; 28 is what `Proofs/SargonStack` needs) -/
def stackFuel : Nat := 32

/-- the two inner loops of `FindAttackers` share this body: the stacks of the non-pinned pieces on `bb` -/
def stacksOn (pos : Position) (pins : Pins) (side : Color) (piece : Piece) (sq : Nat) (bb : Bitboard) :
    Except SErr (List Attacker) :=
  match mapE (fun «from» => addAttackerStack pos pins side sq stackFuel pos.rotated piece «from») (toSquares bb) with
  | .error e => .error e
  | .ok l => .ok (l.filterMap id)

def kqrnb : List Piece := Gen.listKingQueenRookKnightBishop.map Piece.ofCode

/-- `FindAttackers`. -/
def findAttackers (pos : Position) (pins : Pins) (sq : Nat) (side : Color) : Except SErr (List Attacker) :=
  let officers := mapE (fun piece =>
      match attackboard pos.rotated sq piece with
      | none => .error .attackboard
      | some ab => stacksOn pos pins side piece sq (ab &&& pos.pieces side piece)) kqrnb
  match officers with
  | .error e => .error e
  | .ok ls =>
    match stacksOn pos pins side .pawn sq (pawnCaptureboard side.opp (bitMask sq) &&& pos.pieces side .pawn) with
    | .error e => .error e
    | .ok ps => .ok (ls.flatten ++ ps)

/-- `NumAttackers`. -/
def numAttackers (l : List Attacker) : Nat := (l.map fun a => 1 + a.behind.length).sum

/-- `val`. -/
def val (a : Attacker) : Int := nominalValue a.front.piece

/-- insertion of one element as Go's `insertionSortLessFunc` moves it: leftwards while strictly smaller -/
def insertByVal (x : Attacker) : List Attacker → List Attacker
  | [] => [x]
  | y :: ys => if val x < val y then x :: y :: ys else y :: insertByVal x ys

/-- stable insertion sort by `val` (= `sort.Slice(list, byValue(list))` for `len(list) ≤ 12`) -/
def stableSort (l : List Attacker) : List Attacker := l.foldl (fun acc x => insertByVal x acc) []

/-- the flattening loop of `findSide`: `for i := 0; i < len(ret); i++ { … append(ret, att.Behind); sort(ret[i+1:]) }`.
    The argument is `ret[i:]`. The loop ends because every round consumes one placement; `fuel` is that count. -/
def flattenW (srt : List Attacker → List Attacker) : Nat → List Attacker → Except SErr (List Attacker)
  | _, [] => .ok []
  | 0, _ :: _ => .error .fuel
  | fuel + 1, att :: rest =>
    let rest' := match att.next with
      | none => rest
      | some b => srt (rest ++ [b])
    match flattenW srt fuel rest' with
    | .error e => .error e
    | .ok l => .ok (att :: l)

/-- `findSide`. -/
def findSideW (srt : List Attacker → List Attacker) (attackers : List Attacker) (turn : Color) : Except SErr (List Attacker) :=
  let ret := attackers.filter fun a => a.front.color == turn
  let ret := srt ret
  flattenW srt (numAttackers ret) ret

/-- the loop of `Exchange`; returns `(residue, cur)` -/
def exchangeLoop : Nat → List Attacker → List Attacker → Int → Int → Color → Except SErr (Int × Color)
  | _, [], _, residue, _, cur => .ok (residue, cur)
  | 0, _ :: _, _, _, _, _ => .error .fuel
  | fuel + 1, attacker :: attackers, defenders, residue, defender, cur =>
    -- Opposing side will attack, if undefended or not a loss.
    let w1 : Bool := defenders.isEmpty || decide (val attacker ≤ defender)
    let w2 : Except SErr Bool :=
      if w1 then .ok true else
        match attackers with
        | [] => .ok false
        | a2 :: _ =>
          match defenders with
          | [] => .error .index                  -- `defenders[0]`
          | d0 :: _ => .ok (decide (val attacker + val a2 ≤ defender + val d0))
    match w2 with
    | .error e => .error e
    | .ok false => .ok (residue, cur)
    | .ok true => exchangeLoop fuel defenders attackers (-(residue + defender)) (val attacker) cur.opp

/-- `Exchange`. -/
def exchangeW (srt : List Attacker → List Attacker) (pos : Position) (pins : Pins) (side : Color) (sq : Nat) : Except SErr Int :=
  match pos.square sq with
  | none => .ok 0
  | some (cur, piece) =>
    if piece = .king then .ok 0 else
    match findAttackers pos pins sq cur with
    | .error e => .error e
    | .ok da =>
    match findSideW srt da cur with
    | .error e => .error e
    | .ok defenders =>
    match findAttackers pos pins sq cur.opp with
    | .error e => .error e
    | .ok aa =>
    match findSideW srt aa cur.opp with
    | .error e => .error e
    | .ok attackers =>
    match exchangeLoop (attackers.length + defenders.length) attackers defenders 0 (nominalValue piece) cur with
    | .error e => .error e
    | .ok (residue, cur') => .ok (if cur' = side then -residue else residue)

/-! ## eval.go -/

/-- What the evaluation reads from a `*board.Board`. -/
structure BView where
  pos : Position
  turn : Color
  /-- `b.LastMove()` -/
  last : Option Move
  /-- `b.HasMoved(1000)` -/
  moved : Bitboard
  /-- `b.FullMoves()` -/
  fullMoves : Int
  castledW : Bool
  castledB : Bool
deriving Repr, Inhabited

def BView.hasCastled (v : BView) : Color → Bool
  | .white => v.castledW
  | .black => v.castledB

def BView.ofWorld (w : World) (b : Nat) : BView :=
  let bd := w.board b
  { pos := (w.cur b).pos, turn := bd.turn, last := w.lastMove b, moved := w.hasMoved b 1000,
    fullMoves := bd.moves, castledW := bd.castledW, castledB := bd.castledB }

/-- loop state of `Material` -/
structure MState where
  ptsl : Int := 0
  ptsw1 : Int := 0
  ptsw2 : Int := 0
  ptschk : Bool := false
deriving DecidableEq, Repr, Inhabited

/-- the `switch` in the loop of `Material` -/
def materialStep (last : Option Move) (sq : Nat) (v : Int) (s : MState) : MState :=
  if v < s.ptsl then
    { s with ptsl := v, ptschk := s.ptschk || (match last with | some m => m.to == sq | none => false) }
  else if s.ptsw1 < v then { s with ptsw1 := v, ptsw2 := s.ptsw1 }
  else if s.ptsw2 < v then { s with ptsw2 := v }
  else s

def materialLoop (srt : List Attacker → List Attacker) (v : BView) (pins : Pins) : List Nat → MState → Except SErr MState
  | [], s => .ok s
  | sq :: rest, s =>
    match exchangeW srt v.pos pins v.turn.opp sq with
    | .error e => .error e
    | .ok x => materialLoop srt v pins rest (materialStep v.last sq x s)

/-- `Material`: `(mtrl, ptschk)`; `mtrl` is a multiple of 1/2, returned as the integer `2·mtrl`. -/
def materialW (srt : List Attacker → List Attacker) (v : BView) (pins : Pins) : Except SErr (Int × Bool) :=
  let mtrl := materialPawns v.pos v.turn
  match materialLoop srt v pins (toSquares v.pos.all) {} with
  | .error e => .error e
  | .ok s =>
    -- Use PTSW2 if moving piece is moving into losing exchange.
    let ptsw2 := if s.ptschk then 0 else s.ptsw2        -- `ptsw1, ptsw2 = ptsw2, 0`
    let loss := if s.ptsl < 0 then 2 * s.ptsl + 1 else s.ptsl
    -- win = (2*ptsw2 - 1) / 2, kept doubled
    let win2 := if ptsw2 > 0 then 2 * ptsw2 - 1 else 2 * ptsw2
    .ok (2 * mtrl - (2 * loss + win2), s.ptschk)

/-- `Mobility`. -/
def mobilityLoop (v : BView) (pins : Pins) : List Nat → Int → Except SErr Int
  | [], acc => .ok acc
  | sq :: rest, acc =>
    match findAttackers v.pos pins sq v.turn with
    | .error e => .error e
    | .ok att =>
      match findAttackers v.pos pins sq v.turn.opp with
      | .error e => .error e
      | .ok opp => mobilityLoop v pins rest (acc + ((numAttackers att : Int) - (numAttackers opp : Int)))

def mobility (v : BView) (pins : Pins) : Except SErr Int := mobilityLoop v pins (List.range 64) 0

/-- `king`. -/
def kingDev (castled moved : Bool) : Int := if castled then 6 else if moved then -2 else 0

/-- `Development`. -/
def development (v : BView) : Int :=
  let pos := v.pos
  let own := v.turn
  let opp := own.opp
  let mask := v.moved
  let pc (c : Color) (k : Piece) (unmoved : Bool) : Int :=
    (popCount (if unmoved then andNot (pos.pieces c k) mask else pos.pieces c k &&& mask) : Int)
  let pawns : Int := -2 * (pc own .knight true - pc opp .knight true)
  let pawns := pawns - 2 * (pc own .bishop true - pc opp .bishop true)
  let pawns :=
    if v.fullMoves < 7 then
      let pawns := pawns - 2 * (pc own .rook false - pc opp .rook false)
      pawns - 2 * (pc own .queen false - pc opp .queen false)
    else pawns
  let pawns := pawns + kingDev (v.hasCastled own) ((pos.pieces own .king &&& mask) != 0)
  pawns - kingDev (v.hasCastled opp) ((pos.pieces opp .king &&& mask) != 0)

/-- `BoardControl`. (Go evaluates `Development` first; neither has side effects.) -/
def boardControl (v : BView) (pins : Pins) : Except SErr Int :=
  match mobility v pins with
  | .error e => .error e
  | .ok m => .ok (development v + m)

/-- `eval.Limit` on integers. -/
def limit (pawns lim : Int) : Int := if pawns < -lim then -lim else if lim < pawns then lim else pawns

/-- `sargon.root`: the reference values `Points.Reset` captures for one searched board. The default is Go's zero value
    (`side0 = White`, `brdc0 = 0`): what `Points.Evaluate` reads for a board `Reset` was never called on. -/
structure Points where
  side0 : Color := .white
  brdc0 : Int := 0
deriving DecidableEq, Repr, Inhabited

/-- the value `Points.Reset` stores for the board: `root{side0: b.Turn(), brdc0: BoardControl(ctx, b, pins)}` -/
def reset (v : BView) : Except SErr Points :=
  match boardControl v (findKingQueenPins v.pos) with
  | .error e => .error e
  | .ok b => .ok { side0 := v.turn, brdc0 := b }

/-- `sargon.Points`: `roots map[*board.Board]root` (the mutex has no sequential meaning). A board is identified by its
    index in the arena (`World.boards`), as a Go board is by its pointer. -/
structure PointsMap where
  roots : List (Nat × Points) := []
deriving Repr, Inhabited

namespace PointsMap

/-- `p.roots[b]` (zero value when absent) -/
def root (m : PointsMap) (b : Nat) : Points :=
  match m.roots.find? (fun e => e.1 == b) with
  | some e => e.2
  | none => {}

/-- `Points.Reset(ctx, b)`: `p.roots[b] = r` -/
def reset (m : PointsMap) (b : Nat) (v : BView) : Except SErr PointsMap :=
  match Sargon.reset v with
  | .error e => .error e
  | .ok r => .ok { roots := (b, r) :: m.roots.filter (fun e => e.1 != b) }

/-- `Points.Forget(b)`: `delete(p.roots, b)` -/
def forget (m : PointsMap) (b : Nat) : PointsMap := { roots := m.roots.filter (fun e => e.1 != b) }

end PointsMap

def ofOpt (x : Option Q) : Except SErr Q := match x with | some q => .ok q | none => .error .float

/-- every intermediate value of `Points.Evaluate` -/
structure Parts where
  pins : Pins
  brdc : Int
  /-- `2 · mtrl` -/
  mtrl2 : Int
  ptschk : Bool
  points : Q
deriving Repr, Inhabited

/-- `Points.Evaluate` with all components; `p` is `p.root(b)`, the values stored for the board evaluated. NB: the Go code
    computes a local `brdc0` (negated when the side to move differs from `side0`) and then does not use it: the formula
    reads `r.brdc0`. Transcribed as written. -/
def evaluatePartsW (srt : List Attacker → List Attacker) (p : Points) (v : BView) : Except SErr Parts :=
  let pins := findKingQueenPins v.pos
  match boardControl v pins with
  | .error e => .error e
  | .ok brdc =>
  match materialW srt v pins with
  | .error e => .error e
  | .ok (mtrl2, ptschk) =>
  let mtrl : Q := Q.halves mtrl2
  match ofOpt (Flt.mul f32 mtrl (Q.ofInt 4)) with
  | .error e => .error e
  | .ok m4 =>
  match ofOpt (Flt.div f32 (Q.ofInt brdc) (Q.ofInt 100)) with
  | .error e => .error e
  | .ok q =>
  if ptschk then
    match ofOpt (Flt.add f32 m4 q) with
    | .error e => .error e
    | .ok r => .ok { pins := pins, brdc := brdc, mtrl2 := mtrl2, ptschk := ptschk, points := r }
  else
    let _brdc0 : Int := if v.turn != p.side0 then -p.brdc0 else p.brdc0    -- dead store in the Go code
    match ofOpt (Flt.add f32 m4 (Q.ofInt (limit (brdc - p.brdc0) 6))) with
    | .error e => .error e
    | .ok s =>
    match ofOpt (Flt.add f32 s q) with
    | .error e => .error e
    | .ok r => .ok { pins := pins, brdc := brdc, mtrl2 := mtrl2, ptschk := ptschk, points := r }

/-- `Points.Evaluate`. -/
def evaluateW (srt : List Attacker → List Attacker) (p : Points) (v : BView) : Except SErr Q :=
  match evaluatePartsW srt p v with
  | .error e => .error e
  | .ok r => .ok r.points

/-- `Points.Evaluate(ctx, b)` on the map: the values of the last `Reset` for the same board, else the zero values. -/
def PointsMap.evaluateW (srt : List Attacker → List Attacker) (m : PointsMap) (b : Nat) (v : BView) : Except SErr Q :=
  Sargon.evaluateW srt (m.root b) v

/-! ### the instances with the stable sort -/

def findSide := findSideW stableSort
def exchange := exchangeW stableSort
def material := materialW stableSort
def evaluateParts := evaluatePartsW stableSort
def evaluate := evaluateW stableSort

/-! ## search.go -/

/-- `SkipUnderPromotions`: `(search.MVVLVA, board.Move.IsNotUnderPromotion)`. -/
def skipUnderPromotions : Explore := { prio := mvvlva, pick := fun m => !m.isUnderPromotion }

/-- `OnePlyIfChecked.QuietSearch` over an abstract game whose `eval` is the leaf evaluation: `(nodes, score)`,
    the nodes added to the state's counter. When in check, a fresh `AlphaBeta{Eval: q.Leaf}` (full exploration,
    static leaf) searches one ply with the caller's search context (window, table); its error is discarded, so a
    halted search yields `(0, InvalidScore)`. -/
def onePlyIfChecked {P : Type} (g : Game P) (p : P) (alpha beta : Score) (st : SState) : Score × SState :=
  if !g.inCheck p then (Score.heuristicScore (g.eval p), { st with nodes := st.nodes + 1 })
  else
    let (res, st') := alphaBetaSearch g (constEx fullExploration) .static p 1 alpha beta st
    match res with
    | none => (Score.invalidScore, { st' with nodes := st.nodes })
    | some r => (r.score, { st' with nodes := st.nodes + r.nodes })

/-- `Hook.Search`: `Reset(b)`, run the search (which evaluates with the map), `Forget(b)` on the way out.
    `search` gets the map in which `b` is registered; its result is returned unchanged. -/
def hookSearch {α : Type} (m : PointsMap) (b : Nat) (v : BView) (search : PointsMap → α) : Except SErr (α × PointsMap) :=
  match m.reset b v with
  | .error e => .error e
  | .ok m' => .ok (search m', m'.forget b)

end Sargon
end Morlock.Model
