import Morlock.Model.TT
import Morlock.Model.MoveList
import Morlock.Gen.Facts
/-!
# Model of `pkg/search`: `AlphaBeta`, `Quiescence`, `Leaf`, `Minimax`, `MVVLVA`

The search is parametric in an abstract game (`Game P`): what a node reports (drawn?, hash, ply,
pseudo-legal moves in generator order, `push` = the position `PushMove` yields or `none` if illegal,
in check?, static evaluation key). Theorems hold for every `Game`; the driver instantiates it with the
model board (`Model.World`). `PushMove`/`PopMove` pairs become "use the child value, keep the parent" -
their balance is C08.

Cancellation: the context is polled (`contextx.IsCancelled`) at fixed places; the `k`-th poll and all
later ones report "cancelled" when `cancelAt = some k`.
-/
namespace Morlock.Model
open Morlock Score

structure Game (P : Type) where
  isDraw : P → Bool
  hash : P → Nat
  ply : P → Int
  moves : P → List Move
  push : P → Move → Option P
  inCheck : P → Bool
  eval : P → Int

/-- `eval.NominalValue` from the generated switch table. -/
def nominalValue (k : Piece) : Int :=
  let name := match k with
    | .pawn => "Pawn" | .bishop => "Bishop" | .knight => "Knight" | .rook => "Rook" | .queen => "Queen"
    | .king => "King" | .none => "default"
  (Gen.nominalValue.lookup name).getD ((Gen.nominalValue.lookup "default").getD 0)

/-- `eval.NominalValueGain`. -/
def nominalValueGain (m : Move) : Int :=
  match m.ty with
  | .capturePromotion => nominalValue m.capture + nominalValue m.promotion - nominalValue .pawn
  | .promotion => nominalValue m.promotion - nominalValue .pawn
  | .capture => nominalValue m.capture
  | .enPassant => nominalValue .pawn
  | _ => 0

/-- `search.MVVLVA` (values are small integers, so the float32 → int16 conversions are exact). -/
def mvvlva (m : Move) : Int :=
  let p := 100 * nominalValueGain m
  if p > 0 then p - nominalValue m.piece else 0

/-- What an `Exploration` returns for one board: a move priority and a move predicate. The searches take an
    exploration `P → Explore` and evaluate it at the node whose moves they are about to order and filter, as the Go
    code calls `Explore(ctx, b)` (TUROCHAMP's considerable moves and BERNSTEIN's plausible-move table depend on the
    board); a board-independent exploration is a constant function (`constEx`). -/
structure Explore where
  prio : Move → Int
  pick : Move → Bool

def fullExploration : Explore := { prio := mvvlva, pick := fun _ => true }

/-- A board-independent exploration. -/
@[reducible] def constEx {P : Type} (e : Explore) : P → Explore := fun _ => e

/-- `childBound`. -/
def decMate (s : Score) : Score :=
  if s.ty != .mateInX then s
  else if s.mate = 1 then infScore
  else if s.mate = -1 then negInfScore
  else if s.mate < 0 then mateInXScore (wrap8 (s.mate + 1))
  else mateInXScore (wrap8 (s.mate - 1))

def childBound (b : Score) : Score := decMate b.negate

structure SState where
  tt : TTState := {}
  nodes : Nat := 0
  polls : Nat := 0
  cancelAt : Option Nat := none
  fuelOut : Bool := false
deriving Repr, Inhabited

/-- `contextx.IsCancelled(ctx)`: one poll. -/
def poll (st : SState) : Bool × SState :=
  let st := { st with polls := st.polls + 1 }
  (match st.cancelAt with | some k => decide (k ≤ st.polls) | none => false, st)

/-- fail-hard cutoff test of both searches. -/
def cutoff (alpha beta : Score) : Bool := alpha == beta || beta.less alpha

variable {P : Type}

/-- The child of `p` reached by move `m` (`none` = `PushMove` refused it). -/
def childOf (g : Game P) (p : P) (m : Move) : Option P := g.push p m

/-- The move loop of `runQuiescence.search`; `rec` searches a child. Returns alpha, hasLegalMoves. -/
def quiesceLoop (g : Game P) (ex : P → Explore) (rec : P → Score → Score → SState → Score × SState) (p : P) (beta : Score) :
    List Move → Score → Bool → SState → Score × Bool × SState
  | [], alpha, hasLegal, st => (alpha, hasLegal, st)
  | m :: rest, alpha, hasLegal, st =>
    match childOf g p m with
    | none => quiesceLoop g ex rec p beta rest alpha hasLegal st          -- not legal: skip
    | some child =>
      let (alpha, st) :=
        if (ex p).pick m then
          let (s, st) := rec child (childBound beta) (childBound alpha) st
          (Score.max alpha (incMate s).negate, st)
        else (alpha, st)
      if cutoff alpha beta then (alpha, true, st) else quiesceLoop g ex rec p beta rest alpha true st

/-- `runQuiescence.search`. `fuel` bounds the recursion (Go relies on the exploration to terminate). -/
def quiesce (g : Game P) (ex : P → Explore) : Nat → P → Score → Score → SState → Score × SState
  | 0, _, _, _, st => (zeroScore, { st with fuelOut := true })
  | fuel + 1, p, alpha, beta, st =>
    let (c, st) := poll st
    if c then (zeroScore, st) else
    if g.isDraw p then (zeroScore, st) else
    let st := { st with nodes := st.nodes + 1 }
    let score := heuristicScore (g.eval p)
    let alpha := Score.max alpha score
    let order := heapOrder (g.moves p) (ex p).prio
    let (alpha, hasLegal, st) := quiesceLoop g ex (quiesce g ex fuel) p beta order alpha false st
    if !hasLegal then ((if g.inCheck p then negInfScore else zeroScore), st)
    else (alpha, st)

/-- Leaf evaluation of `AlphaBeta`: `search.Leaf` or `search.Quiescence`. -/
inductive LeafEval (P : Type)
  | static
  | quiescence (ex : P → Explore) (fuel : Nat)

/-- `QuietSearch(ctx, sctx{Alpha, Beta}, b)`: `(nodes, score)` folded into the state. -/
def quietSearch (g : Game P) (le : LeafEval P) (p : P) (alpha beta : Score) (st : SState) : Score × SState :=
  match le with
  | .static => (heuristicScore (g.eval p), { st with nodes := st.nodes + 1 })
  | .quiescence ex fuel => quiesce g ex fuel p alpha beta st

def firstOrNone (pv : List Move) : Move := pv.headD {}

/-- The move loop of `runAlphaBeta.search`; `rec` searches a child.
    Returns alpha, pv, hasLegalMove, "left by cutoff". -/
def abLoop (g : Game P) (ex : P → Explore) (rec : P → Score → Score → SState → Score × List Move × SState) (p : P) (beta : Score) :
    List Move → Score → List Move → Bool → SState → Score × List Move × Bool × Bool × SState
  | [], alpha, pv, hasLegal, st => (alpha, pv, hasLegal, false, st)
  | m :: rest, alpha, pv, hasLegal, st =>
    match childOf g p m with
    | none => abLoop g ex rec p beta rest alpha pv hasLegal st
    | some child =>
      let (alpha, pv, st) :=
        if (ex p).pick m then
          let (s, rem, st) := rec child (childBound beta) (childBound alpha) st
          let s := (incMate s).negate
          if alpha.less s then (s, m :: rem, st) else (alpha, pv, st)
        else (alpha, pv, st)
      if cutoff alpha beta then (alpha, pv, true, true, st) else abLoop g ex rec p beta rest alpha pv true st

/-- What `runAlphaBeta.search` does before descending: poll, draw, table probe. `inl` = return now. -/
def abEnter (g : Game P) (rootPly : Int) (depth : Nat) (p : P) (st : SState) :
    Sum (Score × List Move × SState) (Move × SState) :=
  let (c, st) := poll st
  if c then .inl (invalidScore, [], st) else
  let root := g.ply p == rootPly
  if !root && g.isDraw p then .inl (zeroScore, [], st) else
  match st.tt.read (g.hash p) with
  | some e =>
    if !root && depth == e.depth && e.bound == 0 then .inl (e.score, [], st)
    else .inr ({ «from» := e.from, to := e.to, promotion := e.promotion }, st)
  | none => .inr ({}, st)

/-- `runAlphaBeta.search`. `rootPly` is the ply of the position the search was started from. -/
def alphabeta (g : Game P) (ex : P → Explore) (le : LeafEval P) (rootPly : Int) :
    Nat → P → Score → Score → SState → Score × List Move × SState
  | 0, p, alpha, beta, st =>
    match abEnter g rootPly 0 p st with
    | .inl r => r
    | .inr (_, st) =>
      let (score, st) := quietSearch g le p alpha beta st
      let (c, st) := poll st
      if c then (invalidScore, [], st) else
      let st := if alpha.less score && score.less beta
        then { st with tt := (st.tt.write (g.hash p) 0 (g.ply p) 0 score {}).1 } else st
      (score, [], st)
  | d + 1, p, alpha, beta, st =>
    match abEnter g rootPly (d + 1) p st with
    | .inl r => r
    | .inr (best, st) =>
      let st := { st with nodes := st.nodes + 1 }
      let order := heapOrder (g.moves p) (firstPrio best (ex p).prio)
      let (alpha, pv, hasLegal, wasCut, st) := abLoop g ex (alphabeta g ex le rootPly d) p beta order alpha [] false st
      let (c, st) := poll st
      if c then (invalidScore, [], st) else
      if !hasLegal then ((if g.inCheck p then negInfScore else zeroScore), [], st) else
      let st := if !wasCut && !pv.isEmpty
        then { st with tt := (st.tt.write (g.hash p) 0 (g.ply p) ((d + 1 : Nat) : Int) alpha (firstOrNone pv)).1 } else st
      (alpha, pv, st)

/-- Result of `AlphaBeta.Search`: `none` = `ErrHalted`. -/
structure SearchResult where
  nodes : Nat
  score : Score
  pv : List Move
deriving Repr, Inhabited

/-- `AlphaBeta.Search` with the window from the search context (`invalid` = not set). -/
def alphaBetaSearch (g : Game P) (ex : P → Explore) (le : LeafEval P) (p : P) (depth : Nat) (a b : Score) (st : SState) :
    Option SearchResult × SState :=
  let low := if a.isInvalid then negInfScore else a
  let high := if b.isInvalid then infScore else b
  let (score, pv, st) := alphabeta g ex le (g.ply p) depth p low high { st with nodes := 0 }
  let (c, st) := poll st
  if c then (none, st) else (some ⟨st.nodes, score, pv⟩, st)

/-- The move loop of `runMinimax.search`. -/
def mmLoop (g : Game P) (rec : P → SState → Score × List Move × SState) (p : P) :
    List Move → Score → List Move → Bool → SState → Score × List Move × Bool × SState
  | [], score, pv, hasLegal, st => (score, pv, hasLegal, st)
  | m :: rest, score, pv, hasLegal, st =>
    match g.push p m with
    | none => mmLoop g rec p rest score pv hasLegal st
    | some child =>
      let (s, rem, st) := rec child st
      let s := (incMate s).negate
      if score.less s then mmLoop g rec p rest s (m :: rem) true st else mmLoop g rec p rest score pv true st

/-- `runMinimax.search` (the repository's own reference search). -/
def minimax (g : Game P) : Nat → P → SState → Score × List Move × SState
  | depth, p, st =>
    let st := { st with nodes := st.nodes + 1 }
    let (c, st) := poll st
    if c then (zeroScore, [], st) else
    if g.isDraw p then (zeroScore, [], st) else
    match depth with
    | 0 => (heuristicScore (g.eval p), [], st)
    | d + 1 =>
      let (score, pv, hasLegal, st) := mmLoop g (minimax g d) p (g.moves p) negInfScore [] false st
      if !hasLegal then ((if g.inCheck p then negInfScore else zeroScore), [], st) else (score, pv, st)

end Morlock.Model
