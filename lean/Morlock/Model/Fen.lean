import Morlock.Model.Position
/-!
# Model of `pkg/board/fen/fen.go` (and `ParseSquare*`, `ParseMove` of `pkg/board`)

Strings are lists of runes (`List Char`), as the Go code sees them after `[]rune(..)`.
`strings.TrimSpace`, `strings.Split(_, " ")`, `strconv.Atoi`, `strconv.Itoa` are transcribed.
-/
namespace Morlock.Model.Fen
open Morlock Morlock.Model

/-- `unicode.IsSpace`. -/
def isSpace (c : Char) : Bool :=
  let n := c.toNat
  n = 0x20 || (0x09 ≤ n && n ≤ 0x0d) || n = 0x85 || n = 0xa0 || n = 0x1680 ||
  (0x2000 ≤ n && n ≤ 0x200a) || n = 0x2028 || n = 0x2029 || n = 0x202f || n = 0x205f || n = 0x3000

/-- `strings.TrimSpace`. -/
def trimSpace (s : List Char) : List Char :=
  ((s.dropWhile isSpace).reverse.dropWhile isSpace).reverse

/-- `strings.Split(s, " ")`. -/
def splitSpaces (s : List Char) : List (List Char) :=
  let rec go : List Char → List Char → List (List Char)
    | [], cur => [cur.reverse]
    | c :: cs, cur => if c = ' ' then cur.reverse :: go cs [] else go cs (c :: cur)
  go s []

def isAsciiDigit (c : Char) : Bool := '0' ≤ c && c ≤ '9'

/-- `strconv.Atoi` (base 10, optional sign, int64 range); `none` = error. -/
def atoi (s : List Char) : Option Int :=
  let (neg, ds) :=
    match s with
    | '+' :: r => (false, r)
    | '-' :: r => (true, r)
    | r => (false, r)
  if ds.isEmpty || !(ds.all isAsciiDigit) then none else
    let v : Nat := ds.foldl (fun acc c => acc * 10 + (c.toNat - '0'.toNat)) 0
    if neg then (if v ≤ 9223372036854775808 then some (-(v : Int)) else none)
    else (if v ≤ 9223372036854775807 then some (v : Int) else none)

/-- `strconv.Itoa`. -/
def itoa (n : Int) : String := toString n

/-- `ParseFile`. -/
def parseFile (c : Char) : Option Nat :=
  match c with
  | 'a' | 'A' => some 7 | 'b' | 'B' => some 6 | 'c' | 'C' => some 5 | 'd' | 'D' => some 4
  | 'e' | 'E' => some 3 | 'f' | 'F' => some 2 | 'g' | 'G' => some 1 | 'h' | 'H' => some 0
  | _ => none

/-- `ParseRank`. -/
def parseRank (c : Char) : Option Nat :=
  if '1' ≤ c && c ≤ '8' then some (c.toNat - '1'.toNat) else none

/-- `ParseSquare`. -/
def parseSquare (f r : Char) : Option Nat := do
  let file ← parseFile f
  let rank ← parseRank r
  pure (newSquare file rank)

/-- `ParseSquareStr`. -/
def parseSquareStr (s : List Char) : Option Nat :=
  match s with
  | [f, r] => parseSquare f r
  | _ => none

/-- `board.ParsePiece`. -/
def parsePieceLetter (c : Char) : Option Piece :=
  match c with
  | 'p' | 'P' => some .pawn | 'b' | 'B' => some .bishop | 'n' | 'N' => some .knight
  | 'r' | 'R' => some .rook | 'q' | 'Q' => some .queen | 'k' | 'K' => some .king
  | _ => none

/-- `board.ParseMove`; `none` = error. -/
def parseMove (s : List Char) : Option Move :=
  match s with
  | [a, b, c, d] => do
    let «from» ← parseSquare a b
    let to ← parseSquare c d
    pure { «from» := «from», to := to }
  | [a, b, c, d, e] => do
    let «from» ← parseSquare a b
    let to ← parseSquare c d
    let promo ← parsePieceLetter e
    if promo = .pawn || promo = .king then none else pure { «from» := «from», to := to, promotion := promo }
  | _ => none

/-- fen `parsePiece`. -/
def parsePiece (c : Char) : Option (Color × Piece) :=
  match c with
  | 'P' => some (.white, .pawn) | 'B' => some (.white, .bishop) | 'N' => some (.white, .knight)
  | 'R' => some (.white, .rook) | 'Q' => some (.white, .queen) | 'K' => some (.white, .king)
  | 'p' => some (.black, .pawn) | 'b' => some (.black, .bishop) | 'n' => some (.black, .knight)
  | 'r' => some (.black, .rook) | 'q' => some (.black, .queen) | 'k' => some (.black, .king)
  | _ => none

/-- fen `printPiece`. -/
def printPiece (c : Color) (k : Piece) : Char :=
  match c, k with
  | .white, .pawn => 'P' | .white, .bishop => 'B' | .white, .knight => 'N' | .white, .rook => 'R'
  | .white, .queen => 'Q' | .white, .king => 'K'
  | .black, .pawn => 'p' | .black, .bishop => 'b' | .black, .knight => 'n' | .black, .rook => 'r'
  | .black, .queen => 'q' | .black, .king => 'k'
  | _, .none => '?'

/-- fen `parseCastling`. -/
def parseCastling (s : List Char) : Option Nat :=
  if s = ['-'] then some 0 else
    s.foldlM (fun acc c =>
      match c with
      | 'K' => some (acc ||| wK) | 'Q' => some (acc ||| wQ) | 'k' => some (acc ||| bK) | 'q' => some (acc ||| bQ)
      | _ => none) 0

/-- fen `printCastling`. -/
def printCastling (c : Nat) : String :=
  if c = 0 then "-" else
    (if c &&& wK != 0 then "K" else "") ++ (if c &&& wQ != 0 then "Q" else "") ++
    (if c &&& bK != 0 then "k" else "") ++ (if c &&& bQ != 0 then "q" else "")

def parseColor (s : List Char) : Option Color :=
  match s with
  | ['w'] | ['W'] => some .white
  | ['b'] | ['B'] => some .black
  | _ => none

def printColor : Color → String
  | .white => "w"
  | .black => "b"

/-- The placement loop of `Decode`: the square cursor is an `int` starting at A8 = 63. -/
def placements : List Char → Int → List (Nat × Color × Piece) → Option (Int × List (Nat × Color × Piece))
  | [], sq, acc => some (sq, acc.reverse)
  | r :: rs, sq, acc =>
    if r = '/' then placements rs sq acc
    else if '1' ≤ r && r ≤ '8' then placements rs (sq - ((r.toNat - '0'.toNat : Nat) : Int)) acc
    else match parsePiece r with
      | none => none      -- invalid piece letter, or invalid character
      | some (c, k) => if sq < 0 then none else placements rs (sq - 1) ((sq.toNat, c, k) :: acc)

structure Decoded where
  pos : Position
  turn : Color
  noprogress : Int
  fullmoves : Int
deriving DecidableEq, Repr

/-- `Square.String` / `File.String` / `Rank.String`. -/
def squareString (sq : Nat) : String :=
  let f := match sqFile sq with
    | 7 => "a" | 6 => "b" | 5 => "c" | 4 => "d" | 3 => "e" | 2 => "f" | 1 => "g" | _ => "h"
  f ++ toString (sqRank sq + 1)

/-- `fen.Decode`; `none` = error. -/
def decode (fen : List Char) : Option Decoded :=
  match splitSpaces (trimSpace fen) with
  | [p0, p1, p2, p3, p4, p5] => do
    let (sq, pieces) ← placements p0 63 []
    if sq + 1 ≠ 0 then none
    let active ← parseColor p1
    let castling ← parseCastling p2
    let ep ← if p3 = ['-'] then some 0 else parseSquareStr p3
    let np ← atoi p4
    if np < 0 then none
    let fm ← atoi p5
    if fm < 0 then none
    let pos ← Position.newPosition pieces castling ep
    pure ⟨pos, active, np, fm⟩
  | _ => none

/-- `fen.Encode`. -/
def encode (pos : Position) (c : Color) (noprogress fullmoves : Int) : String :=
  let rankStr (r : Nat) : String :=
    let (s, blanks) := (List.range 8).foldl (fun (acc : String × Nat) f =>
      match pos.square (newSquare (8 - f - 1) (8 - r - 1)) with
      | none => (acc.1, acc.2 + 1)
      | some (color, piece) =>
        ((if acc.2 > 0 then acc.1 ++ toString acc.2 else acc.1).push (printPiece color piece), 0)) ("", 0)
    if blanks > 0 then s ++ toString blanks else s
  let board := String.intercalate "/" ((List.range 8).map rankStr)
  let ep := if pos.enpassant != 0 then squareString pos.enpassant else "-"
  s!"{board} {printColor c} {printCastling pos.castling} {ep} {itoa noprogress} {itoa fullmoves}"

end Morlock.Model.Fen
