/-!
# Exact model of IEEE-754 binary arithmetic on finite values (`float32` = `eval.Pawns`, `float64`)

A finite floating-point number is the rational it denotes (`Q`, numerator / positive denominator). An arithmetic
operation of the Go code is the exact rational operation followed by `rnd fmt` (round to nearest, ties to even, with
gradual underflow); overflow to an infinity is `none`. Division by zero and NaN are never produced by `rnd`; the
operations that could produce them (`div` with a zero divisor, `sqrt` of a negative number) return `none`.
Everything is plain `Nat`/`Int` arithmetic, so the kernel can evaluate it and the compiled driver runs it.

The correspondence check compares `bits32` of the model's value with `math.Float32bits` of the implementation's
(the sign of a zero is not represented: `-0` and `+0` are both `0`, the harness canonicalises).
-/
namespace Morlock.Model.Flt

structure Fmt where
  /-- precision in bits (including the hidden bit) -/
  p : Nat
  /-- exponent of the least significant bit of the smallest subnormal -/
  emin : Int
  /-- exponent of the largest finite binade -/
  emax : Int
  /-- width of the exponent field -/
  ebits : Nat

def f32 : Fmt := ⟨24, -149, 127, 8⟩
def f64 : Fmt := ⟨53, -1074, 1023, 11⟩

/-- a rational `num / den`, `den > 0` (not necessarily in lowest terms) -/
structure Q where
  num : Int
  den : Nat := 1
deriving Repr, Inhabited

namespace Q

def ofInt (i : Int) : Q := ⟨i, 1⟩
def ofNat (n : Nat) : Q := ⟨n, 1⟩
/-- `n / 2` (for constants such as 3.5 = 7/2) -/
def halves (n : Int) : Q := ⟨n, 2⟩

def norm (x : Q) : Q :=
  let g := Nat.gcd x.num.natAbs x.den
  if g ≤ 1 then x else ⟨x.num / g, x.den / g⟩

def neg (x : Q) : Q := ⟨-x.num, x.den⟩
def add (x y : Q) : Q := norm ⟨x.num * y.den + y.num * x.den, x.den * y.den⟩
def sub (x y : Q) : Q := add x (neg y)
def mul (x y : Q) : Q := norm ⟨x.num * y.num, x.den * y.den⟩
/-- `x / y` for `y ≠ 0` (callers test `y.num = 0` first) -/
def div (x y : Q) : Q :=
  if y.num > 0 then norm ⟨x.num * y.den, x.den * y.num.toNat⟩
  else norm ⟨-(x.num * y.den), x.den * (-y.num).toNat⟩

def isZero (x : Q) : Bool := x.num == 0
def lt (x y : Q) : Bool := x.num * y.den < y.num * x.den
def le (x y : Q) : Bool := x.num * y.den ≤ y.num * x.den
def beq (x y : Q) : Bool := x.num * y.den == y.num * x.den

instance : BEq Q := ⟨beq⟩

/-- `math.Round`: nearest integer, halves away from zero -/
def roundAway (x : Q) : Int :=
  let a := x.num.natAbs
  let q := (2 * a + x.den) / (2 * x.den)
  if x.num < 0 then -(q : Int) else q

/-- `math.Floor` -/
def floor (x : Q) : Int := x.num / (x.den : Int)

/-- truncation toward zero (Go's `int(f)`) -/
def trunc (x : Q) : Int := Int.tdiv x.num x.den

end Q

def roundHalfEven (a b : Nat) : Nat :=
  let q := a / b
  let r := a % b
  if 2 * r < b then q else if 2 * r > b then q + 1 else if q % 2 == 0 then q else q + 1

/-- `a / b / 2^e` as a fraction of naturals -/
def scaled (a b : Nat) (e : Int) : Nat × Nat :=
  if e ≥ 0 then (a, b * 2 ^ e.toNat) else (a * 2 ^ (-e).toNat, b)

/-- round the positive rational `a / b` to the format: `(m, e)` with value `m * 2^e`, `m < 2^p`, `e ≥ emin`;
`none` on overflow -/
def rndPos (f : Fmt) (a b : Nat) : Option (Nat × Int) :=
  let e0 : Int := (Nat.log2 a : Int) - (Nat.log2 b : Int) - ((f.p : Int) - 1)
  let s0 := scaled a b e0
  let e1 : Int := if s0.1 < s0.2 * 2 ^ (f.p - 1) then e0 - 1 else e0
  let e : Int := if e1 < f.emin then f.emin else e1
  let s := scaled a b e
  let m := roundHalfEven s.1 s.2
  let me : Nat × Int := if m == 2 ^ f.p then (2 ^ (f.p - 1), e + 1) else (m, e)
  if me.2 + ((f.p : Int) - 1) > f.emax then none else some me

def ofME (neg : Bool) (m : Nat) (e : Int) : Q :=
  let v : Q := if e ≥ 0 then ⟨(m * 2 ^ e.toNat : Nat), 1⟩ else Q.norm ⟨m, 2 ^ (-e).toNat⟩
  if neg then v.neg else v

/-- round to nearest-even in the format; `none` = overflow -/
def rnd (f : Fmt) (x : Q) : Option Q :=
  if x.num == 0 then some ⟨0, 1⟩
  else
    match rndPos f x.num.natAbs x.den with
    | none => none
    | some (m, e) => some (ofME (x.num < 0) m e)

/-- the IEEE bit pattern (sign, biased exponent, fraction) of the nearest value of the format; a value that rounds to
zero has pattern `0` whatever its sign (`-0` is not represented) -/
def bits (f : Fmt) (x : Q) : Option Nat :=
  if x.num == 0 then some 0
  else
    match rndPos f x.num.natAbs x.den with
    | none => none
    | some (m, e) =>
      let sign := if x.num < 0 then 2 ^ (f.ebits + f.p - 1) else 0
      if m == 0 then some 0
      else if m < 2 ^ (f.p - 1) then some (sign + m)
      else
        let field : Int := e + ((f.p : Int) - 1) + (2 ^ (f.ebits - 1) - 1 : Nat)
        some (sign + field.toNat * 2 ^ (f.p - 1) + (m - 2 ^ (f.p - 1)))

def bits32 (x : Q) : Option Nat := bits f32 x

/-- the finite value with the given bit pattern (`none` for infinities and NaNs) -/
def ofBits (f : Fmt) (n : Nat) : Option Q :=
  let neg := n / 2 ^ (f.ebits + f.p - 1) % 2 == 1
  let field := n / 2 ^ (f.p - 1) % 2 ^ f.ebits
  let frac := n % 2 ^ (f.p - 1)
  if field == 2 ^ f.ebits - 1 then none
  else if field == 0 then some (ofME neg frac f.emin)
  else some (ofME neg (frac + 2 ^ (f.p - 1)) ((field : Int) - (2 ^ (f.ebits - 1) - 1 : Nat) - ((f.p : Int) - 1)))

/-! ## float32 / float64 operations: exact, then rounded -/

def add (f : Fmt) (x y : Q) : Option Q := rnd f (x.add y)
def sub (f : Fmt) (x y : Q) : Option Q := rnd f (x.sub y)
def mul (f : Fmt) (x y : Q) : Option Q := rnd f (x.mul y)
/-- `none` also for a zero divisor (IEEE would give an infinity or a NaN) -/
def div (f : Fmt) (x y : Q) : Option Q := if y.num == 0 then none else rnd f (x.div y)

/-- correctly rounded square root (`math.Sqrt` on float64): `none` for negative arguments -/
def sqrtPos (f : Fmt) (a b : Nat) : Option (Nat × Int) :=
  -- find e with 2^(p-1) ≤ floor(sqrt(a/b) / 2^e) < 2^p
  let guess : Int := ((Nat.log2 a : Int) - (Nat.log2 b : Int)) / 2 - ((f.p : Int) - 1)
  let fl (e : Int) : Nat := let s := scaled a b (2 * e); Nat.sqrt (s.1 / s.2)
  let adj (e : Int) : Int :=
    let m := fl e
    if m ≥ 2 ^ f.p then e + 1 else if m < 2 ^ (f.p - 1) then e - 1 else e
  let e := adj (adj (adj guess))
  let e : Int := if e < f.emin then f.emin else e
  let m0 := fl e
  -- compare sqrt(x) with m0 + 1/2, x = a / b / 4^e:  (2 m0 + 1)^2  vs  4 x
  let s := scaled a b (2 * e)
  let lhs := (2 * m0 + 1) ^ 2 * s.2
  let rhs := 4 * s.1
  let m := if lhs < rhs then m0 + 1 else if lhs > rhs then m0 else if m0 % 2 == 0 then m0 else m0 + 1
  let me : Nat × Int := if m == 2 ^ f.p then (2 ^ (f.p - 1), e + 1) else (m, e)
  if me.2 + ((f.p : Int) - 1) > f.emax then none else some me

def sqrt (f : Fmt) (x : Q) : Option Q :=
  if x.num == 0 then some ⟨0, 1⟩
  else if x.num < 0 then none
  else (sqrtPos f x.num.toNat x.den).map fun me => ofME false me.1 me.2

end Morlock.Model.Flt
