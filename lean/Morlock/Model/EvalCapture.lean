import Morlock.Model.Position
import Morlock.Model.Search
/-!
# Model of `pkg/eval/capture.go`: `FindCapture`, `SortByNominalValue`

`sort.SliceStable` with a strict-weak-order `less` has exactly one possible result (the stable
sorted permutation), so it is modelled by a stable insertion sort the kernel can reduce.
-/
namespace Morlock.Model
open Morlock

/-- `board.Placement`. -/
structure Placement where
  piece : Piece
  color : Color
  square : Nat
deriving DecidableEq, Repr, Inhabited

/-- insert `x` (which stood *before* every element of the list) into a sorted list: it goes in front
of the first element that is not strictly less than it. -/
def stableInsert {α : Type} (less : α → α → Bool) (x : α) : List α → List α
  | [] => [x]
  | y :: ys => if less y x then y :: stableInsert less x ys else x :: y :: ys

/-- `sort.SliceStable(l, less)`: the stable sorted permutation. -/
def stableSort {α : Type} (less : α → α → Bool) : List α → List α
  | [] => []
  | x :: xs => stableInsert less x (stableSort less xs)

/-- `board.KingQueenRookKnightBishop`. -/
def kqrnbPieces : List Piece := Gen.listKingQueenRookKnightBishop.map Piece.ofCode

/-- `eval.FindCapture`: the pieces of `side` that directly target `sq`, in the order of the Go loops
(king, queen, rook, knight, bishop, then pawns; within a kind by ascending square).
`Attackboard` cannot panic here: every piece of `kqrnbPieces` has an attackboard (`findCapture_no_panic`). -/
def findCapture (p : Position) (side : Color) (sq : Nat) : List Placement :=
  (kqrnbPieces.flatMap fun piece =>
    let bb := ((attackboard p.rotated sq piece).getD 0) &&& p.pieces side piece
    (toSquares bb).map fun «from» => { piece := piece, color := side, square := «from» }) ++
  (let bb := pawnCaptureboard side.opp (bitMask sq) &&& p.pieces side .pawn
   (toSquares bb).map fun «from» => { piece := .pawn, color := side, square := «from» })

/-- the `panic("invalid piece or Pawn")` of `Attackboard` is unreachable from `FindCapture`. -/
theorem findCapture_no_panic (r : Rotated) (sq : Nat) :
    ∀ piece ∈ kqrnbPieces, (attackboard r sq piece).isSome = true := by
  intro piece h
  simp [kqrnbPieces, Gen.listKingQueenRookKnightBishop, Piece.ofCode] at h
  rcases h with h | h | h | h | h <;> subst h <;> rfl

/-- `eval.SortByNominalValue`: by nominal material value, low to high, stable. -/
def sortByNominalValue (l : List Placement) : List Placement :=
  stableSort (fun a b => decide (nominalValue a.piece < nominalValue b.piece)) l

end Morlock.Model
