import Morlock.Model.EvalCapture
import Morlock.Model.Flt
/-!
# Model of `cmd/bernstein/bernstein`: `eval.go`, `exchange.go`, `search.go`
(and `search.Selection` of `pkg/search/exploration.go`, `board.FindMoves`/`board.SortByPriority`)

Function by function, same order of evaluation. Go `int` is modelled by `Int` (no overflow below
`2^63`: see `Props/C20Bernstein`), `eval.Pawns` by the exact rational float32 model `Model.Flt`.
The one reachable Go panic is `KingAttackboard(pos.KingSquare(side))` = `king[64]` on a side without
a king (`kingDefense = none`).
-/
namespace Morlock.Model
open Morlock
open Morlock.Model.Flt (Q f32 rnd)

namespace Bernstein

/-! ## eval.go -/

/-- `MaterialValue`. -/
def materialValue : Piece → Int
  | .king => 100
  | .queen => 9
  | .rook => 5
  | .knight => 3
  | .bishop => 3
  | .pawn => 1
  | .none => 0

/-- `Material`: nominal material of the side, ignoring the king. -/
def material (p : Position) (side : Color) : Int :=
  let ret := materialValue .queen * (popCount (p.pieces side .queen) : Int)
  let ret := ret + materialValue .rook * (popCount (p.pieces side .rook) : Int)
  let ret := ret + materialValue .knight * (popCount (p.pieces side .knight) : Int)
  let ret := ret + materialValue .bishop * (popCount (p.pieces side .bishop) : Int)
  let ret := ret + materialValue .pawn * (popCount (p.pieces side .pawn) : Int)
  ret

/-- `Mobility`: the number of legal moves. -/
def mobility (p : Position) (side : Color) : Int := ((p.legalMoves side).length : Int)

/-- the squares counted by `Control` (`for sq := ZeroSquare; sq < NumSquares; sq++`). -/
def controlSquares (p : Position) (side : Color) : List Nat :=
  (List.range 64).filter fun sq => p.isDefended side sq && !p.isAttacked side sq

/-- `Control`: squares defended by the side and not attacked by the opponent. -/
def control (p : Position) (side : Color) : Int := ((controlSquares p side).length : Int)

/-- `board.QueenRookKnightBishopPawn`. -/
def qrnbpPieces : List Piece := Gen.listQueenRookKnightBishopPawn.map Piece.ofCode

/-- `Position.IsDefendedBy`. -/
def isDefendedBy (p : Position) (c : Color) (sq : Nat) (list : List Piece) : Bool :=
  p.isAttackedBy c.opp sq list

/-- the squares counted by `KingDefense` around a king on `ks`. -/
def kingDefenseSquares (p : Position) (side : Color) (ks : Nat) : List Nat :=
  (toSquares (kingAttackboard ks)).filter fun sq =>
    if p.isEmpty sq then isDefendedBy p side sq qrnbpPieces && !p.isAttacked side sq
    else p.isDefended side sq && !p.isAttacked side sq

/-- `KingDefense` (`none` = index out of range in `king[64]` when the side has no king). -/
def kingDefense (p : Position) (side : Color) : Option Int :=
  let ks := p.kingSquare side
  if ks ≥ 64 then none else some ((kingDefenseSquares p side ks).length : Int)

/-- `Evaluate(pos, factor, side)`. -/
def evaluate (p : Position) (factor : Int) (side : Color) : Option Int :=
  let mobility := mobility p side
  let control := control p side
  match kingDefense p side with
  | none => none
  | some defense =>
    let material := material p side
    let score := mobility + control + defense + factor * material
    some (max 1 score)

/-- `Eval.Evaluate`: the signed ratio of the two scores in float32
(`Pawns(self)` rounds, `* 100` rounds, `/` rounds; `none` = a Go panic, an infinity or a NaN). -/
def evalEvaluate (p : Position) (factor : Int) (turn : Color) : Option Q :=
  match evaluate p factor turn with
  | none => none
  | some self =>
    match evaluate p factor turn.opp with
    | none => none
    | some opp =>
      if self = opp then some ⟨0, 1⟩
      else if self > opp then
        (rnd f32 (Q.ofInt self)).bind fun a =>
        (Flt.mul f32 a (Q.ofInt 100)).bind fun m =>
        (rnd f32 (Q.ofInt opp)).bind fun b =>
        Flt.div f32 m b
      else
        (rnd f32 (Q.ofInt opp)).bind fun a =>
        (Flt.mul f32 a.neg (Q.ofInt 100)).bind fun m =>
        (rnd f32 (Q.ofInt self)).bind fun b =>
        Flt.div f32 m b

/-! ## exchange.go -/

/-- `IsSafe`: the occupied square is not en prise and cannot be exchanged with immediate loss. -/
def isSafe (p : Position) (side : Color) (piece : Piece) (sq : Nat) : Bool :=
  match sortByNominalValue (findCapture p side.opp sq) with
  | [] => true
  | a :: _ =>
    if !p.isDefended side sq then false
    else decide (nominalValue a.piece ≥ nominalValue piece)

/-- `IsMoveSafe`. -/
def isMoveSafe (p : Position) (side : Color) (m : Move) : Bool :=
  match p.move m with
  | none => false
  | some next => isSafe next side m.piece m.to

/-! ## search.go -/

/-- `board.FindMoves`. -/
def findMoves (moves : List Move) (pred : Move → Bool) : List Move := moves.filter pred

/-- `board.SortByPriority`: descending priority, stable. -/
def sortByPriority (moves : List Move) (fn : Move → Int) : List Move :=
  stableSort (fun a b => decide (fn a > fn b)) moves

/-- `truncate`. -/
def truncate {α : Type} (list : List α) (limit : Int) : List α :=
  if limit > 0 && (list.length : Int) > limit then list.take limit.toNat else list

/-- `TA1(side)`. -/
def ta1 (side : Color) (m : Move) : Int :=
  match side with
  | .white => (sqRank m.to : Int) * 8 + (sqFile m.to : Int)
  | .black => (8 - (sqRank m.to : Int)) * 8 + (8 - (sqFile m.to : Int))

/-- `Table1` (files: h = 0 … a = 7). -/
def table1 (m : Move) : Int :=
  match m.piece with
  | .pawn =>
    match sqFile m.from with
    | 7 => 1   -- FileA
    | 6 => 3   -- FileB
    | 5 => 6   -- FileC
    | 4 => 7   -- FileD
    | 3 => 8   -- FileE
    | 2 => 5   -- FileF
    | 1 => 4   -- FileG
    | 0 => 2   -- FileH
    | _ => 0
  | _ => 0

/-- `map[board.Move]board.MovePriority`: association list, newest binding first. -/
abbrev RankMap := List (Move × Int)

/-- `rank[move]` (zero value when absent). -/
def RankMap.get (r : RankMap) (m : Move) : Int := (r.lookup m).getD 0
/-- `_, ok := rank[move]`. -/
def RankMap.has (r : RankMap) (m : Move) : Bool := (r.lookup m).isSome
/-- `rank[move] = v`. -/
def RankMap.set (r : RankMap) (m : Move) (v : Int) : RankMap := (m, v) :: r

/-- `board.PromotionRank`. -/
def promotionRank : Color → Nat
  | .white => 7
  | .black => 0

/-- the `gain` closure: question 2a. -/
def gain (p : Position) (side : Color) (m : Move) : Bool :=
  match m.ty with
  | .capturePromotion | .promotion => true
  | .capture => decide (materialValue m.capture > materialValue m.piece) || isMoveSafe p side m
  | .enPassant => !p.isAttacked side m.to
  | _ => false

/-- the `loss` closure: question 2b. -/
def loss (p : Position) (side : Color) (m : Move) : Bool :=
  !isSafe p side m.piece m.from && isMoveSafe p side m

/-- the `exchange` closure: question 2c. -/
def exchange (m : Move) : Bool :=
  m.ty = .capture && decide (materialValue m.capture = materialValue m.piece)

/-- the priority of the check-evasion sort (question 1). -/
def checkPrio (m : Move) : Int :=
  if m.isCaptureOrEnPassant then 2 else if m.piece = .king then 0 else 1

/-- first ranking loop (questions 2 and 3): `(rank, castle)`. -/
def rank23 (p : Position) (side : Color) (moves : List Move) : RankMap × Bool :=
  moves.foldl (fun (acc : RankMap × Bool) m =>
    if gain p side m then (acc.1.set m 23, acc.2)
    else if loss p side m then (acc.1.set m 22, acc.2)
    else if exchange m then (acc.1.set m 21, acc.2)
    else if m.isCastle then (acc.1.set m 20, true)
    else acc) ([], false)

/-- `key`: the squares controlled by diagonally connected pawns. -/
def keySquares (side : Color) (pawns : Bitboard) : Bitboard :=
  pawnCaptureboard side (pawnCaptureboard side pawns &&& pawns)

/-- the `develop` closure: question 4. -/
def develop (side : Color) (m : Move) : Bool :=
  if m.piece = .knight || m.piece = .bishop then sqRank m.from == promotionRank side.opp else false

/-- the `chains` closure: question 5. -/
def chains (key : Bitboard) (m : Move) : Bool :=
  if m.piece ≠ .king then isSet key m.to else false

/-- the `files` closure: question 6. -/
def files (pawns : Bitboard) (m : Move) : Bool :=
  if m.piece = .rook || m.piece = .queen then
    let «from» := (bitFile (sqFile m.from) &&& pawns) == 0
    let to := (bitFile (sqFile m.to) &&& pawns) == 0
    !«from» && to
  else false

/-- second ranking loop (questions 4 to 8). -/
def rank48 (p : Position) (side : Color) (pawns key : Bitboard) (moves : List Move) (r : RankMap) : RankMap :=
  moves.foldl (fun (r : RankMap) m =>
    if r.has m then r
    else if !isMoveSafe p side m then r
    else if develop side m then r.set m 13
    else if chains key m then r.set m 12
    else if files pawns m then r.set m 11
    else if m.piece = .pawn then r.set m 10
    else r.set m 1) r

/-- the base list: legal moves without under-promotions in `TA1` then `Table1` order. -/
def baseMoves (p : Position) (side : Color) : List Move :=
  let moves := findMoves (p.legalMoves side) (fun m => !m.isUnderPromotion)
  let moves := sortByPriority moves (ta1 side)
  sortByPriority moves table1

/-- `FindPlausibleMoves(b)` with `pos = b.Position()`, `side = b.Turn()`. -/
def findPlausibleMoves (p : Position) (side : Color) : List Move :=
  let moves := baseMoves p side
  if p.isChecked side then sortByPriority moves checkPrio
  else
    let (rank, castle) := rank23 p side moves
    if castle then
      let moves := findMoves moves (fun m => decide (rank.get m > 0))
      sortByPriority moves rank.get
    else
      let pawns := p.pieces side .pawn
      let key := keySquares side pawns
      let rank := rank48 p side pawns key moves rank
      sortByPriority moves rank.get

/-- `search.Selection(list)`: `(priority, pick)`. -/
def selection (list : List Move) : (Move → Int) × (Move → Bool) :=
  let n : Int := list.length
  let rank : RankMap := (list.zipIdx).foldl (fun (r : RankMap) (mi : Move × Nat) => r.set mi.1 (n - (mi.2 : Int))) []
  (rank.get, rank.has)

/-- `PlausibleMoveTable{Limit}.Explore(ctx, b)`. -/
def explore (limit : Int) (p : Position) (side : Color) : (Move → Int) × (Move → Bool) :=
  selection (truncate (findPlausibleMoves p side) limit)

end Bernstein
end Morlock.Model
