/-!
# Small-step concurrent model of the UCI driver (`pkg/engine/uci/uci.go`, with `pkg/engine/engine.go`)

Threads: the command loop (`Driver.process`), one *forwarder* goroutine per `go` that reached `Analyze`,
one *timer* per `go movetime`, and one *searcher* per launched search (abstracted, see below).
A schedule is a list of `Act`s: which thread takes its next step and — for Go's `select`, whose choice among
ready cases is arbitrary — which alternative. `run` folds `step` over the schedule; a step that is not enabled
(blocked receive, `Wait` on a non-zero WaitGroup, await of an unclosed closer, held mutex, unknown thread) is
a no-op. One step = one access to shared memory: channel send/receive/close, atomic load/store/CAS on
`d.active`, `forwarders.Add/Done/Wait`, closing an `AsyncCloser`, engine mutex lock/unlock; thread-local
computation is fused with the next access, except that parsing `go` and `d.searches++` is its own step
(`goStart`).

Transcribed as it is NOW (after the repairs): `active` is the *id* of the search the user waits for
(0 = none), `searchCompleted(id, pv) = if id ≠ 0 ∧ CAS(active, id, 0) { send info; send bestmove }`,
`stop(id) = if id ≠ 0 ∧ active = id { if pv, ok := Halt(); ok { searchCompleted(id, pv) } }`,
move-time expiry goes through the `timeouts` channel to the loop, and the exit path is
`ensureInactive; forwarders.Wait(); close(out); d.Close()`. `Cfg` switches the two pre-repair designs back on
(for the counterexample theorems only): `boolActive` (a boolean `active`, so the CAS cannot tell searches
apart) and `waitFwd := false` (close `out` without waiting for the forwarders).

Abstractions:
* a search (`searchctl.handle` + its `process` goroutine, modelled in detail in `Model/IterConc.lean`) is
  `Search`: flags `init` (closed after depth 1 or on exit), `quit` (halt requested), `done` (goroutine exited,
  its `out` channel closed), the capacity-1 drop-oldest channel `buf`, and `latest` = `h.pv` (a PV is a number:
  the depth completed; 0 = the empty `search.PV{}`). The searcher may complete an iteration (`searchIter`)
  or exit (`searchExit`) at any time while not done: depth limits, mates, soft time limits and reactions to
  `quit` are all covered by this nondeterminism. `handle.Halt` = await `init`; close `quit`; read `h.pv`.
* `out` (capacity 100 in Go) is an unbounded log: the GUI is assumed to drain it, back-pressure is not modelled.
  A send on `out` after `close(out)` (a panic in Go) is recorded as `Ev.sendClosed`.
* `ponder` has capacity `pcap` (400 in Go), non-blocking send drops when full; `timeouts` has capacity 1.
* the engine mutex is `emu`; only the loop calls the engine, `Analyze` is one step under the lock, `Halt`
  holds it across its blocking await. Board, options, `lastPosition`, the opening book's content, and the text
  of lines are not modelled: `position`, `ucinewgame` only `ensureInactive`; a `go` carries whether it is
  `infinite`, has `movetime`, and what the book lookup does (`miss`/`hit`/`err`); `goMalformed` is a `go`
  whose arguments fail to parse (`continue loop` after `ensureInactive`, before `searches++`).
* the initial `id`/`option`/`uciok` lines (sent before the loop starts, before anything can close `out`) are
  omitted. An external `d.Close()` is equivalent to a `quit` arriving at that moment and is not modelled apart.
* input: `cmds` is what the GUI will send; when it is exhausted the input blocks (no EOF) — an explicit
  `Cmd.eof` models the closed input.
-/
namespace Morlock.Model.UciConc

inductive Book | miss | hit | err
deriving DecidableEq, Repr

structure GoArgs where
  infinite : Bool := false
  movetime : Bool := false
  book : Book := .miss
deriving DecidableEq, Repr

inductive Cmd
  | isready | ucinewgame | position
  | go (g : GoArgs)
  | goMalformed
  | stop | quit | eof
  /-- `debug`, `setoption`, `register`, `ponderhit`, unknown or empty lines -/
  | other
deriving DecidableEq, Repr

inductive Line
  | readyok
  | info (pv : Nat)
  /-- `bestmove` answering go number `id` -/
  | bestmove (id pv : Nat)
deriving DecidableEq, Repr

/-- ghost log, newest first -/
inductive Ev
  /-- the loop received a command from the input -/
  | consume (c : Cmd)
  /-- a send on `out` -/
  | send (l : Line)
  /-- a send on `out` after it was closed (a panic in Go) -/
  | sendClosed (l : Line)
  /-- the CAS of `searchCompleted(id, _)` succeeded; `latest` = `d.searches` at that moment -/
  | commit (id latest : Nat)
deriving DecidableEq, Repr

/-- what `ensureInactive` returns to -/
inductive After
  | select
  | go (g : GoArgs)
  | malformed
  | exit
deriving DecidableEq, Repr

/-- what `e.Halt` returns to -/
inductive HaltK
  /-- `ensureInactive`: result ignored -/
  | ensure (a : After)
  /-- `stop(id)`: `searchCompleted(id, pv)` if ok -/
  | stop (id : Nat)
deriving DecidableEq, Repr

/-- program counter of the command loop -/
inductive LPc
  | select
  /-- `d.out <- "readyok"` -/
  | ready
  /-- `if d.active.Load() != 0` -/
  | ponderChk (pv : Nat)
  | ponderSend (pv : Nat)
  /-- `ensureInactive`: `d.active.Store(0)` -/
  | ensureStore (a : After)
  /-- `e.Halt`: `e.mu.Lock()`, read `e.active` -/
  | haltLock (k : HaltK)
  /-- `handle.Halt`: `<-h.init.Closed()` -/
  | haltAwait (k : HaltK) (j : Nat)
  /-- `h.quit.Close()` -/
  | haltQuit (k : HaltK) (j : Nat)
  /-- `h.mu.Lock(); pv := h.pv; h.mu.Unlock()` -/
  | haltRead (k : HaltK) (j : Nat)
  /-- `e.active = nil; e.mu.Unlock()` and return (`res = none`: "no active search") -/
  | haltUnlock (k : HaltK) (res : Option Nat)
  /-- parse ok; `d.searches++`; book lookup -/
  | goStart (g : GoArgs)
  /-- book hit: `d.active.Store(id)` -/
  | bookStore (id : Nat)
  /-- `d.e.Analyze(ctx, opt)` -/
  | analyze (g : GoArgs) (id : Nat)
  /-- `d.active.Store(id)` -/
  | goStore (g : GoArgs) (id j : Nat)
  /-- `d.forwarders.Add(1); go func() {…}` -/
  | goSpawn (g : GoArgs) (id j : Nat)
  /-- `time.AfterFunc(timeout, …)` -/
  | goTimer (id : Nat)
  /-- `stop` command: `d.active.Load()` -/
  | stopLoad
  /-- `stop(id)`: `id == 0 || d.active.Load() != id` -/
  | stopChk (id : Nat)
  /-- `searchCompleted(id, pv)`: the CAS -/
  | complete (id pv : Nat)
  | sendInfo (id pv : Nat)
  | sendBest (id pv : Nat)
  /-- exit path: `d.forwarders.Wait()` -/
  | waitFwd
  | closeOut
  | closeDriver
  | finished
deriving DecidableEq, Repr

structure Search where
  init : Bool := false
  quit : Bool := false
  done : Bool := false
  buf : Option Nat := none
  latest : Nat := 0
deriving DecidableEq, Repr, Inhabited

inductive FPc
  /-- `for pv := range out` -/
  | recv
  /-- `select { case d.ponder <- pv: default: }` -/
  | pond (pv : Nat)
  /-- `searchCompleted(id, last)`: the CAS -/
  | complete
  | sendInfo
  | sendBest
  /-- `d.forwarders.Done()` -/
  | wgDone
  | finished
deriving DecidableEq, Repr

structure Fwd where
  id : Nat
  sidx : Nat
  infinite : Bool
  last : Nat := 0
  pc : FPc := .recv
deriving DecidableEq, Repr

structure Timer where
  id : Nat
  fired : Bool := false
deriving DecidableEq, Repr

structure State where
  cmds : List Cmd
  loop : LPc := .select
  /-- `d.searches` (loop-local) -/
  searches : Nat := 0
  /-- `d.active` -/
  active : Nat := 0
  outClosed : Bool := false
  /-- the driver's `AsyncCloser` -/
  closed : Bool := false
  ponder : List Nat := []
  pcap : Nat := 400
  timeouts : Option Nat := none
  /-- `d.forwarders` -/
  wg : Nat := 0
  /-- `e.mu` is held -/
  emu : Bool := false
  /-- `e.active` (index into `srch`) -/
  eactive : Option Nat := none
  srch : List Search := []
  fwds : List Fwd := []
  timers : List Timer := []
  log : List Ev := []
deriving DecidableEq, Repr

/-- which pre-repair design decisions are switched back on -/
structure Cfg where
  /-- `active` is a boolean: every search stores/compares the same value -/
  boolActive : Bool := false
  /-- the exit path waits for the forwarders before `close(out)` -/
  waitFwd : Bool := true
deriving DecidableEq, Repr

/-- the code as it is now -/
def Cfg.repaired : Cfg := {}

/-- alternatives of the loop's `select` -/
inductive Sel | cmd | ponder | timeout
deriving DecidableEq, Repr

inductive Act
  /-- next step of the command loop; `c` picks the `select` case when the loop is at `select` -/
  | loop (c : Sel)
  | fwd (j : Nat)
  /-- timer `j` fires and sends on `timeouts` -/
  | timerSend (j : Nat)
  /-- timer `j` fires and takes `<-d.Closed()` -/
  | timerDrop (j : Nat)
  /-- searcher `j` completes an iteration -/
  | searchIter (j : Nat)
  /-- searcher `j` exits (closing `init` and its `out`) -/
  | searchExit (j : Nat)
deriving DecidableEq, Repr

/-- the value stored in / compared with `active` for search `id` -/
def av (cfg : Cfg) (id : Nat) : Nat := if cfg.boolActive then 1 else id

/-- `d.out <- l` -/
def sendOut (s : State) (l : Line) : State :=
  if s.outClosed then { s with log := .sendClosed l :: s.log } else { s with log := .send l :: s.log }

def searchAt (s : State) (j : Nat) : Search := s.srch.getD j default

/-- where `e.Halt` returns to -/
def afterHalt (cfg : Cfg) (k : HaltK) (res : Option Nat) : LPc :=
  match k with
  | .ensure .select => .select
  | .ensure .malformed => .select
  | .ensure (.go g) => .goStart g
  | .ensure .exit => if cfg.waitFwd then .waitFwd else .closeOut
  | .stop id =>
    match res with
    | some pv => .complete id pv
    | none => .select

/-- dispatch of a received command -/
def dispatch : Cmd → LPc
  | .isready => .ready
  | .ucinewgame => .ensureStore .select
  | .position => .ensureStore .select
  | .go g => .ensureStore (.go g)
  | .goMalformed => .ensureStore .malformed
  | .stop => .stopLoad
  | .quit => .ensureStore .exit
  | .eof => .ensureStore .exit
  | .other => .select

def stepLoop (cfg : Cfg) (s : State) (c : Sel) : State :=
  match s.loop with
  | .select =>
    match c with
    | .cmd =>
      match s.cmds with
      | [] => s
      | cmd :: rest => { s with cmds := rest, log := .consume cmd :: s.log, loop := dispatch cmd }
    | .ponder =>
      match s.ponder with
      | [] => s
      | pv :: rest => { s with ponder := rest, loop := .ponderChk pv }
    | .timeout =>
      match s.timeouts with
      | none => s
      | some id => { s with timeouts := none, loop := .stopChk id }
  | .ready => sendOut { s with loop := .select } .readyok
  | .ponderChk pv => if s.active ≠ 0 then { s with loop := .ponderSend pv } else { s with loop := .select }
  | .ponderSend pv => sendOut { s with loop := .select } (.info pv)
  | .ensureStore a => { s with active := 0, loop := .haltLock (.ensure a) }
  | .haltLock k =>
    if s.emu then s
    else
      match s.eactive with
      | none => { s with emu := true, loop := .haltUnlock k none }
      | some j => { s with emu := true, loop := .haltAwait k j }
  | .haltAwait k j => if (searchAt s j).init then { s with loop := .haltQuit k j } else s
  | .haltQuit k j =>
    { s with srch := s.srch.set j { searchAt s j with quit := true }, loop := .haltRead k j }
  | .haltRead k j => { s with loop := .haltUnlock k (some (searchAt s j).latest) }
  | .haltUnlock k res => { s with emu := false, eactive := none, loop := afterHalt cfg k res }
  | .goStart g =>
    match g.book with
    | .err => { s with searches := s.searches + 1, loop := .select }
    | .hit => { s with searches := s.searches + 1, loop := .bookStore (s.searches + 1) }
    | .miss => { s with searches := s.searches + 1, loop := .analyze g (s.searches + 1) }
  | .bookStore id => { s with active := av cfg id, loop := .complete id 1 }
  | .analyze g id =>
    if s.emu then s
    else
      match s.eactive with
      | some _ => { s with loop := .select }
      | none => { s with srch := s.srch ++ [{}], eactive := some s.srch.length,
                         loop := .goStore g id s.srch.length }
  | .goStore g id j => { s with active := av cfg id, loop := .goSpawn g id j }
  | .goSpawn g id j =>
    { s with wg := s.wg + 1, fwds := s.fwds ++ [{ id := id, sidx := j, infinite := g.infinite }],
             loop := if g.movetime then .goTimer id else .select }
  | .goTimer id => { s with timers := s.timers ++ [{ id := id }], loop := .select }
  | .stopLoad =>
    { s with loop := .stopChk (if cfg.boolActive then (if s.active ≠ 0 then s.searches else 0) else s.active) }
  | .stopChk id =>
    if id = 0 then { s with loop := .select }
    else if s.active ≠ av cfg id then { s with loop := .select }
    else { s with loop := .haltLock (.stop id) }
  | .complete id pv =>
    if id ≠ 0 ∧ s.active = av cfg id then
      { s with active := 0, log := .commit id s.searches :: s.log,
               loop := if pv ≠ 0 then .sendInfo id pv else .sendBest id pv }
    else { s with loop := .select }
  | .sendInfo id pv => sendOut { s with loop := .sendBest id pv } (.info pv)
  | .sendBest id pv => sendOut { s with loop := .select } (.bestmove id pv)
  | .waitFwd => if s.wg = 0 then { s with loop := .closeOut } else s
  | .closeOut => { s with outClosed := true, loop := .closeDriver }
  | .closeDriver => { s with closed := true, loop := .finished }
  | .finished => s

def stepFwd (cfg : Cfg) (s : State) (j : Nat) : State :=
  match s.fwds[j]? with
  | none => s
  | some f =>
    match f.pc with
    | .recv =>
      match (searchAt s f.sidx).buf with
      | some pv =>
        { s with srch := s.srch.set f.sidx { searchAt s f.sidx with buf := none },
                 fwds := s.fwds.set j { f with last := pv, pc := .pond pv } }
      | none =>
        if (searchAt s f.sidx).done then
          { s with fwds := s.fwds.set j { f with pc := if f.infinite then .wgDone else .complete } }
        else s
    | .pond pv =>
      { s with ponder := if s.ponder.length < s.pcap then s.ponder ++ [pv] else s.ponder,
               fwds := s.fwds.set j { f with pc := .recv } }
    | .complete =>
      if f.id ≠ 0 ∧ s.active = av cfg f.id then
        { s with active := 0, log := .commit f.id s.searches :: s.log,
                 fwds := s.fwds.set j { f with pc := if f.last ≠ 0 then .sendInfo else .sendBest } }
      else { s with fwds := s.fwds.set j { f with pc := .wgDone } }
    | .sendInfo => { sendOut s (.info f.last) with fwds := s.fwds.set j { f with pc := .sendBest } }
    | .sendBest => { sendOut s (.bestmove f.id f.last) with fwds := s.fwds.set j { f with pc := .wgDone } }
    | .wgDone => { s with wg := s.wg - 1, fwds := s.fwds.set j { f with pc := .finished } }
    | .finished => s

def stepTimerSend (s : State) (j : Nat) : State :=
  match s.timers[j]? with
  | none => s
  | some t =>
    if t.fired then s
    else if s.timeouts.isNone then
      { s with timeouts := some t.id, timers := s.timers.set j { t with fired := true } }
    else s

def stepTimerDrop (s : State) (j : Nat) : State :=
  match s.timers[j]? with
  | none => s
  | some t =>
    if t.fired then s
    else if s.closed then { s with timers := s.timers.set j { t with fired := true } }
    else s

def stepIter (s : State) (j : Nat) : State :=
  match s.srch[j]? with
  | none => s
  | some x =>
    if x.done then s
    else { s with srch := s.srch.set j { x with latest := x.latest + 1, buf := some (x.latest + 1), init := true } }

def stepExit (s : State) (j : Nat) : State :=
  match s.srch[j]? with
  | none => s
  | some x =>
    if x.done then s
    else { s with srch := s.srch.set j { x with done := true, init := true } }

def stepWith (cfg : Cfg) (s : State) : Act → State
  | .loop c => stepLoop cfg s c
  | .fwd j => stepFwd cfg s j
  | .timerSend j => stepTimerSend s j
  | .timerDrop j => stepTimerDrop s j
  | .searchIter j => stepIter s j
  | .searchExit j => stepExit s j

def runWith (cfg : Cfg) (s : State) (sched : List Act) : State := sched.foldl (stepWith cfg) s

/-- the code as it is now -/
def step (s : State) (a : Act) : State := stepWith .repaired s a
def run (s : State) (sched : List Act) : State := sched.foldl step s

/-- the driver right after `NewDriver`, about to read `cmds` -/
def init (cmds : List Cmd) (pcap : Nat := 400) : State := { cmds := cmds, pcap := pcap }

/-- no thread can take a step -/
def Quiescent (s : State) : Prop := ∀ a, step s a = s

end Morlock.Model.UciConc
