import Morlock.Model.Score
import Morlock.Model.Types
/-!
# Model of `pkg/search/transposition.go` (sequential reading)

Slots hold immutable entries; `write` follows the replacement rule `val(old) > val(fresh) ⇒ skip`.
`size = 0` models `NoTranspositionTable`; `minDepth` models the `WriteLimited` wrapper built by
`NewMinDepthTranspositionTable`. The concurrent small-step reading is `Model.TTConc`.
-/
namespace Morlock.Model

structure TTEntry where
  hash : Nat
  score : Score
  bound : Nat        -- 0 = ExactBound, 1 = LowerBound
  «from» : Nat
  to : Nat
  promotion : Piece
  ply : Nat          -- uint16
  depth : Nat        -- uint16
deriving DecidableEq, Repr, Inhabited

structure TTState where
  slots : Array (Option TTEntry) := #[]
  used : Nat := 0
  minDepth : Int := 0
deriving Repr, Inhabited

namespace TTState

/-- `NewTranspositionTable(size)`: `n = 1 << (63 - 5 - LeadingZeros64(size))` entries (`size ≥ 32`). -/
def entriesFor (sizeBytes : Nat) : Nat := if sizeBytes < 32 then 0 else 2 ^ (Nat.log2 sizeBytes - 5)

def new (sizeBytes : Nat) (minDepth : Int := 0) : TTState :=
  { slots := Array.replicate (entriesFor sizeBytes) none, minDepth := minDepth }

/-- `val`: replacement value, in `uint16`. -/
def val : Option TTEntry → Nat
  | none => 0
  | some e => (e.ply + ((e.depth <<< 1) % 65536)) % 65536

/-- `table.Read`. -/
def read (t : TTState) (hash : Nat) : Option TTEntry :=
  if t.slots.size = 0 then none else
    match t.slots.getD (hash % t.slots.size) none with
    | some e => if e.hash = hash then some e else none
    | none => none

/-- `table.Write` (through `WriteLimited` when `minDepth > 0`). -/
def write (t : TTState) (hash : Nat) (bound : Nat) (ply depth : Int) (score : Score) (m : Move) : TTState × Bool :=
  if t.slots.size = 0 then (t, false)
  else if depth < t.minDepth then (t, false)
  else
    let key := hash % t.slots.size
    let fresh : TTEntry := { hash := hash, score := score, bound := bound, «from» := m.from, to := m.to,
                             promotion := m.promotion, ply := u16 ply, depth := u16 depth }
    let old := t.slots.getD key none
    if val old > val (some fresh) then (t, false)
    else ({ t with slots := t.slots.setIfInBounds key (some fresh), used := if old.isNone then t.used + 1 else t.used }, true)

end TTState
end Morlock.Model
