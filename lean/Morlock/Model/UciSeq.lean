import Morlock.Model.Fen
/-!
# Model of the sequential text handling of `pkg/engine/uci/uci.go`

`continuation(last, line)`: does a `position` line extend the previous one by whole words? Over
`List Char` so that the kernel can evaluate it.
-/
namespace Morlock.Model.UciSeq
open Morlock.Model

/-- Split at every white-space character in the sense of `unicode.IsSpace` (`Fen.isSpace`); the pieces may be empty. -/
def splitWs (s : List Char) : List (List Char) :=
  let rec go : List Char → List Char → List (List Char)
    | [], cur => [cur.reverse]
    | c :: cs, cur => if Fen.isSpace c then cur.reverse :: go cs [] else go cs (c :: cur)
  go s []

/-- `strings.Fields`: the maximal runs of characters that are not white space in the sense of
    `unicode.IsSpace` — blank, `\t \n \v \f \r`, U+0085, U+00A0 and the Unicode `Z` category, i.e.
    `Fen.isSpace` (for ASCII-only text Go uses the table `asciiSpace`, the ASCII part of the same set). -/
def fields (s : List Char) : List (List Char) := (splitWs s).filter (· ≠ [])

/-- `continuation(last, line)`: `none` = not an extension; `some rest` = the extra words. -/
def continuation (last line : List Char) : Option (List (List Char)) :=
  let last := Fen.trimSpace last
  let line := Fen.trimSpace line
  if last = [] || !last.isPrefixOf line then none else
    let rest := line.drop last.length
    if rest ≠ [] && rest.head? ≠ some ' ' then none else some (fields rest)

end Morlock.Model.UciSeq
