import Morlock.Model.Fen
/-!
# Model of the sequential text handling of `pkg/engine/uci/uci.go`

`continuation(last, line)`: does a `position` line extend the previous one by whole words? Over
`List Char` so that the kernel can evaluate it.
-/
namespace Morlock.Model.UciSeq
open Morlock.Model

/-- `strings.Fields` (for ASCII-space separated text: non-empty pieces of `strings.Split(s, " ")`). -/
def fields (s : List Char) : List (List Char) := (Fen.splitSpaces s).filter (· ≠ [])

/-- `continuation(last, line)`: `none` = not an extension; `some rest` = the extra words. -/
def continuation (last line : List Char) : Option (List (List Char)) :=
  let last := Fen.trimSpace last
  let line := Fen.trimSpace line
  if last = [] || !last.isPrefixOf line then none else
    let rest := line.drop last.length
    if rest ≠ [] && rest.head? ≠ some ' ' then none else some (fields rest)

end Morlock.Model.UciSeq
