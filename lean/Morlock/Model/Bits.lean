import Morlock.Basic
/-!
# Model of the `Bitboard` primitives of `pkg/board/bitboard.go`

`Bitboard` is a Go `uint64`; here a `Nat` kept below `2^64` by explicit `u64` on every operation
that can carry out of 64 bits (left shifts, complement).
-/
namespace Morlock.Model

abbrev Bitboard := Nat

def allOnes : Nat := M64 - 1

/-- Go `x << n` on `uint64` (shift counts ≥ 64 give 0). -/
def shl64 (x n : Nat) : Nat := u64 (x <<< n)

/-- Go `^x` on `uint64`. -/
def not64 (x : Nat) : Nat := allOnes ^^^ (u64 x)

/-- Go `x &^ y`. -/
def andNot (x y : Nat) : Nat := x ^^^ (x &&& y)

/-- `BitMask(sq) = Bitboard(1 << sq)`. -/
def bitMask (sq : Nat) : Bitboard := shl64 1 sq

def isSet (b : Bitboard) (sq : Nat) : Bool := (b &&& bitMask sq) != 0

/-- `BitRank(r) = 0xff << (r << 3)`; `r << 3` is computed in `uint8`. -/
def bitRank (r : Nat) : Bitboard := shl64 255 ((r <<< 3) % 256)

/-- `BitFile(f) = 0x0101010101010101 << f`. -/
def bitFile (f : Nat) : Bitboard := shl64 72340172838076673 f

def popCountAux : Nat → Nat → Nat
  | 0, _ => 0
  | fuel + 1, b => (b % 2) + popCountAux fuel (b / 2)

/-- `bits.OnesCount64`. -/
def popCount (b : Bitboard) : Nat := popCountAux 64 b

def tzAux : Nat → Nat → Nat → Nat
  | 0, _, n => n
  | fuel + 1, b, n => if b % 2 = 1 then n else tzAux fuel (b / 2) (n + 1)

/-- `bits.TrailingZeros64` (64 for zero). -/
def lastPopSquare (b : Bitboard) : Nat := if b = 0 then 64 else tzAux 64 b 0

def toSquaresAux : Nat → Bitboard → List Nat
  | 0, _ => []
  | fuel + 1, b =>
    if b = 0 then [] else
      let sq := lastPopSquare b
      sq :: toSquaresAux fuel (b ^^^ bitMask sq)

/-- `Bitboard.ToSquares`: population, least significant first. -/
def toSquares (b : Bitboard) : List Nat := toSquaresAux 64 b

def sqRank (sq : Nat) : Nat := (sq >>> 3) &&& 7
def sqFile (sq : Nat) : Nat := sq &&& 7
/-- `NewSquare(f, r)`. -/
def newSquare (f r : Nat) : Nat := (((r &&& 7) <<< 3) ||| (f &&& 7)) % 256

-- file constants (h = 0 … a = 7)
def fileH : Nat := 0
def fileG : Nat := 1
def fileB : Nat := 6
def fileA : Nat := 7

end Morlock.Model
