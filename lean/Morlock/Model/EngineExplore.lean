import Morlock.Model.BoardGame
import Morlock.Model.Turochamp
import Morlock.Model.Bernstein
/-!
# The explorations of the bundled engines, as `World → Explore` values for `boardGame`

`search.Exploration` is `func(ctx, b) (MovePriorityFn, MovePredicateFn)`; `runAlphaBeta.search` and
`runQuiescence.search` call it at every node, *before* the move loop, with the node's board `b` (a pointer), and apply
the returned predicate to a move `m` *after* `b.PushMove(m)` succeeded. In `Model/Search.lean` this is `ex p : Explore`
at node `p`, and `(ex p).pick m` is consulted only for moves with `g.push p m = some c`.

* **BERNSTEIN** (`cmd/bernstein`: `AlphaBeta{Explore: PlausibleMoveTable{Limit}.Explore, Eval: Leaf{…}}`): the table is
  computed from the board at the call, i.e. from the node itself - `bernsteinExplore`.
* **TUROCHAMP** (`cmd/turochamp`: `AlphaBeta{Eval: Quiescence{Explore: ConsiderableMovesOnly, …}}`, the main search is
  `FullExploration`): the predicate is a closure over the board *pointer*, so when it is applied the board is the one
  after the move (`IsConsiderableMove(move, b /* post move when called */)`): `(turochampExplore z w).pick m` pushes `m`
  on `w` and asks `Turochamp.considerablePick` about the resulting world. (`none` - a panic in `pieceValue` - cannot
  happen for generated moves of well-formed positions, `C20Turochamp.considerable_total`; it is read as "not picked".)
-/
namespace Morlock.Model
open Morlock

/-- `bernstein.PlausibleMoveTable{Limit: limit}.Explore` on board 0 of the world. -/
def bernsteinExplore (limit : Int) : World → Explore := fun w =>
  { prio := (Bernstein.explore limit (w.cur 0).pos (w.board 0).turn).1
    pick := (Bernstein.explore limit (w.cur 0).pos (w.board 0).turn).2 }

/-- `turochamp.ConsiderableMovesOnly` on board 0 of the world, as the searches use it: priority `MVVLVA`, and the
    predicate looks at the board after the move. -/
def turochampExplore (z : ZTable) : World → Explore := fun w =>
  { prio := mvvlva
    pick := fun m =>
      match w.pushMove z 0 m with
      | some w' => Turochamp.considerablePick 0 w' m == some true
      | none => false }

/-- The leaf evaluation of the TUROCHAMP search: quiescence over the considerable moves. -/
def turochampLeaf (z : ZTable) (fuel : Nat) : LeafEval World := .quiescence (turochampExplore z) fuel

/-! ## The engines' evaluations as leaf keys -/

/-- order-embedding key of a `float32` given by the rational it denotes (`Flt.bits32`: sign-magnitude, negated for
    negatives); comparing keys is comparing the floats -/
def f32keyOfQ (q : Flt.Q) : Int :=
  match Flt.bits32 q with
  | some b => if b ≥ 2147483648 then -((b - 2147483648 : Nat) : Int) else (b : Int)
  | none => 0

/-- BERNSTEIN's evaluation (`bernstein.Eval{Factor: factor}`) as a leaf key; `none` (a position without a king, where
    the Go code panics) reads 0 and is not searched by the streams -/
def bernsteinKeyF (factor : Int) (pos : Position) (turn : Color) : Int :=
  match Bernstein.evalEvaluate pos factor turn with
  | some q => f32keyOfQ q
  | none => 0

/-- TUROCHAMP's evaluation (`turochamp.Eval{}`) of board 0 as a leaf key: it reads the position, the side to move and
    both `HasCastled` flags of the board -/
def turochampKey (w : World) : Int :=
  match Turochamp.evaluate w 0 with
  | some q => f32keyOfQ q
  | none => 0

/-- The game the BERNSTEIN engine searches. -/
def bernsteinGame (z : ZTable) (factor : Int) : Game World := boardGame z (bernsteinKeyF factor)

/-- The game the TUROCHAMP engine searches. -/
def turochampGame (z : ZTable) : Game World := boardGameW z turochampKey

end Morlock.Model
