import Morlock.Model.Types
import Morlock.Gen.Tables
/-!
# Model of the attack tables and rotated bitboards of `pkg/board/bitboard.go`

The Go code fills `king`, `knight`, `rookrank`, `rookfile`, `bishopL`, `bishopR` in `init()` by the
loops transcribed below; the model evaluates the loop body on demand (the table is a memo of it).
The seven hand-typed index tables come from `Morlock.Gen.Tables`, regenerated from the source.
-/
namespace Morlock.Model
open Morlock

/-- `for i := start; i < hi; i++ { tmp |= BitMask(cell i); if BitMask(bit i)&state != 0 { break } }` -/
def scan (hi : Nat) (cell bit : Nat → Nat) (state : Nat) : Nat → Nat → Nat → Nat
  | 0, _, tmp => tmp
  | fuel + 1, i, tmp =>
    if i < hi then
      let tmp' := tmp ||| bitMask (cell i)
      if bitMask (bit i) &&& state != 0 then tmp' else scan hi cell bit state fuel (i + 1) tmp'
    else tmp

/-- `KingAttackboard`: the body of the `king` init loop. -/
def kingAttackboard (sq : Nat) : Bitboard :=
  let m := bitMask sq
  let tmp := m ||| (andNot (shl64 m 1) (bitFile fileH) ||| andNot (m >>> 1) (bitFile fileA))
  let tmp := tmp ||| (shl64 tmp 8 ||| tmp >>> 8)
  andNot tmp m

/-- `KnightAttackboard`: the body of the `knight` init loop. -/
def knightAttackboard (sq : Nat) : Bitboard :=
  let m := bitMask sq
  let one := andNot (shl64 m 1) (bitFile fileH) ||| andNot (m >>> 1) (bitFile fileA)
  let two := andNot (shl64 m 2) (bitFile fileG ||| bitFile fileH) ||| andNot (m >>> 2) (bitFile fileA ||| bitFile fileB)
  shl64 one 16 ||| one >>> 16 ||| shl64 two 8 ||| two >>> 8

/-- `rookrank[sq][state]`. -/
def rookRank (sq state : Nat) : Bitboard :=
  let f := sqFile sq
  let r8 := (sqRank sq) <<< 3
  -- Right: for i := file+1; i < 8; i++
  let tmp := scan 8 (fun i => i + r8) (fun i => i) state 8 (f + 1) 0
  -- Left: for i := file-1; i > -1; i--   (re-indexed by k = file - i = 1 … file)
  scan (f + 1) (fun k => (f - k) + r8) (fun k => f - k) state 8 1 tmp

/-- `rookfile[sq][state]`. -/
def rookFile (sq state : Nat) : Bitboard :=
  let f := sqFile sq
  let r := sqRank sq
  -- Down: for i := rank+1; i < 8; i++
  let tmp := scan 8 (fun i => f + (i <<< 3)) (fun i => i) state 8 (r + 1) 0
  -- Up: for i := rank-1; i > -1; i--   (re-indexed by k = rank - i)
  scan (r + 1) (fun k => f + ((r - k) <<< 3)) (fun k => r - k) state 8 1 tmp

/-- `bishopL[sq][state]`. -/
def bishopL (sq state : Nat) : Bitboard :=
  let f := sqFile sq
  let r := sqRank sq
  let mn := Nat.min r f
  -- UpLeft: for i := 1; i < min(8-rank, 8-file); i++
  let tmp := scan (Nat.min (8 - r) (8 - f)) (fun i => ((r + i) <<< 3) + (f + i)) (fun i => mn + i) state 8 1 0
  -- DownRight: for i := 1; i < min(rank, file)+1; i++
  scan (mn + 1) (fun i => ((r - i) <<< 3) + (f - i)) (fun i => mn - i) state 8 1 tmp

/-- `bishopR[sq][state]`. -/
def bishopR (sq state : Nat) : Bitboard :=
  let f := sqFile sq
  let r := sqRank sq
  let mn := Nat.min r (7 - f)
  -- UpRight: for i := 1; i < min(8-rank, file+1); i++
  let tmp := scan (Nat.min (8 - r) (f + 1)) (fun i => ((r + i) <<< 3) + (f - i)) (fun i => mn + i) state 8 1 0
  -- DownLeft: for i := 1; i < min(rank+1, 8-file); i++
  scan (Nat.min (r + 1) (8 - f)) (fun i => ((r - i) <<< 3) + (f + i)) (fun i => mn - i) state 8 1 tmp

/-- `RotatedBitboard`. -/
structure Rotated where
  rot : Bitboard := 0
  rot90 : Bitboard := 0
  rot45L : Bitboard := 0
  rot45R : Bitboard := 0
deriving DecidableEq, Repr, Inhabited

/-- `RotatedBitboard.Xor`. -/
def Rotated.xor (r : Rotated) (sq : Nat) : Rotated :=
  { rot := r.rot ^^^ bitMask sq
    rot90 := r.rot90 ^^^ bitMask (Gen.rot90[sq]!)
    rot45L := r.rot45L ^^^ bitMask (Gen.rot45L[sq]!)
    rot45R := r.rot45R ^^^ bitMask (Gen.rot45R[sq]!) }

def newRotatedAux (bb : Bitboard) : Nat → Nat → Rotated → Rotated
  | 0, _, r => r
  | fuel + 1, sq, r => newRotatedAux bb fuel (sq + 1) (if isSet bb sq then r.xor sq else r)

/-- `NewRotatedBitboard`. -/
def newRotated (bb : Bitboard) : Rotated := newRotatedAux bb 64 0 {}

/-- `RookAttackboard`. -/
def rookAttackboard (bb : Rotated) (sq : Nat) : Bitboard :=
  let rank := (bb.rot >>> ((sqRank sq) <<< 3)) &&& 255
  let file := (bb.rot90 >>> ((sqFile sq) <<< 3)) &&& 255
  rookRank sq rank ||| rookFile sq file

/-- `BishopAttackboard`. -/
def bishopAttackboard (bb : Rotated) (sq : Nat) : Bitboard :=
  let diagL := (bb.rot45L >>> Gen.off45L[sq]!) &&& Gen.mask45L[sq]!
  let diagR := (bb.rot45R >>> Gen.off45R[sq]!) &&& Gen.mask45R[sq]!
  bishopL sq diagL ||| bishopR sq diagR

/-- `QueenAttackboard`. -/
def queenAttackboard (bb : Rotated) (sq : Nat) : Bitboard :=
  rookAttackboard bb sq ||| bishopAttackboard bb sq

/-- `Attackboard` (`none` models the `panic("invalid piece or Pawn")`). -/
def attackboard (bb : Rotated) (sq : Nat) : Piece → Option Bitboard
  | .king => some (kingAttackboard sq)
  | .queen => some (queenAttackboard bb sq)
  | .rook => some (rookAttackboard bb sq)
  | .bishop => some (bishopAttackboard bb sq)
  | .knight => some (knightAttackboard sq)
  | _ => none

/-- `PawnCaptureboard`. -/
def pawnCaptureboard (c : Color) (pawns : Bitboard) : Bitboard :=
  match c with
  | .white => andNot (shl64 pawns 9) (bitFile fileH) ||| andNot (shl64 pawns 7) (bitFile fileA)
  | .black => andNot (pawns >>> 9) (bitFile fileA) ||| andNot (pawns >>> 7) (bitFile fileH)

/-- `PawnMoveboard`. -/
def pawnMoveboard (all : Bitboard) (c : Color) (pawns : Bitboard) : Bitboard :=
  match c with
  | .white => shl64 pawns 8 &&& not64 all
  | .black => (pawns >>> 8) &&& not64 all

/-- `PawnPromotionRank`. -/
def pawnPromotionRank : Color → Bitboard
  | .white => bitRank 7
  | .black => bitRank 0

/-- `PawnJumpRank`. -/
def pawnJumpRank : Color → Bitboard
  | .white => bitRank 3
  | .black => bitRank 4

end Morlock.Model
