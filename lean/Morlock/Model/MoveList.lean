import Morlock.Model.Types
/-!
# Model of `pkg/board/movelist.go`: `container/heap` `Init` and `Pop` on a fixed-size heap

`NewMoveList` heapifies `(move, priority)` pairs, `Next` pops the maximum. The pop order among
equal priorities is decided by the heap mechanics, transcribed here (`down`, `Init`, `Pop`) so that
node counts and PV tie-breaks of the model agree with the implementation.
-/
namespace Morlock.Model

structure Elm where
  m : Move
  val : Int
deriving Repr, Inhabited

/-- `heap.down(h, i0, n)` with `Less(i, j) = h[i].val > h[j].val`. -/
def heapDown (h : Array Elm) (i0 n : Nat) : Array Elm :=
  let rec go (fuel : Nat) (h : Array Elm) (i : Nat) : Array Elm :=
    match fuel with
    | 0 => h
    | fuel + 1 =>
      let j1 := 2 * i + 1
      if j1 ≥ n then h else
        let j2 := j1 + 1
        let j := if j2 < n && (h.getD j2 default).val > (h.getD j1 default).val then j2 else j1
        if !((h.getD j default).val > (h.getD i default).val) then h
        else go fuel (h.swapIfInBounds i j) j
  go (n + 1) h i0

/-- `heap.Init`. -/
def heapInit (h : Array Elm) : Array Elm :=
  let n := h.size
  (List.range (n / 2)).reverse.foldl (fun h i => heapDown h i n) h

/-- `heap.Pop` followed by the slice shrink of `moveHeap.Pop`. -/
def heapPop (h : Array Elm) : Option (Elm × Array Elm) :=
  if h.size = 0 then none else
    let n := h.size - 1
    let h := h.swapIfInBounds 0 n
    let h := heapDown h 0 n
    some (h.getD n default, h.pop)

/-- All moves in the order successive `MoveList.Next` calls return them. -/
def heapOrder (moves : List Move) (prio : Move → Int) : List Move :=
  let h := heapInit (moves.map fun m => { m := m, val := prio m }).toArray
  let rec drain (fuel : Nat) (h : Array Elm) (acc : List Move) : List Move :=
    match fuel with
    | 0 => acc.reverse
    | fuel + 1 =>
      match heapPop h with
      | none => acc.reverse
      | some (e, h') => drain fuel h' (e.m :: acc)
  drain (moves.length + 1) h []

/-- `board.First(first, fn)`. -/
def firstPrio (first : Move) (fn : Move → Int) (m : Move) : Int :=
  if first.equals m then 32767 else fn m

end Morlock.Model
