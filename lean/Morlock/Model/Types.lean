import Morlock.Model.Bits
/-! # Enums and the `Move` record of `pkg/board` (order tied to the source by `Model.GenTie`). -/
namespace Morlock.Model

inductive Color | white | black
deriving DecidableEq, Repr, Inhabited

def Color.opp : Color → Color
  | .white => .black
  | .black => .white

def Color.code : Color → Nat
  | .white => 0
  | .black => 1

/-- `board.Piece` (`NoPiece = 0 … King = 6`). -/
inductive Piece | none | pawn | bishop | knight | rook | queen | king
deriving DecidableEq, Repr, Inhabited

def Piece.code : Piece → Nat
  | .none => 0 | .pawn => 1 | .bishop => 2 | .knight => 3 | .rook => 4 | .queen => 5 | .king => 6

def Piece.ofCode : Nat → Piece
  | 1 => .pawn | 2 => .bishop | 3 => .knight | 4 => .rook | 5 => .queen | 6 => .king | _ => .none

/-- `board.MoveType`; `invalid` is the zero value carried by parsed, uncontextualised moves. -/
inductive MoveType
  | invalid | normal | push | jump | enPassant | queenSideCastle | kingSideCastle | capture | promotion | capturePromotion
deriving DecidableEq, Repr, Inhabited

def MoveType.code : MoveType → Nat
  | .invalid => 0 | .normal => 1 | .push => 2 | .jump => 3 | .enPassant => 4 | .queenSideCastle => 5
  | .kingSideCastle => 6 | .capture => 7 | .promotion => 8 | .capturePromotion => 9

structure Move where
  ty : MoveType := .invalid
  «from» : Nat := 0
  to : Nat := 0
  piece : Piece := .none
  promotion : Piece := .none
  capture : Piece := .none
deriving DecidableEq, Repr, Inhabited

-- squares used by name in the Go code
def H1 : Nat := 0
def G1 : Nat := 1
def F1 : Nat := 2
def E1 : Nat := 3
def D1 : Nat := 4
def C1 : Nat := 5
def B1 : Nat := 6
def A1 : Nat := 7
def H8 : Nat := 56
def G8 : Nat := 57
def F8 : Nat := 58
def E8 : Nat := 59
def D8 : Nat := 60
def C8 : Nat := 61
def B8 : Nat := 62
def A8 : Nat := 63

-- castling rights bits
def wK : Nat := 1
def wQ : Nat := 2
def bK : Nat := 4
def bQ : Nat := 8

namespace Move

def isCapture (m : Move) : Bool := m.ty = .capturePromotion || m.ty = .capture
def isCaptureOrEnPassant (m : Move) : Bool := m.ty = .capturePromotion || m.ty = .capture || m.ty = .enPassant
def isPromotion (m : Move) : Bool := m.ty = .capturePromotion || m.ty = .promotion
def isUnderPromotion (m : Move) : Bool := m.isPromotion && m.promotion != .queen
def isCastle (m : Move) : Bool := m.ty = .kingSideCastle || m.ty = .queenSideCastle

/-- `Move.EnPassantTarget` (first component; 0 when not a jump). -/
def enPassantTarget (m : Move) : Nat :=
  if m.ty != .jump then 0
  else if sqRank m.to = 3 then newSquare (sqFile m.to) 2 else newSquare (sqFile m.to) 5

/-- `Move.EnPassantCapture` (first component; 0 when not en passant). -/
def enPassantCapture (m : Move) : Nat :=
  if m.ty != .enPassant then 0
  else if sqRank m.to = 2 then newSquare (sqFile m.to) 3 else newSquare (sqFile m.to) 4

/-- `Move.CastlingRookMove`: rook `(from, to)`. -/
def castlingRookMove (m : Move) : Nat × Nat :=
  if m.ty = .kingSideCastle && m.from = E1 then (H1, F1)
  else if m.ty = .queenSideCastle && m.from = E1 then (A1, D1)
  else if m.ty = .kingSideCastle && m.from = E8 then (H8, F8)
  else if m.ty = .queenSideCastle && m.from = E8 then (A8, D8)
  else (0, 0)

/-- `Move.CastlingRightsLost`. -/
def castlingRightsLost (m : Move) : Nat :=
  (if m.from = E1 then wK ||| wQ else 0) |||
  (if m.from = A1 || m.to = A1 then wQ else 0) |||
  (if m.from = H1 || m.to = H1 then wK else 0) |||
  (if m.from = E8 then bK ||| bQ else 0) |||
  (if m.from = A8 || m.to = A8 then bQ else 0) |||
  (if m.from = H8 || m.to = H8 then bK else 0)

/-- `Move.Equals`. -/
def equals (m o : Move) : Bool := m.from = o.from && m.to = o.to && m.promotion = o.promotion

end Move
end Morlock.Model
