import Morlock.Model.Fen
import Morlock.Gen.Books
/-!
# Model of the opening books

* `pkg/board/fen/fen.go`: `Strip`;
* `pkg/engine/book.go`: `NewBook`, `book.Find`;
* `cmd/sargon/sargon/book.go`: `NewBook`, `Book.Find`, `isQueenSideOrKingPawn`;
* `cmd/bernstein/bernstein/book.go`: `NewBook`.

The data of the two books (`Gen.bernsteinLines`, `Gen.sargonMoves`, `Gen.sargonFiles`, …) is regenerated from the
source by `harness/cmd/extract`.

A Go `map[string][]board.Move` is modelled by an association list `Table` with distinct keys, in insertion order
(Go's iteration order is unspecified: the driver and the harness compare books as sets). Strings are lists of runes.
A Go panic (`parts[:4]` out of range in `Strip`, a nil `*Position` dereferenced after an ignored `Decode` error) is an
explicit value: `none` / `Err.panic`.
-/
namespace Morlock.Model.Book
open Morlock Morlock.Model Morlock.Model.Fen

/-- `strings.Join(parts, " ")`. -/
def joinSpaces : List (List Char) → List Char
  | [] => []
  | [a] => a
  | a :: b :: rest => a ++ ' ' :: joinSpaces (b :: rest)

/-- `fen.Strip`: `strings.Join(strings.Split(pos, " ")[:4], " ")`. `none` = the slice expression `parts[:4]` panics
    (fewer than four fields). -/
def strip (pos : List Char) : Option (List Char) :=
  let parts := splitSpaces pos
  if parts.length < 4 then none else some (joinSpaces (parts.take 4))

/-- `fen.Initial` (generated). -/
def initial : List Char := Gen.fenInitial.toList

/-- `map[string][]board.Move` / `map[string]map[board.Move]bool`: keys distinct, moves distinct. -/
abbrev Table := List (List Char × List Move)

namespace Table

/-- `m[k]` (the nil slice for an absent key). -/
def get : Table → List Char → List Move
  | [], _ => []
  | (k', ms) :: rest, k => if k' = k then ms else get rest k

/-- `if m[k] == nil { m[k] = map[Move]bool{} }; m[k][mv] = true`. -/
def add : Table → List Char → Move → Table
  | [], k, mv => [(k, [mv])]
  | (k', ms) :: rest, k, mv =>
    if k' = k then (k', if mv ∈ ms then ms else ms ++ [mv]) :: rest else (k', ms) :: add rest k mv

/-- `m[k] = ms`. -/
def set : Table → List Char → List Move → Table
  | [], k, ms => [(k, ms)]
  | (k', ms') :: rest, k, ms => if k' = k then (k, ms) :: rest else (k', ms') :: set rest k ms

end Table

/-- The ways `engine.NewBook` fails: the three `fmt.Errorf` returns, and a run-time panic. -/
inductive Err
  | parse      -- "invalid line '%v': %v" (ParseMove failed)
  | notLegal   -- "invalid line '%v': move %v not legal"
  | notFound   -- "invalid line '%v': move %v not found"
  | panic      -- nil *Position dereferenced / slice bounds out of range
deriving DecidableEq, Repr, Inhabited

/-- One iteration of the inner loop of `engine.NewBook` (`for _, str := range line`): state = (map, key). -/
def stepMove (t : Table) (key : List Char) (str : List Char) : Except Err (Table × List Char) :=
  match parseMove str with
  | none => .error .parse
  | some next =>
    -- `pos, turn, _, _, _ := fen.Decode(key)`: the error is dropped, a nil `pos` is dereferenced by `PseudoLegalMoves`
    match decode key with
    | none => .error .panic
    | some d =>
      -- the first candidate with `candidate.Equals(next)`; the loop `break`s after it
      match (d.pos.pseudoLegalMoves d.turn).find? (fun candidate => candidate.equals next) with
      | none => .error .notFound
      | some candidate =>
        match d.pos.move candidate with
        | none => .error .notLegal
        | some p =>
          match strip key with
          | none => .error .panic
          | some k => .ok (t.add k candidate, (encode p d.turn.opp 0 1).toList)

/-- The inner loop of `engine.NewBook` over one line. -/
def lineLoop (t : Table) (key : List Char) : List (List Char) → Except Err Table
  | [] => .ok t
  | str :: rest =>
    match stepMove t key str with
    | .error e => .error e
    | .ok (t', key') => lineLoop t' key' rest

/-- The outer loop of `engine.NewBook`: every line starts at `key := fen.Initial`. -/
def linesLoop (t : Table) : List (List (List Char)) → Except Err Table
  | [] => .ok t
  | line :: rest =>
    match lineLoop t initial line with
    | .error e => .error e
    | .ok t' => linesLoop t' rest

/-- `engine.NewBook` (the final "dedup" loop turns each set of moves into a slice: the identity here). -/
def newBook (lines : List (List (List Char))) : Except Err Table := linesLoop [] lines

/-- `book.Find` / `sargon.Book.Find`: `b.moves[fen.Strip(pos)]`; `none` = `Strip` panics. -/
def find (t : Table) (pos : List Char) : Option (List Move) := (strip pos).map t.get

/-! ## BERNSTEIN -/

/-- The lines passed to `engine.NewBook` by `bernstein.NewBook` (generated). -/
def bernsteinLines : List (List (List Char)) := Gen.bernsteinLines.map fun l => l.map String.toList

/-- `bernstein.NewBook`: `ret, _ := engine.NewBook(..)`: the error is dropped (a nil `engine.Book` on error). -/
def bernsteinNewBook : Except Err Table := newBook bernsteinLines

/-! ## SARGON -/

def moveTypeOfCode : Nat → MoveType
  | 1 => .normal | 2 => .push | 3 => .jump | 4 => .enPassant | 5 => .queenSideCastle | 6 => .kingSideCastle
  | 7 => .capture | 8 => .promotion | 9 => .capturePromotion | _ => .invalid

/-- The hand-written move literals `e2e4`, `d2d4`, `e7e5`, `d7d5` of `sargon/book.go` (generated): only `Type`, `From`
    and `To` are filled in; `Piece` is `NoPiece`. `none` = no such variable (the Go code would not compile). -/
def sargonLiteral (name : String) : Option Move :=
  (Gen.sargonMoves.find? fun e => e.1 == name).map fun (_, ty, fr, to, pc, pr, cp) =>
    { ty := moveTypeOfCode ty, «from» := fr, to := to, piece := Piece.ofCode pc, promotion := Piece.ofCode pr,
      capture := Piece.ofCode cp }

/-- `isQueenSideOrKingPawn`. -/
def isQueenSideOrKingPawn (m : Move) : Bool :=
  if m.piece.code != Gen.sargonFilePiece then false else Gen.sargonFiles.contains (sqFile m.from)

/-- The loop body of `sargon.NewBook`. `none` = panic (`next` is nil when `Move` refuses, `Strip` out of range). -/
def sargonStep (d : Decoded) (e7e5 d7d5 : Move) (t : Table) (m : Move) : Option Table :=
  match d.pos.move m with
  | none => none
  | some next =>
    let response := if isQueenSideOrKingPawn m then e7e5 else d7d5
    match strip (encode next d.turn.opp 0 1).toList with
    | none => none
    | some key => some (t.set key [response])

def sargonLoop (d : Decoded) (e7e5 d7d5 : Move) : Table → List Move → Option Table
  | t, [] => some t
  | t, m :: ms =>
    match sargonStep d e7e5 d7d5 t m with
    | none => none
    | some t' => sargonLoop d e7e5 d7d5 t' ms

/-- `sargon.NewBook`. -/
def sargonNewBook : Option Table := do
  let init ← Gen.sargonInitialReplies.mapM sargonLiteral
  let d7d5 ← sargonLiteral Gen.sargonDefaultResponse
  let e7e5 ← sargonLiteral Gen.sargonFileResponse
  let k0 ← strip initial
  let d ← decode initial
  sargonLoop d e7e5 d7d5 [(k0, init)] (d.pos.legalMoves d.turn)

end Morlock.Model.Book
