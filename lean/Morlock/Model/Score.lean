import Morlock.Basic
/-!
# Model of `pkg/eval/score.go`

`Score` is transcribed field for field. `Pawns` (a Go `float32`) is carried as its
order-embedding key in `Int` (sign-magnitude bits, `±0 ↦ 0`); under that embedding `<`, `==`
and unary minus on non-NaN floats are `<`, `=` and negation on `Int`. `Mate` is an `int8`,
carried as an `Int` with explicit `wrap8`.
-/
namespace Morlock.Model

inductive ScoreType | invalid | heuristic | mateInX | inf | negInf
deriving DecidableEq, Repr, Inhabited

structure Score where
  ty : ScoreType
  mate : Int
  pawns : Int
deriving DecidableEq, Repr, Inhabited

namespace Score

def invalidScore : Score := ⟨.invalid, 0, 0⟩
def zeroScore : Score := ⟨.heuristic, 0, 0⟩
def infScore : Score := ⟨.inf, 0, 0⟩
def negInfScore : Score := ⟨.negInf, 0, 0⟩
def heuristicScore (p : Int) : Score := ⟨.heuristic, 0, p⟩
def mateInXScore (m : Int) : Score := ⟨.mateInX, m, 0⟩

def isInvalid (s : Score) : Bool := s.ty = .invalid
def isHeuristic (s : Score) : Bool := s.ty = .heuristic

/-- `Score.MateDistance`. -/
def mateDistance (s : Score) : Option Int :=
  match s.ty with
  | .mateInX => if s.mate < 0 then some (wrap8 (-s.mate)) else some s.mate
  | .inf | .negInf => some 0
  | _ => none

/-- `Score.Negate`. -/
def negate (s : Score) : Score :=
  match s.ty with
  | .heuristic => heuristicScore (-s.pawns)
  | .mateInX => mateInXScore (wrap8 (-s.mate))
  | .inf => negInfScore
  | .negInf => infScore
  | .invalid => invalidScore

/-- `Score.Less`. -/
def less (s o : Score) : Bool :=
  if s = o || s.ty = .inf || o.ty = .negInf then false
  else if s.ty = .negInf || o.ty = .inf then true
  else match s.ty, o.ty with
    | .heuristic, .heuristic => s.pawns < o.pawns
    | .heuristic, .mateInX => o.mate > 0
    | .mateInX, .heuristic => s.mate < 0
    | .mateInX, .mateInX =>
        if (decide (s.mate < 0)) != (decide (o.mate < 0)) then s.mate < o.mate else s.mate > o.mate
    | _, _ => false

/-- `IncrementMateDistance`. -/
def incMate (s : Score) : Score :=
  match s.ty with
  | .inf => mateInXScore 1
  | .negInf => mateInXScore (-1)
  | .mateInX => if s.mate < 0 then mateInXScore (wrap8 (s.mate - 1)) else mateInXScore (wrap8 (s.mate + 1))
  | _ => s

/-- `Max`. -/
def max (a b : Score) : Score := if a.less b then b else a
/-- `Min`. -/
def min (a b : Score) : Score := if a.less b then a else b

end Score
end Morlock.Model
