import Morlock.Model.Search
/-!
# Model of `pkg/search/minimax.go`: the entry point `Minimax.Search`

`runMinimax.search` is `Model.minimax` / `Model.mmLoop` (`Model/Search.lean`): `nodes++`, ONE poll of the context
at node entry (a cancelled node answers `ZeroScore, nil`), draw test, static leaf at depth 0, the move loop over the
pseudo-legal moves in generator order (no ordering, no window, no table), mate / stalemate if no move was legal.
Unlike `runAlphaBeta.search` there is no second poll after the move loop.

`Minimax.Search` creates a fresh `runMinimax` (`nodes = 0`), runs `search`, polls the context once more and returns
`ErrHalted` (here `none`) iff that poll reports "cancelled"; otherwise `(run.nodes, score, moves)`.

Not wired into the driver.
-/
namespace Morlock.Model
open Morlock Score
variable {P : Type}

/-- `Minimax.Search`: `none` = `ErrHalted`. -/
def minimaxSearch (g : Game P) (p : P) (depth : Nat) (st : SState) : Option SearchResult × SState :=
  let (score, pv, st) := minimax g depth p { st with nodes := 0 }
  let (c, st) := poll st
  if c then (none, st) else (some ⟨st.nodes, score, pv⟩, st)

end Morlock.Model
