import Morlock.Model.Board
import Morlock.Model.Flt
import Morlock.Model.Search
/-!
# Model of `cmd/turochamp/turochamp`: `eval.go` (`Eval`, `Material`, `PositionPlay`) and `quiescence.go`

`eval.Pawns` is a `float32`: every arithmetic operation of the Go code is `Flt.add/sub/mul/div f32` (exact rational
operation, then one rounding), `float64(x)` is exact, `eval.Pawns(f64)` is `rnd f32`, `math.Round` is `Q.roundAway`,
`math.Sqrt` is `Flt.sqrt f64`. `none` is an infinity/NaN (overflow, zero divisor, root of a negative number) or a Go
`panic` (`pieceValue` of `NoPiece`, `Attackboard` of a pawn).

What the functions read from the board: `Position`, `Turn`, `HasCastled(c)`, `SecondToLastMove` - taken from
`Model.World`.
-/
namespace Morlock.Model.Turochamp
open Morlock Morlock.Model Morlock.Model.Flt

/-! ## float32 constants and conversions -/

def q0 : Q := ⟨0, 1⟩
def q1 : Q := ⟨1, 1⟩
def qHalf : Q := ⟨1, 2⟩

/-- `eval.Pawns(n)` for an `int` (or `float64` holding an integer). -/
def pawnsOfInt (n : Int) : Option Q := rnd f32 (Q.ofInt n)

/-- the untyped constant `0.2` converted to `eval.Pawns` -/
def c02 : Option Q := rnd f32 ⟨1, 5⟩
/-- the untyped constant `0.3` converted to `eval.Pawns` -/
def c03 : Option Q := rnd f32 ⟨3, 10⟩

/-- `eval.Pawns(math.Round(10*math.Sqrt(float64(n)))) / 10` -/
def sqrtTerm (n : Nat) : Option Q :=
  (sqrt f64 (Q.ofNat n)).bind fun s =>
  (mul f64 (Q.ofInt 10) s).bind fun t =>
  (pawnsOfInt t.roundAway).bind fun v =>
  div f32 v (Q.ofInt 10)

/-! ## `pieceValue`, `material`, `Material.Evaluate` -/

/-- `pieceValue` (`none` = `panic("invalid piece")`). -/
def pieceValue : Piece → Option Q
  | .king => some (Q.ofInt 100)
  | .queen => some (Q.ofInt 10)
  | .rook => some (Q.ofInt 5)
  | .bishop => some (Q.halves 7)
  | .knight => some (Q.ofInt 3)
  | .pawn => some (Q.ofInt 1)
  | .none => none

/-- `board.QueenRookKnightBishopPawn` -/
def qrnbp : List Piece := Gen.listQueenRookKnightBishopPawn.map Piece.ofCode
/-- `board.KingQueenRookKnightBishop` -/
def kqrnb : List Piece := Gen.listKingQueenRookKnightBishop.map Piece.ofCode

/-- one round of the loop of `material`: `score += pieceValue(piece) * eval.Pawns(pos.Piece(turn, piece).PopCount())` -/
def materialStep (pos : Position) (turn : Color) (score : Q) (piece : Piece) : Option Q :=
  (pieceValue piece).bind fun v =>
  (pawnsOfInt (popCount (pos.pieces turn piece))).bind fun n =>
  (mul f32 v n).bind fun t =>
  add f32 score t

def materialLoop (pos : Position) (turn : Color) : List Piece → Q → Option Q
  | [], score => some score
  | piece :: rest, score => (materialStep pos turn score piece).bind (materialLoop pos turn rest)

/-- `material`. -/
def material (pos : Position) (turn : Color) : Option Q :=
  (materialLoop pos turn qrnbp q0).map fun score => if score.beq q0 then qHalf else score

/-- `Material.Evaluate` on the position and the side to move. -/
def materialEvaluate (pos : Position) (turn : Color) : Option Q :=
  (material pos turn).bind fun own =>
  (material pos turn.opp).bind fun opp =>
  if own.beq opp then some q0
  else if opp.lt own then div f32 own opp
  else div f32 opp.neg own

/-! ## `PositionPlay` -/

/-- `mobility[sq]++` on the map kept as an association list in insertion order. -/
def mobBump (mob : List (Nat × Nat)) (sq : Nat) : List (Nat × Nat) :=
  if mob.any (fun e => e.1 == sq) then mob.map (fun e => if e.1 == sq then (e.1, e.2 + 1) else e)
  else mob ++ [(sq, 1)]

/-- the mobility map after loop (1) -/
def mobility (pos : Position) (turn : Color) : List (Nat × Nat) :=
  (pos.legalMoves turn).foldl (fun mob m =>
    if m.piece != .pawn && !m.isCastle then
      let mob := mobBump mob m.from
      if m.ty = .capture then mobBump mob m.from else mob
    else mob) []

/-- `mayCheckMate` after loop (1) -/
def mayCheckMate (pos : Position) (turn : Color) : Bool :=
  (pos.legalMoves turn).any fun m =>
    match pos.move m with
    | some next => next.isCheckMate turn.opp
    | none => false

/-- `mayCastle` after loop (1) -/
def mayCastle (pos : Position) (turn : Color) : Bool := (pos.legalMoves turn).any fun m => m.isCastle

/-- `board.CastlingRights(turn)` -/
def castlingRights : Color → Nat
  | .white => wK ||| wQ
  | .black => bK ||| bQ

/-- `if c { score += v }` -/
def addIf (c : Bool) (v : Q) (score : Q) : Option Q := if c then add f32 score v else some score

/-- The score before the sum over the mobility map. Inside loop (1) the Go code adds 1 when the first mating move and
when the first castling move is met; both add the same constant, so the value after the loop does not depend on which
came first and the two additions are made here after the flags are known. -/
def prePlay (pos : Position) (hasCastled : Bool) (turn : Color) : Option Q :=
  (addIf (pos.castling &&& castlingRights turn != 0) q1 q0).bind fun s =>
  (addIf hasCastled q1 s).bind fun s =>
  (addIf (pos.isChecked turn.opp) qHalf s).bind fun s =>
  (addIf (mayCheckMate pos turn) q1 s).bind fun s =>
  addIf (mayCastle pos turn) q1 s

/-- `for _, n := range mobility { score += ... }` in the order of the list -/
def mobSum : List (Nat × Nat) → Q → Option Q
  | [], score => some score
  | (_, n) :: rest, score => ((sqrtTerm n).bind fun t => add f32 score t).bind (mobSum rest)

/-- `Attackboard(pos.Rotated(), from, p) & pos.Piece(turn, p)` (`none` = panic) -/
def officerHits (pos : Position) (turn : Color) (sq : Nat) (p : Piece) : Option Bitboard :=
  (attackboard pos.rotated sq p).map fun ab => ab &&& pos.pieces turn p

def defendersLoop (pos : Position) (turn : Color) (sq : Nat) : List Piece → Nat → Option Nat
  | [], d => some d
  | p :: rest, d =>
    (officerHits pos turn sq p).bind fun bb => defendersLoop pos turn sq rest (if bb != 0 then d + popCount bb else d)

/-- `defenders` of part (2) -/
def defenders (pos : Position) (turn : Color) (sq : Nat) : Option Nat :=
  (defendersLoop pos turn sq kqrnb 0).map fun d =>
    let bb := pawnCaptureboard turn (pos.pieces turn .pawn) &&& bitMask sq
    if bb != 0 then d + popCount bb else d

/-- part (2): the loop over `middle` -/
def defenceLoop (pos : Position) (turn : Color) : List Nat → Q → Option Q
  | [], score => some score
  | sq :: rest, score =>
    (defenders pos turn sq).bind fun d =>
    (addIf (decide (d > 0)) q1 score).bind fun s =>
    (addIf (decide (d > 1)) qHalf s).bind (defenceLoop pos turn rest)

def middle (pos : Position) (turn : Color) : Bitboard :=
  pos.pieces turn .rook ||| pos.pieces turn .knight ||| pos.pieces turn .bishop

/-- `safety` of part (3) -/
def safety (pos : Position) (turn : Color) : Nat :=
  popCount (andNot (queenAttackboard pos.rotated (lastPopSquare (pos.pieces turn .king))) (pos.pieces turn .none))

/-- part (3) -/
def kingSafety (pos : Position) (turn : Color) (score : Q) : Option Q :=
  if pos.pieces turn .king != 0 then (sqrtTerm (safety pos turn)).bind fun t => sub f32 score t else some score

/-- `int(from.Rank() - board.Rank2)` / `int(board.Rank7 - from.Rank())`: the subtraction is made in `uint8`. -/
def pawnRanks (turn : Color) (sq : Nat) : Nat :=
  match turn with
  | .white => (sqRank sq + 256 - 1) % 256
  | .black => (6 + 256 - sqRank sq) % 256

/-- is one of K,Q,R,N,B of `turn` attacking `sq`? (the loop with `break`) -/
def officerDefended (pos : Position) (turn : Color) (sq : Nat) : List Piece → Option Bool
  | [] => some false
  | p :: rest => (officerHits pos turn sq p).bind fun bb => if bb != 0 then some true else officerDefended pos turn sq rest

/-- part (4): the loop over the pawns -/
def pawnLoop (pos : Position) (turn : Color) : List Nat → Q → Option Q
  | [], score => some score
  | sq :: rest, score =>
    c02.bind fun k02 =>
    (pawnsOfInt (pawnRanks turn sq)).bind fun r =>
    (mul f32 k02 r).bind fun t =>
    (add f32 score t).bind fun s =>
    (officerDefended pos turn sq kqrnb).bind fun d =>
    c03.bind fun k03 =>
    (addIf d k03 s).bind (pawnLoop pos turn rest)

/-- parts (2)-(4) from the score after the mobility sum -/
def postPlay (pos : Position) (turn : Color) (score : Q) : Option Q :=
  (defenceLoop pos turn (toSquares (middle pos turn)) score).bind fun s =>
  (kingSafety pos turn s).bind fun s =>
  pawnLoop pos turn (toSquares (pos.pieces turn .pawn)) s

/-- `PositionPlay` as a function of what it reads; the mobility map is summed in the order `order` puts it in
(Go: map iteration order, which is not specified). -/
def positionPlayOrd (order : List (Nat × Nat) → List (Nat × Nat)) (pos : Position) (hasCastled : Bool) (turn : Color) : Option Q :=
  (prePlay pos hasCastled turn).bind fun s =>
  (mobSum (order (mobility pos turn)) s).bind fun s =>
  postPlay pos turn s

/-- `PositionPlay` with the mobility map summed in insertion order (one of the orders Go's runtime produces). -/
def positionPlayCore (pos : Position) (hasCastled : Bool) (turn : Color) : Option Q :=
  positionPlayOrd id pos hasCastled turn

/-- `Board.HasCastled(c)` -/
def hasCastled (w : World) (b : Nat) (c : Color) : Bool :=
  match c with
  | .white => (w.board b).castledW
  | .black => (w.board b).castledB

/-- `PositionPlay(b, turn)`. -/
def positionPlay (w : World) (b : Nat) (turn : Color) : Option Q :=
  positionPlayCore (w.cur b).pos (hasCastled w b turn) turn

/-! ## `Eval.Evaluate` -/

/-- the combination `m + p` of `Eval.Evaluate` -/
def combine (mat pp : Q) : Option Q :=
  (mul f64 mat (Q.ofInt 100)).bind fun m100 =>
  (mul f64 (Q.ofInt m100.roundAway) (Q.ofInt 10)).bind fun m64 =>
  (rnd f32 m64).bind fun m =>
  (mul f64 pp (Q.ofInt 100)).bind fun p100 =>
  (div f64 (Q.ofInt p100.roundAway) (Q.ofInt 1000)).bind fun p64 =>
  (rnd f32 p64).bind fun p =>
  add f32 m p

/-- `Eval.Evaluate` as a function of what it reads -/
def evaluateCore (pos : Position) (castledSelf castledOpp : Bool) (turn : Color) : Option Q :=
  (materialEvaluate pos turn).bind fun mat =>
  (positionPlayCore pos castledSelf turn).bind fun ppS =>
  (positionPlayCore pos castledOpp turn.opp).bind fun ppO =>
  (sub f32 ppS ppO).bind fun pp =>
  combine mat pp

/-- `Eval.Evaluate` with the mobility maps of the two `PositionPlay` calls summed in the orders `oS`, `oO`
(`evaluateCore` is `evaluateCoreOrd id id`). -/
def evaluateCoreOrd (oS oO : List (Nat × Nat) → List (Nat × Nat)) (pos : Position) (castledSelf castledOpp : Bool)
    (turn : Color) : Option Q :=
  (materialEvaluate pos turn).bind fun mat =>
  (positionPlayOrd oS pos castledSelf turn).bind fun ppS =>
  (positionPlayOrd oO pos castledOpp turn.opp).bind fun ppO =>
  (sub f32 ppS ppO).bind fun pp =>
  combine mat pp

/-- `Eval.Evaluate`. -/
def evaluate (w : World) (b : Nat) : Option Q :=
  let turn := (w.board b).turn
  evaluateCore (w.cur b).pos (hasCastled w b turn) (hasCastled w b turn.opp) turn

/-! ## `IsConsiderableMove`, `ConsiderableMovesOnly` -/

/-- `IsConsiderableMove(m, b)` as a function of what it reads (`none` = panic in `pieceValue`). -/
def isConsiderableCore (m : Move) (pos : Position) (turn : Color) (secondToLast : Option Move) : Option Bool :=
  let considerable := pos.isCheckMate turn
  if m.isCapture then
    let considerable :=
      match secondToLast with
      | some last => if last.isCaptureOrEnPassant && m.to == last.to then true else considerable
      | none => considerable
    (pieceValue m.piece).bind fun own =>
    (pieceValue m.capture).bind fun cap =>
    let considerable := if own.lt cap then true else considerable
    let considerable := if !pos.isAttacked turn.opp m.to then true else considerable
    some considerable
  else some considerable

/-- `IsConsiderableMove(m, b)`; `b` is the board after the move. -/
def isConsiderableMove (m : Move) (w : World) (b : Nat) : Option Bool :=
  isConsiderableCore m (w.cur b).pos (w.board b).turn (w.secondToLastMove b)

/-- The predicate of `ConsiderableMovesOnly(ctx, b)` as the searches use it: it is asked about `m` after `m` was made on
the same board (`w'` = the world after `PushMove`). The priority is `search.MVVLVA` (`Model.mvvlva`). -/
def considerablePick (b : Nat) (w' : World) (m : Move) : Option Bool := isConsiderableMove m w' b

/-- The moves of the node that a search with `ConsiderableMovesOnly` explores: pseudo-legal moves in generator order
which `PushMove` accepts and the predicate selects (`none` = a panic on the way). -/
def considerableLoop (z : ZTable) (w : World) (b : Nat) : List Move → Option (List Move)
  | [] => some []
  | m :: rest =>
    match w.pushMove z b m with
    | none => considerableLoop z w b rest
    | some w' =>
      (considerablePick b w' m).bind fun c =>
      (considerableLoop z w b rest).map fun l => if c then m :: l else l

def considerableMoves (z : ZTable) (w : World) (b : Nat) : Option (List Move) :=
  considerableLoop z w b ((w.cur b).pos.pseudoLegalMoves (w.board b).turn)

/-! ## The parts, for the differential run -/

structure Parts where
  castleRight : Bool
  hasCastled : Bool
  check : Bool
  mayMate : Bool
  mayCastle : Bool
  pre : Option Q
  mob : List (Nat × Nat)
  defenders : List (Option Nat)
  safety : Option Nat
  pawns : List (Nat × Option Bool)

def parts (pos : Position) (castled : Bool) (turn : Color) : Parts :=
  { castleRight := pos.castling &&& castlingRights turn != 0
    hasCastled := castled
    check := pos.isChecked turn.opp
    mayMate := mayCheckMate pos turn
    mayCastle := mayCastle pos turn
    pre := prePlay pos castled turn
    mob := mobility pos turn
    defenders := (toSquares (middle pos turn)).map (defenders pos turn)
    safety := if pos.pieces turn .king != 0 then some (safety pos turn) else none
    pawns := (toSquares (pos.pieces turn .pawn)).map fun sq => (pawnRanks turn sq, officerDefended pos turn sq kqrnb) }

end Morlock.Model.Turochamp
