/-!
# Small-step concurrent model of iterative deepening (`pkg/search/searchctl/iterative.go`)

One search = one `handle` + its `process` goroutine. Threads: the *searcher* (`handle.process`), the *watcher*
(the goroutine of `contextx.WithQuitCancel`: when `quit` is closed it cancels the search context), any number
of *Halt callers* (`handle.Halt`; the hard-limit timer of `EnforceTimeControl` is one of them — it calls `Halt`
at an arbitrary time), and a *consumer* that may receive from `out` at any time (the UCI forwarder).
A schedule is a list of `Act`s; `run` folds `step`; a step that is not enabled (await on an unclosed closer,
lock of a held mutex, receive from an empty channel, index that is no thread) is a no-op.

One step = one access to shared memory: `quit.IsClosed()`, the search (which reads the cancellation flag at one
arbitrary point), `mu.Lock`, the write/read of `h.pv`, `mu.Unlock`, the non-blocking receive on `out`, the send,
`init.Close()`, `quit.Close()`, `close(out)`, `cancel()`. The thread-local tests after `h.init.Close()` (depth
limit, mate distance, soft time) are fused with that step.

Abstractions: `Cfg.search d` is the (deterministic) result of the full-width search at depth `d`, `Cfg.mate d` its
mate distance if it is a mate score; a `PV` is `(depth, value)`. The searcher observes cancellation at an
arbitrary point of each search: the step of `search d` returns `ErrHalted` only if `cancelled` is set and the
schedule's bit says so, otherwise the PV of depth `d`. Elapsed time is arbitrary: when `useSoft` is set, the
schedule's bit at the test after an iteration decides whether the soft limit is exceeded. Errors other than
`ErrHalted` and cancellation of the parent context are not modelled.
Ghost state: `sent` (every PV ever sent on `out`, oldest first), `received`, and for each Halt caller the length
of `sent` when the call started.
-/
namespace Morlock.Model.IterConc

structure PV where
  depth : Nat := 0
  val : Nat := 0
deriving DecidableEq, Repr

structure Cfg where
  /-- `opt.DepthLimit` -/
  limit : Option Nat := none
  /-- abstract result of the search at a depth -/
  search : Nat → Nat := fun _ => 0
  /-- `score.MateDistance()` of that result -/
  mate : Nat → Option Nat := fun _ => none
  /-- a soft time limit is in force -/
  useSoft : Bool := false

/-- the PV the searcher builds after searching depth `d` -/
def Cfg.pv (cfg : Cfg) (d : Nat) : PV := ⟨d, cfg.search d⟩

/-- `depth == limit` or `mateDistance ≤ depth` -/
def Cfg.hardStop (cfg : Cfg) (d : Nat) : Bool :=
  cfg.limit == some d ||
  (match cfg.mate d with
   | some m => m ≤ d
   | none => false)

inductive Owner | searcher | halt (k : Nat)
deriving DecidableEq, Repr

/-- program counter of `handle.process` -/
inductive SPc
  /-- `for !h.quit.IsClosed()` -/
  | top (d : Nat)
  /-- `root.Search(wctx, sctx, b, depth)` -/
  | search (d : Nat)
  | lock (d : Nat)
  /-- `h.pv = pv` -/
  | store (d : Nat)
  | unlock (d : Nat)
  /-- `select { case <-out: default: }` -/
  | drain (d : Nat)
  /-- `out <- pv` -/
  | send (d : Nat)
  /-- `h.init.Close()`, then the limit / mate / soft-time tests and `depth++` -/
  | closeInit (d : Nat)
  /-- deferred `cancel()` -/
  | exitCancel
  /-- deferred `close(out)` -/
  | exitCloseOut
  /-- deferred `h.init.Close()` -/
  | exitCloseInit
  | exited
deriving DecidableEq, Repr

/-- program counter of one `handle.Halt()` call; `snap` = `sent.length` when the call started -/
inductive HPc
  | idle
  /-- `<-h.init.Closed()` -/
  | await (snap : Nat)
  /-- `h.quit.Close()` -/
  | closeQuit (snap : Nat)
  | lock (snap : Nat)
  /-- `return h.pv` (evaluated under the lock) -/
  | read (snap : Nat)
  /-- deferred `h.mu.Unlock()` -/
  | unlock (snap : Nat) (res : PV)
  | done (snap : Nat) (res : PV)
deriving DecidableEq, Repr

structure State where
  init : Bool := false
  quit : Bool := false
  cancelled : Bool := false
  /-- `h.pv` -/
  pv : PV := {}
  /-- `h.mu` -/
  mu : Option Owner := none
  /-- the capacity-1 channel `out` -/
  buf : Option PV := none
  outClosed : Bool := false
  spc : SPc := .top 1
  halts : List HPc := []
  sent : List PV := []
  received : List PV := []
deriving DecidableEq, Repr

inductive Act
  /-- next step of the searcher; `b` = "the search notices the cancellation" at `search`, "the soft limit is
  exceeded" at the test after an iteration -/
  | searcher (b : Bool)
  | watcher
  | halt (k : Nat)
  | consumer
deriving DecidableEq, Repr

def stepSearcher (cfg : Cfg) (s : State) (b : Bool) : State :=
  match s.spc with
  | .top d => if s.quit then { s with spc := .exitCancel } else { s with spc := .search d }
  | .search d => if s.cancelled && b then { s with spc := .exitCancel } else { s with spc := .lock d }
  | .lock d => if s.mu.isNone then { s with mu := some .searcher, spc := .store d } else s
  | .store d => { s with pv := cfg.pv d, spc := .unlock d }
  | .unlock d => { s with mu := none, spc := .drain d }
  | .drain d => { s with buf := none, spc := .send d }
  | .send d =>
    if s.buf.isNone then { s with buf := some (cfg.pv d), sent := s.sent ++ [cfg.pv d], spc := .closeInit d }
    else s
  | .closeInit d =>
    { s with init := true,
             spc := if cfg.hardStop d then .exitCancel
                    else if cfg.useSoft && b then .exitCancel
                    else .top (d + 1) }
  | .exitCancel => { s with cancelled := true, spc := .exitCloseOut }
  | .exitCloseOut => { s with outClosed := true, spc := .exitCloseInit }
  | .exitCloseInit => { s with init := true, spc := .exited }
  | .exited => s

def stepWatcher (s : State) : State :=
  if s.quit && !s.cancelled then { s with cancelled := true } else s

def stepHalt (s : State) (k : Nat) : State :=
  match s.halts[k]? with
  | none => s
  | some h =>
    match h with
    | .idle => { s with halts := s.halts.set k (.await s.sent.length) }
    | .await n => if s.init then { s with halts := s.halts.set k (.closeQuit n) } else s
    | .closeQuit n => { s with quit := true, halts := s.halts.set k (.lock n) }
    | .lock n => if s.mu.isNone then { s with mu := some (.halt k), halts := s.halts.set k (.read n) } else s
    | .read n => { s with halts := s.halts.set k (.unlock n s.pv) }
    | .unlock n r => { s with mu := none, halts := s.halts.set k (.done n r) }
    | .done _ _ => s

def stepConsumer (s : State) : State :=
  match s.buf with
  | some pv => { s with buf := none, received := s.received ++ [pv] }
  | none => s

def step (cfg : Cfg) (s : State) : Act → State
  | .searcher b => stepSearcher cfg s b
  | .watcher => stepWatcher s
  | .halt k => stepHalt s k
  | .consumer => stepConsumer s

def run (cfg : Cfg) (s : State) (sched : List Act) : State := sched.foldl (step cfg) s

/-- a fresh search with `n` (future) Halt callers -/
def init (n : Nat) : State := { halts := List.replicate n .idle }

/-- the searcher is running its deferred calls or has returned -/
def SPc.exiting : SPc → Bool
  | .exitCancel | .exitCloseOut | .exitCloseInit | .exited => true
  | _ => false

/-- the depth the searcher is working on -/
def SPc.depth? : SPc → Option Nat
  | .top d | .search d | .lock d | .store d | .unlock d | .drain d | .send d | .closeInit d => some d
  | _ => none

end Morlock.Model.IterConc
