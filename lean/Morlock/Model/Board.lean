import Morlock.Model.Zobrist
import Morlock.Gen.Facts
/-!
# Model of `pkg/board/board.go` on an arena

Go's boards are linked nodes reached through pointers; `Fork` shares the past. Here nodes live in an
arena (`Array Node`) and a board holds the index of its current node, so that sharing - and with it
every aliasing mistake - is expressible. `World` = arena + all boards created so far.
-/
namespace Morlock.Model
open Morlock

inductive Outcome | unknown | undecided | whiteWins | blackWins | draw
deriving DecidableEq, Repr, Inhabited

inductive Reason | none | checkmate | stalemate | repetition3 | repetition5 | noProgress | insufficientMaterial
deriving DecidableEq, Repr, Inhabited

structure Result where
  outcome : Outcome := .unknown
  reason : Reason := .none
deriving DecidableEq, Repr, Inhabited

structure Node where
  pos : Position
  hash : Nat
  noprogress : Int
  next : Move := {}
  prev : Option Nat := none
deriving Repr, Inhabited

structure Board where
  /-- `repetitions`: hash ↦ count (absent = 0), as an association list -/
  repetitions : List (Nat × Int) := []
  castledW : Bool := false
  castledB : Bool := false
  ply : Int := 1
  moves : Int := 1
  turn : Color := .white
  result : Result := {}
  current : Nat := 0
deriving Repr, Inhabited

def repGet (r : List (Nat × Int)) (h : Nat) : Int := ((r.find? fun e => e.1 == h).map (·.2)).getD 0

def repSet (r : List (Nat × Int)) (h : Nat) (v : Int) : List (Nat × Int) :=
  if r.any (fun e => e.1 == h) then r.map (fun e => if e.1 == h then (h, v) else e) else (h, v) :: r

structure World where
  nodes : Array Node := #[]
  boards : Array Board := #[]
deriving Repr, Inhabited

namespace World

def node (w : World) (i : Nat) : Node := w.nodes.getD i default
def board (w : World) (b : Nat) : Board := w.boards.getD b default
def cur (w : World) (b : Nat) : Node := w.node (w.board b).current

/-- `NewBoard`. Returns the world and the id of the new board. -/
def newBoard (w : World) (z : ZTable) (pos : Position) (turn : Color) (noprogress fullmoves : Int) : World × Nat :=
  let h := z.hash pos turn
  let n : Node := { pos := pos, noprogress := noprogress, hash := h }
  let b : Board := { repetitions := [(h, 1)], ply := 1, moves := fullmoves, turn := turn, current := w.nodes.size }
  ({ nodes := w.nodes.push n, boards := w.boards.push b }, w.boards.size)

/-- `Board.Fork`. -/
def fork (w : World) (b : Nat) : World × Nat :=
  let bd := w.board b
  let c := w.cur b
  let n : Node := { pos := c.pos, hash := c.hash, noprogress := c.noprogress, prev := c.prev }
  let f : Board := { bd with current := w.nodes.size }   -- the repetition map is copied (a value here)
  ({ nodes := w.nodes.push n, boards := w.boards.push f }, w.boards.size)

/-- `updateNoProgress`. -/
def updateNoProgress (old : Int) (m : Move) : Int :=
  if m.ty != .normal && !m.isCastle then 0 else old + 1

/-- `Board.identicalPositionCount(n, turn, limit)`; `t0` is `b.turn.Opponent()` at the call. -/
def identicalPositionCount (w : World) (n : Node) (turn t0 : Color) (limit : Int) : Int :=
  let rec go (fuel : Nat) (i : Int) (tmp : Option Nat) (t : Color) (ret : Int) : Int :=
    match fuel with
    | 0 => ret
    | fuel + 1 =>
      match tmp with
      | none => ret
      | some ti =>
        if i ≤ limit then
          let tn := w.node ti
          let ret := if tn.hash == n.hash && turn == t && tn.pos == n.pos then ret + 1 else ret
          go fuel (i + 1) tn.prev t.opp ret
        else ret
  go w.nodes.size 1 n.prev t0 1

def setBoard (w : World) (b : Nat) (bd : Board) : World := { w with boards := w.boards.setIfInBounds b bd }
def setNode (w : World) (i : Nat) (n : Node) : World := { w with nodes := w.nodes.setIfInBounds i n }

/-- `Board.PushMove`; `none` = returned false. -/
def pushMove (w : World) (z : ZTable) (b : Nat) (m : Move) : Option World :=
  let bd := w.board b
  if bd.result.reason = .checkmate || bd.result.reason = .stalemate then none else
  let c := w.cur b
  match c.pos.move m with
  | none => none
  | some next =>
    -- (1) new node
    let n : Node := { pos := next, hash := z.move c.hash c.pos m, noprogress := updateNoProgress c.noprogress m,
                      prev := some bd.current }
    let w := w.setNode bd.current { c with next := m }
    let ni := w.nodes.size
    let w := { w with nodes := w.nodes.push n }
    -- (2) board-level metadata
    let castledW := if m.isCastle && bd.turn = .white then true else bd.castledW
    let castledB := if m.isCastle && bd.turn = .black then true else bd.castledB
    let turn := bd.turn.opp
    let reps := repSet bd.repetitions n.hash (repGet bd.repetitions n.hash + 1)
    let ply := bd.ply + 1
    let moves := if turn = .white then bd.moves + 1 else bd.moves
    -- (3) draw conditions (the result is re-opened first)
    let result : Result := {}
    let result :=
      if repGet reps n.hash ≥ (Gen.repetition3Limit : Int) then
        let actual := identicalPositionCount w n turn turn.opp n.noprogress
        if actual ≥ (Gen.repetition5Limit : Int) then { outcome := .draw, reason := .repetition5 }
        else if actual ≥ (Gen.repetition3Limit : Int) then { outcome := .draw, reason := .repetition3 }
        else result
      else result
    let result := if n.noprogress ≥ (Gen.noprogressPlyLimit : Int) then { outcome := .draw, reason := .noProgress } else result
    let result :=
      if (m.ty = .capture || ((m.ty = .capturePromotion || m.ty = .promotion) && (m.promotion = .bishop || m.promotion = .knight)))
          && next.hasInsufficientMaterial
      then { outcome := .draw, reason := .insufficientMaterial } else result
    some (w.setBoard b { repetitions := reps, castledW := castledW, castledB := castledB, ply := ply, moves := moves,
                         turn := turn, result := result, current := ni })

/-- `Board.PopMove`; `none` = returned false. -/
def popMove (w : World) (b : Nat) : Option (World × Move) :=
  let bd := w.board b
  let c := w.cur b
  match c.prev with
  | none => none
  | some pi =>
    let p := w.node pi
    let opp := bd.turn.opp
    let castledW := if p.next.isCastle && opp = .white then false else bd.castledW
    let castledB := if p.next.isCastle && opp = .black then false else bd.castledB
    let reps := repSet bd.repetitions c.hash (repGet bd.repetitions c.hash - 1)
    let moves := if opp = .black then bd.moves - 1 else bd.moves
    let m := p.next
    let w := w.setNode pi { p with next := {} }
    some (w.setBoard b { repetitions := reps, castledW := castledW, castledB := castledB, ply := bd.ply - 1,
                         moves := moves, turn := opp, result := { outcome := .undecided }, current := pi }, m)

/-- `Board.AdjudicateNoLegalMoves`. -/
def adjudicateNoLegalMoves (w : World) (b : Nat) : World × Result :=
  let bd := w.board b
  let c := w.cur b
  let result : Result :=
    if c.pos.isChecked bd.turn then
      { outcome := (match bd.turn with | .white => .blackWins | .black => .whiteWins), reason := .checkmate }
    else { outcome := .draw, reason := .stalemate }
  (w.setBoard b { bd with result := result }, result)

/-- `Board.LastMove`. -/
def lastMove (w : World) (b : Nat) : Option Move :=
  (w.cur b).prev.map fun pi => (w.node pi).next

/-- `Board.SecondToLastMove`. -/
def secondToLastMove (w : World) (b : Nat) : Option Move :=
  match (w.cur b).prev with
  | some pi => (w.node pi).prev.map fun ppi => (w.node ppi).next
  | none => none

/-- `Board.HasMoved(limit)`. -/
def hasMoved (w : World) (b : Nat) (limit : Nat) : Bitboard :=
  let rec go (fuel : Nat) (cur : Option Nat) (limit : Nat) (ret : Bitboard) : Bitboard :=
    match fuel, cur, limit with
    | 0, _, _ => ret
    | _, none, _ => ret
    | _, _, 0 => ret
    | fuel + 1, some ci, limit + 1 =>
      let n := w.node ci
      go fuel n.prev limit (ret ||| bitMask n.next.to)
  (go w.nodes.size (w.cur b).prev limit 0) &&& (w.cur b).pos.all

end World
end Morlock.Model
