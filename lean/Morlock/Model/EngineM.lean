import Morlock.Model.Board
import Morlock.Model.Fen
/-!
# Model of `engine.Engine` (`pkg/engine/engine.go`) as far as the game state goes

`Reset`, `Move`, `TakeBack`, `Position` on the arena model of `board.Board` (`Model/Board.lean`): the engine owns
board 0 of its world. Each operation returns the engine and whether the Go method returned `nil`; on an error
the Go code has not touched `e.b`, and the model returns the engine it was given (`Props/C19`:
`move_rejected_unchanged`, …). The search side (`Analyze`, `Halt`, options) is modelled in `Model/UciConc` and
`Driver/Uci`. Tied to the real engine by the `engine` stream (`Driver/Engine.lean`) and, through the UCI
driver, by `ucidet`.

```go
func (e *Engine) Move(ctx context.Context, move string) error {
    candidate, err := board.ParseMove(move)
    if err != nil { return fmt.Errorf("invalid move: %v", err) }
    _, _ = e.haltSearchIfActive(ctx)
    moves := e.b.Position().PseudoLegalMoves(e.b.Turn())
    for _, m := range moves {
        if !candidate.Equals(m) { continue }
        if !e.b.PushMove(m) { return fmt.Errorf("illegal move: %v", m) }   // the FIRST match decides
        return nil
    }
    return fmt.Errorf("invalid move: %v", candidate)
}
```
-/
namespace Morlock.Model
open Morlock

structure EngineM where
  w : World
  deriving Inhabited

namespace EngineM

/-- `e.b.Position()`. -/
def pos (e : EngineM) : Position := (e.w.cur 0).pos

/-- `e.b.Turn()`. -/
def turn (e : EngineM) : Color := (e.w.board 0).turn

/-- `Engine.Position`: the FEN of the current position. -/
def position (e : EngineM) : String :=
  let bd := e.w.board 0
  let c := e.w.cur 0
  Fen.encode c.pos bd.turn c.noprogress bd.moves

/-- `Engine.Reset`: on a decode error the game is left as it was. -/
def reset (z : ZTable) (e : EngineM) (fen : List Char) : EngineM × Bool :=
  match Fen.decode fen with
  | none => (e, false)
  | some d => (⟨(({} : World).newBoard z d.pos d.turn d.noprogress d.fullmoves).1⟩, true)

/-- `Engine.Move`. -/
def move (z : ZTable) (e : EngineM) (s : List Char) : EngineM × Bool :=
  match Fen.parseMove s with
  | none => (e, false)
  | some cand =>
    let bd := e.w.board 0
    match ((e.w.cur 0).pos.pseudoLegalMoves bd.turn).find? (fun m => cand.equals m) with
    | none => (e, false)
    | some m => match e.w.pushMove z 0 m with
      | none => (e, false)
      | some w' => (⟨w'⟩, true)

/-- `Engine.TakeBack`. -/
def takeBack (e : EngineM) : EngineM × Bool :=
  match e.w.popMove 0 with
  | none => (e, false)
  | some (w', _) => (⟨w'⟩, true)

end EngineM
end Morlock.Model
