import Morlock.Model.Search
import Morlock.Model.Board
/-!
# The search game played on the model board

`Game World`: a node is a world whose board 0 is the search board. `push` is `PushMove`; the parent
world is kept as a value, which is what `PopMove` restores observationally (C08).
-/
namespace Morlock.Model

/-- `eval.Material.Evaluate` as an integer number of pawns. -/
def materialPawns (pos : Position) (turn : Color) : Int :=
  Position.piecesInOrder.foldl (fun acc k =>
    acc + ((popCount (pos.pieces turn k) : Int) - (popCount (pos.pieces turn.opp k) : Int)) * nominalValue k) 0

def boardGame (z : ZTable) (evalKey : Position → Color → Int) : Game World :=
  { isDraw := fun w => (w.board 0).result.outcome == .draw
    hash := fun w => (w.cur 0).hash
    ply := fun w => (w.board 0).ply
    moves := fun w => (w.cur 0).pos.pseudoLegalMoves (w.board 0).turn
    push := fun w m => w.pushMove z 0 m
    inCheck := fun w => (w.cur 0).pos.isChecked (w.board 0).turn
    eval := fun w => evalKey (w.cur 0).pos (w.board 0).turn }

/-- The same game with an evaluation that may read the whole board (TUROCHAMP's evaluation reads `Board.HasCastled`). -/
def boardGameW (z : ZTable) (evalKey : World → Int) : Game World :=
  { isDraw := fun w => (w.board 0).result.outcome == .draw
    hash := fun w => (w.cur 0).hash
    ply := fun w => (w.board 0).ply
    moves := fun w => (w.cur 0).pos.pseudoLegalMoves (w.board 0).turn
    push := fun w m => w.pushMove z 0 m
    inCheck := fun w => (w.cur 0).pos.isChecked (w.board 0).turn
    eval := evalKey }

theorem boardGame_eq_boardGameW (z : ZTable) (evalKey : Position → Color → Int) :
    boardGame z evalKey = boardGameW z (fun w => evalKey (w.cur 0).pos (w.board 0).turn) := rfl

def materialGame (z : ZTable) : Game World := boardGame z fun pos turn => f32keyOfInt (materialPawns pos turn)

end Morlock.Model
