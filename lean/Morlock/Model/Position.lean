import Morlock.Model.Attack
import Morlock.Gen.Facts
/-!
# Model of `pkg/board/position.go`

`Position` is the Go struct field for field: `pieces[2][7]` (index 0 of each colour = all its
pieces), the rotated occupancy, castling rights and the en-passant target (0 = none).
-/
namespace Morlock.Model
open Morlock

/-- `pieces[c]`: seven bitboards, `all` is index `NoPiece`. -/
structure Side where
  all : Bitboard := 0
  pawn : Bitboard := 0
  bishop : Bitboard := 0
  knight : Bitboard := 0
  rook : Bitboard := 0
  queen : Bitboard := 0
  king : Bitboard := 0
deriving DecidableEq, Repr, Inhabited

def Side.get (s : Side) : Piece → Bitboard
  | .none => s.all | .pawn => s.pawn | .bishop => s.bishop | .knight => s.knight
  | .rook => s.rook | .queen => s.queen | .king => s.king

def Side.set (s : Side) (k : Piece) (v : Bitboard) : Side :=
  match k with
  | .none => { s with all := v } | .pawn => { s with pawn := v } | .bishop => { s with bishop := v }
  | .knight => { s with knight := v } | .rook => { s with rook := v } | .queen => { s with queen := v }
  | .king => { s with king := v }

structure Position where
  white : Side := {}
  black : Side := {}
  rotated : Rotated := {}
  castling : Nat := 0
  enpassant : Nat := 0
deriving DecidableEq, Repr, Inhabited

namespace Position

def side (p : Position) : Color → Side
  | .white => p.white
  | .black => p.black

def setSide (p : Position) (c : Color) (s : Side) : Position :=
  match c with
  | .white => { p with white := s }
  | .black => { p with black := s }

/-- `p.pieces[c][k]`. -/
def pieces (p : Position) (c : Color) (k : Piece) : Bitboard := (p.side c).get k

/-- `Position.All`. -/
def all (p : Position) : Bitboard := p.rotated.rot

/-- `Position.IsEmpty`. -/
def isEmpty (p : Position) (sq : Nat) : Bool := !isSet p.rotated.rot sq

/-- `Position.xor`: toggles the occupancy, the colour set and the piece set. -/
def xor (p : Position) (sq : Nat) (c : Color) (k : Piece) : Position :=
  let p := { p with rotated := p.rotated.xor sq }
  let s := p.side c
  let s := s.set .none (s.get .none ^^^ bitMask sq)
  let s := s.set k (s.get k ^^^ bitMask sq)
  p.setSide c s

def piecesInOrder : List Piece := [.pawn, .bishop, .knight, .rook, .queen, .king]

/-- `Position.Square`. -/
def square (p : Position) (sq : Nat) : Option (Color × Piece) :=
  if p.isEmpty sq then none else
    let look (c : Color) : Option (Color × Piece) :=
      if !isSet (p.pieces c .none) sq then none
      else (piecesInOrder.find? fun k => isSet (p.pieces c k) sq).map fun k => (c, k)
    match look .white with
    | some x => some x
    | none => look .black

/-- `Position.captureAt`. -/
def captureAt (p : Position) (sq : Nat) (turn : Color) : Piece :=
  (piecesInOrder.find? fun k => isSet (p.pieces turn.opp k) sq).getD .none

def placementsXor (p : Position) : List (Nat × Color × Piece) → Option Position
  | [] => some p
  | (sq, c, k) :: rest => if !p.isEmpty sq then none else placementsXor (p.xor sq c k) rest

/-- `NewPosition` (`none` = the duplicate-placement error). -/
def newPosition (pl : List (Nat × Color × Piece)) (castling ep : Nat) : Option Position :=
  placementsXor { castling := castling, enpassant := ep } pl

def allPiecesList : List Piece := Gen.listAllPieces.map Piece.ofCode

/-- `Position.IsAttackedBy`. -/
def isAttackedBy (p : Position) (c : Color) (sq : Nat) (list : List Piece) : Bool :=
  let opp := c.opp
  list.any fun piece =>
    if piece = .pawn then
      pawnCaptureboard opp (p.pieces opp .pawn) &&& bitMask sq != 0
    else
      let ps := p.pieces opp piece
      ps != 0 && ((attackboard p.rotated sq piece).getD 0) &&& ps != 0

/-- `Position.IsAttacked`. -/
def isAttacked (p : Position) (c : Color) (sq : Nat) : Bool := p.isAttackedBy c sq allPiecesList

/-- `Position.IsDefended`. -/
def isDefended (p : Position) (c : Color) (sq : Nat) : Bool := p.isAttacked c.opp sq

/-- `Position.KingSquare`. -/
def kingSquare (p : Position) (c : Color) : Nat := lastPopSquare (p.pieces c .king)

/-- `Position.IsChecked`. -/
def isChecked (p : Position) (c : Color) : Bool :=
  let pos := lastPopSquare (p.pieces c .king)
  if pos != 64 then p.isAttacked c pos else false

/-- `safeCastlingSquares`. -/
def safeCastlingSquares (c : Color) (t : MoveType) : List Nat :=
  match c, t with
  | .white, .kingSideCastle => [E1, F1]
  | .white, .queenSideCastle => [E1, D1]
  | .black, .kingSideCastle => [E8, F8]
  | .black, .queenSideCastle => [E8, D8]
  | _, _ => []

/-- `Position.Move`: `none` = "not legal". -/
def move (p : Position) (m : Move) : Option Position :=
  -- (1) remove piece from "from" square
  match p.square m.from with
  | none => none
  | some (turn, piece0) =>
    let ret := p.xor m.from turn piece0
    -- (2) remove any captured piece
    let ret := if m.isCapture then ret.xor m.to turn.opp m.capture else ret
    -- (3) add piece to "to" square
    let piece := if m.isPromotion then m.promotion else piece0
    let ret := ret.xor m.to turn piece
    -- (4) special moves
    let special : Option Position :=
      match m.ty with
      | .enPassant => some (ret.xor m.enPassantCapture turn.opp .pawn)
      | .kingSideCastle | .queenSideCastle =>
        if (safeCastlingSquares turn m.ty).any (fun sq => p.isAttacked turn sq) then none
        else
          let (rf, rt) := m.castlingRookMove
          some ((ret.xor rf turn .rook).xor rt turn .rook)
      | _ => some ret
    match special with
    | none => none
    | some ret =>
      -- (5) en passant and castling status
      let ret := { ret with enpassant := m.enPassantTarget, castling := andNot ret.castling m.castlingRightsLost }
      -- (7) own king must not be left in check
      if ret.isChecked turn then none else some ret

/-- `Position.HasInsufficientMaterial`. -/
def hasInsufficientMaterial (p : Position) : Bool :=
  match popCount p.rotated.rot with
  | 2 => true
  | 3 =>
    let weak := p.pieces .white .knight ||| p.pieces .black .knight ||| p.pieces .white .bishop ||| p.pieces .black .bishop
    popCount weak == 1
  | 4 =>
    let bishops := p.pieces .white .bishop ||| p.pieces .black .bishop
    popCount bishops == 2 && popCount (Gen.whiteSquareMask &&& bishops) != 1
  | _ => false

def maskOf (sqs : List Nat) : Bitboard := sqs.foldl (fun acc sq => acc ||| bitMask sq) 0

/-- `emitMove`. -/
def emitMove (p : Position) (turn : Color) (t : MoveType) (piece : Piece) («from» : Nat) (ab : Bitboard) : List Move :=
  (toSquares ab).map fun to =>
    { ty := t, piece := piece, «from» := «from», to := to,
      capture := if t = .capture then p.captureAt to turn else .none }

def promoPieces : List Piece := Gen.listQueenRookKnightBishop.map Piece.ofCode

/-- `emitPromo`. -/
def emitPromo (p : Position) (turn : Color) (t : MoveType) (piece : Piece) («from» : Nat) (ab : Bitboard) : List Move :=
  (toSquares ab).flatMap fun to =>
    let capture := if t = .capturePromotion then p.captureAt to turn else .none
    promoPieces.map fun pc =>
      { ty := t, piece := piece, «from» := «from», to := to, capture := capture, promotion := pc }

/-- `Position.PseudoLegalMoves`, in generator order. -/
def pseudoLegalMoves (p : Position) (turn : Color) : List Move :=
  let mask := not64 (p.pieces turn .none)
  let captures := p.pieces turn.opp .none
  let moves := not64 captures
  let jumps := pawnJumpRank turn
  let promos := pawnPromotionRank turn
  let officers : List Move :=
    promoPieces.flatMap fun piece =>
      (toSquares (p.pieces turn piece)).flatMap fun «from» =>
        let ab := ((attackboard p.rotated «from» piece).getD 0) &&& mask
        p.emitMove turn .normal piece «from» (ab &&& moves) ++ p.emitMove turn .capture piece «from» (ab &&& captures)
  let pawns : List Move :=
    (toSquares (p.pieces turn .pawn)).flatMap fun «from» =>
      let origin := bitMask «from»
      let captureboard := pawnCaptureboard turn origin &&& mask
      let pushboard := pawnMoveboard p.rotated.rot turn origin
      let jumpboard := pawnMoveboard p.rotated.rot turn pushboard &&& jumps
      p.emitMove turn .capture .pawn «from» (andNot (captureboard &&& captures) promos) ++
      p.emitMove turn .push .pawn «from» (andNot pushboard promos) ++
      p.emitMove turn .jump .pawn «from» jumpboard ++
      p.emitPromo turn .capturePromotion .pawn «from» (captureboard &&& captures &&& promos) ++
      p.emitPromo turn .promotion .pawn «from» (pushboard &&& promos) ++
      (if p.enpassant != 0 then p.emitMove turn .enPassant .pawn «from» (captureboard &&& bitMask p.enpassant) else [])
  let king : List Move :=
    let kb := p.pieces turn .king
    if kb = 0 then [] else
      let «from» := lastPopSquare kb
      let ab := kingAttackboard «from» &&& mask
      let castle (right : Nat) (cmask : List Nat) (rookSq : Nat) (t : MoveType) (to : Nat) : List Move :=
        if (p.castling &&& right != 0) && (maskOf cmask &&& p.rotated.rot) == 0 && (p.pieces turn .rook &&& bitMask rookSq != 0)
        then p.emitMove turn t .king «from» (bitMask to) else []
      p.emitMove turn .normal .king «from» (ab &&& moves) ++ p.emitMove turn .capture .king «from» (ab &&& captures) ++
      (match turn with
       | .white =>
         castle wK Gen.whiteKingSideCastlingMask H1 .kingSideCastle G1 ++
         castle wQ Gen.whiteQueenSideCastlingMask A1 .queenSideCastle C1
       | .black =>
         castle bK Gen.blackKingSideCastlingMask H8 .kingSideCastle G8 ++
         castle bQ Gen.blackQueenSideCastlingMask A8 .queenSideCastle C8)
  officers ++ pawns ++ king

/-- `Position.LegalMoves`. -/
def legalMoves (p : Position) (turn : Color) : List Move :=
  (p.pseudoLegalMoves turn).filter fun m => (p.move m).isSome

/-- `Position.IsCheckMate`. -/
def isCheckMate (p : Position) (c : Color) : Bool := p.isChecked c && (p.legalMoves c).isEmpty

end Position
end Morlock.Model
