-- This module serves as the root of the `Morlock` library.
-- Import modules here that should be built as part of the library.
import Morlock.Basic
