"""Per-property configuration of ./check (which Lean modules hold the theorems, which harness
streams tie the model to the code, what counts as a non-trivial case)."""

PROPS = {}
NOT_APPLICABLE = {}
HOOK_COMMITS = []


def replay_custom(prop, witness, ctx):
    fn = CUSTOM_REPLAY.get(prop)
    if fn is None:
        print("no custom replay for", prop)
        return 1
    return fn(witness, ctx)


CUSTOM_REPLAY = {}

PROPS["C09"] = dict(
    level_text="Lean theorems over the transcription of score.go: Less is exactly the order of an Int rank embedding of the documented chain "
               "(hence irreflexive, transitive, total), Negate is an involution and order-reversing, IncrementMateDistance is strictly monotone, "
               "Max/Min agree - for all scores, not a sample. The transcription is tied to the code by an exhaustive-in-mates differential run on every check.",
    level_note="Trusted: Lean kernel (axioms propext, Classical.choice, Quot.sound at most), the hand transcription Morlock.Model.Score "
               "(checked against the implementation on ~5.5e5 ops per run), float32 order embedding; NaN excluded; int8 edge cases stated explicitly.",
    technique="Lean 4 proof (order embedding + omega) over a hand-written model, differential correspondence impl/model/spec",
    modules=["Morlock.Props.C09"],
    streams=["score"],
    rule="all ordered pairs over {256 mate bytes, +inf, -inf, invalid, ~40 float32 keys incl. ±0, subnormals, ±max, ±Inf} "
         "x {less,max,min,antitone,incmono,trichotomy} + sampled triples for transitivity; "
         "a pair is non-trivial and distinct when its two scores differ (keyed by the pair)",
    partial=["NaN is outside the property (constructible scores are finite or ±Inf floats)",
             "int8 edge: neg_antitone excludes Mate=-128, inc_mono excludes |Mate|=127 (theorem int8_edge shows why)"],
    modelled=["eval/score.go: Less, Negate, IncrementMateDistance, MateDistance, Max, Min -> Morlock.Model.Score"],
    exhaustive=True,
    assumptions=["float32 order embedding key(x) (sign-magnitude bits, ±0 -> 0) preserves <, == and unary minus on non-NaN floats"],
)
