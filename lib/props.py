"""Per-property configuration of ./check (which Lean modules hold the theorems, which harness
streams tie the model to the code, what counts as a non-trivial case)."""

PROPS = {}
NOT_APPLICABLE = {}
HOOK_COMMITS = []


def replay_custom(prop, witness, ctx):
    fn = CUSTOM_REPLAY.get(prop)
    if fn is None:
        print("no custom replay for", prop)
        return 1
    return fn(witness, ctx)


CUSTOM_REPLAY = {}

import os, subprocess, json as _json


def race_step(ops_by_tier):
    """Extra step: run some ops in-process in a harness built with the Go race detector."""
    def step(ctx):
        tier = ctx["tier"]
        ops = ops_by_tier.get(tier) or ops_by_tier.get("quick") or []
        if not ops:
            return {}
        exe = os.path.join(ctx["work"], "bin", "mlharness-race")
        r = ctx["run"](["go", "build", "-race", "-tags", "verif", "-o", exe, "./cmd/mlharness"], cwd=ctx["harness"], env=ctx["goenv"])
        if r.returncode != 0:
            return dict(problems=[dict(kind="race-build", detail=r.stdout[-2000:])])
        viol, n = [], 0
        env = dict(os.environ, GORACE="halt_on_error=1 exitcode=66")
        for op in ops:
            op = op.replace("$SEED", str(ctx["seed"]))
            n += 1
            try:
                p = subprocess.run([exe, "-evalop", op, "-out", ctx["work"], "child"], env=env, stdout=subprocess.PIPE,
                                   stderr=subprocess.STDOUT, text=True, timeout=600)
            except subprocess.TimeoutExpired:
                viol.append(dict(custom="race", op=op, impl="hang under the race detector", spec="completes"))
                continue
            out = p.stdout
            if "DATA RACE" in out or p.returncode == 66:
                where = [l.strip() for l in out.splitlines() if ".go:" in l and "/repo/" in l][:4]
                viol.append(dict(custom="race", op=op, impl="DATA RACE " + " | ".join(where), spec="no data race"))
            elif p.returncode != 0:
                viol.append(dict(custom="race", op=op, impl="crash: " + out[-300:], spec="no crash"))
            else:
                last = out.strip().splitlines()[-1] if out.strip() else ""
                if last.startswith(("MIXTURE", "USED", "REPLACED", "MISMATCH", "VIOLATION")):
                    viol.append(dict(custom="race", op=op, impl=last[:300], spec="ok"))
        return dict(ops=n, distinct=n, stats={"race-detector-runs": n}, samples=["race: " + o for o in ops[:2]], violations=viol)
    return step


def _replay_race(witness, ctx):
    exe = os.path.join(ctx["work"], "bin", "mlharness-race")
    r = ctx["run"](["go", "build", "-race", "-tags", "verif", "-o", exe, "./cmd/mlharness"], cwd=ctx["harness"], env=ctx["goenv"])
    if r.returncode != 0:
        print(r.stdout[-1000:])
        return 1
    env = dict(os.environ, GORACE="halt_on_error=1 exitcode=66")
    p = subprocess.run([exe, "-evalop", witness["op"], "-out", ctx["work"], "child"], env=env, stdout=subprocess.PIPE, stderr=subprocess.STDOUT, text=True, timeout=900)
    bad = "DATA RACE" in p.stdout or p.returncode != 0
    print(("reproduced: " if bad else "not reproduced: ") + p.stdout[-400:])
    return 1 if bad else 0

PROPS["C09"] = dict(
    level_text="Lean theorems over the transcription of score.go: Less is exactly the order of an Int rank embedding of the documented chain "
               "(hence irreflexive, transitive, total), Negate is an involution and order-reversing, IncrementMateDistance is strictly monotone, "
               "Max/Min agree - for all VALID scores (Spec.Score.Valid: a mate score has Mate != 0, as the field's documentation says), not a sample. The transcription is tied to the code by an exhaustive-in-mates differential run on every check.",
    level_note="Trusted: Lean kernel (axioms propext, Classical.choice, Quot.sound at most), the hand transcription Morlock.Model.Score "
               "(checked against the implementation on ~5.5e5 ops per run), float32 order embedding; NaN excluded; int8 edge cases stated explicitly.",
    technique="Lean 4 proof (order embedding + omega) over a hand-written model, differential correspondence impl/model/spec",
    modules=["Morlock.Props.C09", "Morlock.Props.C09Edge"],
    streams=["score", "c09win"],
    rule="(c09win: 30 / 600 searches under one-sided windows - the result is a score of the order, the clipped value) all ordered pairs over {256 mate bytes, +inf, -inf, invalid, ~40 float32 keys incl. ±0, subnormals, ±max, ±Inf} "
         "x {less,max,min,antitone,incmono,trichotomy} + sampled triples for transitivity; "
         "a pair is non-trivial and distinct when its two scores differ (keyed by the pair)",
    partial=["NaN is outside the property (constructible scores are finite or ±Inf floats)",
             "int8 edge: neg_antitone excludes Mate=-128, inc_mono excludes Mate=127 and Mate=-128 (theorem int8_edge shows why)",
             "MateInXScore(0) is constructible but not a valid score: outside the ORDER theorems, inside the stream; what Less does with it (and with Invalid) against every partner is proved in Props/C09Edge (incomparable with every heuristic score, above every mate score, hence transitivity fails through it: mate0_breaks_transitivity)"],
    modelled=["eval/score.go: Less, Negate, IncrementMateDistance, MateDistance, Max, Min -> Morlock.Model.Score"],
    exhaustive=True,
    assumptions=["float32 order embedding key(x) (sign-magnitude bits, ±0 -> 0) preserves <, == and unary minus on non-NaN floats"],
)

CHESS_TRUST = ["decoding of FEN text in the driver uses Model.Fen.decode (itself tied by the fen streams)"]

PROPS["C01"] = dict(
    modules=["Morlock.Props.C01", "Morlock.Props.C01Describe", "Morlock.Props.GenTie", "Morlock.Props.GenTieExamples"],
    streams=["c01"],
    level_text="Lean theorems (full): on every position whose views agree (Rep) and that satisfies the decidable WF (at most one king per side, castling rights imply the king at home, "
               "an e.p. target only on the right rank, empty, behind an enemy pawn) the model's legal moves, read through absMove, are a PERMUTATION of the FIDE legal moves of the "
               "reference semantics (legal_perm: exactly the set, each once); per move kind: officers, king steps, pawn pushes / double steps / captures / promotions x4 / en passant, "
               "both castlings (officers_iff, pawns_iff, castles_iff, pseudo_iff, pseudo_nodup); every generated move carries accurate kind / piece / capture metadata: "
               "its MoveType, piece and captured piece are exactly what the reference's Spec.describe says about that move in that position (C01Describe.pseudo_describe; "
               "pseudo_metaOK gives the weaker MetaOK and ClassOK the refinement proofs use); Move accepts a generated move iff the rules call it legal (move_isSome_iff_legal); WF is proved necessary (two kings). Reachability: the invariant WFplay (WF and the side not to move is not in check) holds at "
               "the start position and is preserved by every generated move that Move accepts (wf_preserved; plain WF alone is NOT preserved - wf_not_preserved exhibits the "
               "king capture), hence every position reachable by generated moves satisfies all of the above (reachable_wf, reachable_refines, reachable_legal). The enums, "
               "piece lists and masks the generator depends on are re-proved equal to the Go source on every run (GenTie). Tie: ordered move lists with all six fields and legality "
               "flags impl vs model exact; impl vs reference as sets; perft vs reference and published counts.",
    level_note="Trusted: Lean kernel; Model.Position tied by exact comparison on generated positions; Spec.Chess as the reference (perft-validated against the published counts).",
    technique="Lean 4 proof staged by move kind (bitboard shifts and attack tables vs mailbox rules via the Rep relation and the C06 table theorems) + differential impl/model/spec + perft",
    rule="positions from the 53-FEN corpus, biased random playouts (castling/e.p./promotion/check weighted), synthetic well-formed placements incl. odd material; "
         "non-trivial = position with check, e.p. right, castling move, promotion, an illegal pseudo-legal move (pin/king walk), mate or stalemate; distinct by the 4 FEN position fields",
    partial=[],
    modelled=["board/position.go: PseudoLegalMoves, emitMove, emitPromo, captureAt, Move, LegalMoves, IsAttackedBy, IsChecked, safeCastlingSquares -> Model.Position",
              "board/bitboard.go: attack tables and pawn boards -> Model.Attack", "board/move.go -> Model.Types"],
    trusted=CHESS_TRUST,
)

PROPS["C14"] = dict(
    modules=["Morlock.Props.C14", "Morlock.Props.GenTie", "Morlock.Props.C05Sync", "Morlock.Props.C14Print"],
    streams=["fencanon", "game", "engine"],
    level_text="Lean theorems (full): decode (encode p c np fm) = (p, c, np, fm) for EVERY position whose views agree (Rep), all rights sets, any target square, clocks up to int64 "
               "(decode_encode; the int64 bound is proved necessary); encode (decode s) = s for every canonical FEN string (encode_decode, with Canonical the standard grammar), "
               "every encode output is canonical (encode_canonical). The reported-FEN part (standard clocks over game histories incl. take-backs) is decided by the game/engine "
               "streams against clocks recomputed from the whole history (Spec.Game); C05/C08 theorems carry the clock bookkeeping.",
    level_note="Trusted: Lean kernel; Model.Fen transcription tied by the fen streams (canonical FENs impl vs model vs an independent strict FEN reader/writer); Spec.Game as reference for reported FEN.",
    technique="Lean 4 proof (run-length rank codec, 8x8 grid, Rep machinery, Nat.toDigits round trip) + differential impl/model/spec over canonical FENs and game histories",
    rule="canonical FENs of generated positions with all 16 rights sets, e.p. on both ranks, both sides, clocks 0..10^6; game histories with castling, e.p., promotions, "
         "take-backs and forks; non-trivial = distinct (position key, clocks) / history containing a special move, draw, fork or pop",
    partial=["'the FEN an engine reports is the standard FEN of its game' is a theorem for every board built by set-up, generated moves, take-backs and forks: C14Print.reported_fen_is_standard / engine_position_is_standard (Fen.encode of the board = the FEN string of the whole-history reference game; encode_eq_printFen proves the two printers equal as strings); boards outside GenGame (set-ups that are not PosOK, pops below a fork point): streams"],
    modelled=["board/fen/fen.go: Decode, Encode and helpers -> Model.Fen", "board/board.go clocks -> Model.Board"],
)

PROPS["C19"] = dict(
    modules=["Morlock.Props.C19", "Morlock.Props.C19Board", "Morlock.Props.C19Any"],
    streams=["fenstrings", "engine"],
    level_text="Lean theorems (ALL strings). Move strings (Model.EngineM = Engine.Move / TakeBack / Reset, the model the engine stream ties to the code): on a well-formed position of a game not yet adjudicated, "
               "Move accepts a string iff it parses to a move that the REFERENCE calls legal there (move_accepted_iff, via C01.legal_perm and pseudo_nodup - the latter makes the first-match loop "
               "right), the new state is then the push of that legal move and abs of it is Spec.apply (move_accepted_push); a rejected Move / TakeBack / Reset leaves the WHOLE state unchanged "
               "(move_rejected_unchanged, takeBack_rejected_unchanged, reset_rejected_unchanged); TakeBack is accepted iff there is a move to take back and restores every observation (C08); Reset is "
               "accepted iff Decode accepts; lifted over any list of strings from any accepted well-formed FEN (feed_inv, game_move_accepted_iff). FEN half: the decoders are total functions in the model (no partial definitions); every square the placement loop hands to NewPosition is "
               "< 64 and strictly decreasing (placements_in_range: no index out of range, no duplicate); every accepted FEN yields a position whose views all agree, rights < 16, "
               "target < 64, clocks in int64 (decoded_wellformed) and re-encodes to a canonical FEN that decodes to the SAME value (accepted_roundtrip, accepted_normalised); the "
               "repaired overflow witness is proved rejected. Tie: grammar-based mutations, Unicode digits/letters, over-long digit runs, raw bytes run on the implementation with panics "
               "mapped to an outcome class and compared with the model; accepted FENs must re-encode to a FEN decoding to the same position with consistent views.",
    level_note="Trusted: Lean kernel; Model.Fen tied by the fenstrings stream (outcome class + re-encoded FEN exact); Go string->rune conversion. "
               "Engine.Move / TakeBack / Reset are driven through the real engine.Engine with rejected text interleaved (engine stream): accepted iff the text denotes a legal move of the reference, rejected input leaves every getter unchanged.",
    technique="Lean 4 totality-by-construction + range theorem over all strings; differential fuzzing impl vs model",
    rule="valid FEN x {token deletion/duplication/swap, digit inflation 0/9, long digit runs, Unicode digits & letters, NUL/tab/NBSP, field count changes, huge/negative/signed clocks} "
         "+ raw bytes + move/square strings; non-trivial = accepted, or longer than 10 runes; distinct by rune sequence",
    partial=["'well-formed value' is read as: non-nil, all views agree, re-encoding decodes to the same position; chess-level plausibility (kings, e.p. pawn) is not demanded of a FEN decoder",
             "move_accepted_iff assumes the current position well-formed (WF): Decode does not guarantee that (castling rights without the king at home decode fine); for boards descending from a well-formed set-up by generated moves, take-backs and forks the hypothesis is discharged (C19Board.move_accepted_iff_genBoard, through C07Board's LineWF invariant over the history nodes); from a decoded FEN that is not WF: C19Any gives the exact condition (firstDecides: necessary and sufficient for 'accepted iff the text denotes a move of LegalMoves'), a handy sufficient one (epClean and castleClean), the hypothesis-free directions (accepted => denotes a legal move of the model; rejected => unchanged), and a kernel-checked witness that the equivalence fails on an impossible position (8/8/4n3/r2P3K/8/8/8/k7 w - e6: the e.p. target holds a knight, the generator lists d5xe6 twice, the first - an illegal capture - decides, while LegalMoves lists the phantom e.p.); by the rules of chess the text denotes no legal move there, so the rejection is right and this is an observation about LegalMoves on impossible positions, not a finding"
             "position is not re-derived (no invariant over history nodes) - there the engine stream decides"],
    modelled=["board/fen/fen.go Decode; board/move.go ParseMove; board/square.go ParseSquare(Str), ParseFile, ParseRank -> Model.Fen; engine/engine.go Reset, Move, TakeBack, Position -> Model.EngineM"],
)

PROPS["C06"] = dict(
    modules=["Morlock.Props.C06", "Morlock.Props.C06Queries", "Morlock.Props.C01", "Morlock.Props.GenTie", "Morlock.Props.C20Sargon", "Morlock.Props.C20Bernstein", "Morlock.Props.C20Xray"],
    streams=["c06", "playq", "sargon", "bernstein"],
    level_text="Lean theorems (full, no enumeration of boards): for every square and EVERY occupancy < 2^64 the rook/bishop/queen attackboards computed through the "
               "rotated bitboards and the generated index tables equal the ray sets of the reference geometry (first blocker included); king, knight and pawn "
               "boards equal their step sets; NewRotatedBitboard establishes and Xor preserves the rotation invariant (tables proved injective). The table "
               "constants are read from Morlock.Gen (regenerated from bitboard.go on every run) inside kernel-evaluated facts, so a changed constant re-opens "
               "the proof. Derived queries: IsAttacked / IsDefended / IsChecked equal the reference 'some enemy piece attacks the square' on every represented position "
               "(C06Queries.isAttacked_eq, isChecked_eq; needs the symmetry of the attack relation, proved), IsCheckMate = in check and no reference legal move (C01.isCheckMate_iff_spec). "
               "eval.FindCapture lists exactly the squares from which a piece of the side attacks the square, each once (C20Bernstein.findCapture_spec, findCapture_nodup); eval.FindPins returns exactly "
               "the pins of the reference ray geometry (C20Sargon.findPins_sound, findPins_complete); both are tied by the sargon / bernstein streams (pins and captures of every square compared exactly).",
    level_note="Trusted: Lean kernel (decide +kernel for the 64-square geometric side conditions); Model.Attack transcription of the init loops tied by an exhaustive "
               "run over all 64 x 256 line states per line through the exported API; Spec.Chess ray geometry.",
    technique="Lean 4 proof: lock-step induction scan loop vs reference ray + kernel-decided table facts; exhaustive differential over line states",
    rule="exhaustive: 64 squares x 256 states of the rank, file and both diagonals (+ queen on rank|file), all squares for K/N/P; random full occupancies; derived queries on generated positions; "
         "non-trivial = (square, line state) pair / position with check, pin, e.p., castling or promotion; distinct by (sq,state) or position key",
    partial=[],
    modelled=["board/bitboard.go: init loops of king, knight, rookrank, rookfile, bishopL, bishopR; Rook/Bishop/Queen/King/KnightAttackboard, Attackboard, "
              "RotatedBitboard.Xor, NewRotatedBitboard, PawnCaptureboard -> Model.Attack; the seven index tables -> Gen.Tables (generated)"],
    exhaustive=True,
)

PROPS["C02"] = dict(
    modules=["Morlock.Props.C02", "Morlock.Props.GenTie"],
    streams=["c02", "playq"],
    level_text="Lean theorems (full): a relation Rep p b ('bitboard position p represents mailbox board b': occupancy, colour sets, twelve piece sets, three rotated boards, "
               "nothing set >= 64) is established by NewPosition and preserved by the xors Move makes (placing on an empty square, removing exactly the piece that stands there); for every move whose metadata is accurate (MetaOK, decidable) Position.Move yields "
               "a position representing exactly the board the rules prescribe (origin emptied, promoted piece, e.p. victim removed, rook hop), with castling rights = old "
               "minus those of every home square touched and the e.p. target set iff double step; abs p' = Spec.apply (abs p) m (for moves with MetaOK, ClassOK and LandOK - all generated moves have them); lifted over all move sequences "
               "(reachable_rep, play_refines) - so a redundant view can never disagree later. 'MetaOK holds for every generated move' of every position reachable by generated moves from a well-formed start is C01.reachable_wf.",
    level_note="Trusted: Lean kernel; Model.Position tied by apply/playq streams (successor FEN, rights, e.p., views agreement after every move, source position untouched).",
    technique="Lean 4 refinement proof (Rep relation preserved by xor; Move = <= 4 xors) + differential impl/model/spec on all pseudo-legal moves of generated positions",
    rule="every pseudo-legal move (legal and illegal) of generated positions applied on impl, model and spec; played lines without re-decoding; non-trivial = special move kinds "
         "(capture, e.p., castling, promotion, jump) / lines containing them; distinct by (position, move) or line",
    partial=["'the position moved from is left untouched' holds by construction in the (pure) model; that Go's copy `ret := *p` really isolates the source is decided by the stream (source re-observed after every move)"],
    modelled=["board/position.go: NewPosition, xor, Move, Square, IsEmpty; board/move.go: EnPassantTarget, EnPassantCapture, CastlingRookMove, CastlingRightsLost; RotatedBitboard.Xor"],
)

PROPS["C07"] = dict(
    modules=["Morlock.Props.C07", "Morlock.Props.C07Board", "Morlock.Props.GenTieExamples"],
    streams=["game", "engine"],
    level_text="Lean theorems (full, for EVERY table z with z.enpassant 0 = 0): the incremental update ZobristTable.Move applied to Hash(p) equals Hash of the successor for "
               "every accurate move (all kinds: capture, promotion, e.p., both castlings), and two represented positions differing in exactly one square / the rights / the "
               "e.p. target / the side have hashes differing by the xor of the two keys involved (hence different when those keys differ). At BOARD level (C07Board): on every board "
               "descending from a set-up on a well-formed position by generated moves, take-backs and forks in any order (GenBoard), the hash the board maintains equals the "
               "from-scratch hash of the position and side it has reached (hash_eq_scratch), hence two such boards - any worlds, histories, clocks - that reached the same position and "
               "side report the same hash (hash_path_independent). The hypothesis z.enpassant 0 = 0 is a fact about NewZobristTable (it fills only the e.p. keys of ranks 3 and 6) tied by "
               "the stream (the recovered key of square 0 is compared), not extracted. Tie: Board.Hash() vs Hash-from-scratch after every operation for table seeds 0, 1, a random one and "
               "the edges of the seed domain, keys recovered through the exported Hash so that impl vs model is bit-exact; every recovered table is judged (separating keys non-zero, distinct).",
    level_note="Trusted: Lean kernel; Model.Zobrist tied bit-exactly by the game stream; math/rand table generation not modelled (the theorems quantify over all tables).",
    technique="Lean 4 proof (hash as xor-fold over squares; Move touches <= 4 squares) + differential game histories with hash columns",
    rule="game histories (push/pop/fork over up to 4 boards) from corpus/synthetic starts with castling, e.p., promotions; hash and scratch hash printed after every op; "
         "non-trivial = history with a special move, draw, fork or pop; distinct by script",
    modelled=["board/zobrist.go: Hash, Move -> Model.Zobrist"],
)

PROPS["C08"] = dict(
    modules=["Morlock.Props.C08", "Morlock.Props.C08Many"],
    streams=["game"],
    level_text="Lean theorems (full) on an arena model of the pointer-linked history: push then pop restores every observation (position, side, hash, clock, ply, full moves, "
               "castled flags, last / second-to-last move, HasMoved(k) for every k, the repetition map) and leaves a not-drawn result, at any nesting depth (pushes_pops), "
               "play continues identically afterwards (continue_identically), operations on a fork and on the original that stay at or above the fork point are isolated from "
               "each other for every interleaving of moves and take-backs on the original and ONE fork (fork_isolated; further forks inside the interleaving, three or more boards and adjudication are covered by the stream, which uses up to four boards), both see the common past (fork_shares_past, fork_replays). The hypotheses that are needed are proved "
               "necessary (castled_flag_lost, pop_below_fork_clobbers).",
    level_note="Trusted: Lean kernel; Model.Board arena transcription tied by the game stream (all getters of all boards after every operation).",
    technique="Lean 4 proof over an append-only arena (views erased of indices; separation invariant for forks) + differential op sequences over up to 4 boards",
    rule="random interleavings of push / pop / fork / switch over 1-4 boards, pops never below a fork point; all getters of every board compared after every op; "
         "non-trivial = script with fork or pop or special move; distinct by script",
    partial=["castled flags are restored under CastleOnce (a side castles at most once along a line - guaranteed by chess, not checked by the board)",
             "fork isolation: C08Many.isolated_many covers any number of boards, forks at any time, forks of forks and adjudication (each board reports what running only its own lineage of operations would report), under the side condition that no board pops below the point where it was created or last forked (pop_below_fork_clobbers shows the condition is needed)"],
    modelled=["board/board.go: NewBoard, Fork, PushMove, PopMove, LastMove, SecondToLastMove, HasMoved, HasCastled, getters -> Model.Board"],
)

PROPS["C05"] = dict(
    modules=["Morlock.Props.C05", "Morlock.Props.C07Board", "Morlock.Props.GenTie", "Morlock.Props.C05Sync"],
    streams=["game"],
    level_text="Lean theorems (full): PushMove reports a draw iff the position just reached has occurred >= 3 times on the WHOLE line (start included) or the clock >= 100 or the "
               "move was a capture / under-promotion into insufficient material, with the reason by precedence and 'five-fold' from 5 (draw_iff, draw_sound, draw_complete, "
               "result_characterisation); the repetition scan over the reversible tail equals the whole-line count (repetition_count_exact: the loop bound that includes the position "
               "right after the last irreversible move; irreversibility DERIVED from the rules by a decreasing measure: irreversible_from_rules); the hash pre-filter never hides a "
               "repetition (prefilter_complete, RepMapOK invariant over newBoard/push/pop/fork incl. forks: repMap_invariant); the half-move clock is exact and castling does not reset it "
               "(clock_exact); HasInsufficientMaterial = K v K / K+minor v K / two bishops on one colour (material_iff, material_iff_spec); adjudication = checkmate iff in check "
               "(adjudicate); and the link to the reference history semantics Spec.Game.drawReasons for whole games (spec_link, game_link). Tie: after every push/pop/fork of generated "
               "histories the reported result vs the draw conditions recomputed from the whole history by the reference.",
    level_note="Trusted: Lean kernel; Model.Board tied by the game stream; Spec.Game as the reference. The hypotheses 'moves are generated moves of the side to move' (GoodMove / MoveSound) are now DERIVED from the generator for every "
               "game played with generated moves from a well-formed start (pseudo_moveSound, draw_iff_reachable, game_link_reachable; invariant WFplay = WF + side not to move not in check, "
               "preserved by every accepted generated move: C01.wf_preserved), and - C07Board.draw_iff_genBoard - for every board descending from such a set-up by generated moves, TAKE-BACKS and "
               "FORKS in any order (GenBoard; invariant: every node of the line satisfies WFplay); set-up clock >= 0 and two kings for the material rule remain hypotheses on the start. "
               "The link to the reference Spec.Game (spec_link, game_link) is proved for linear games; after take-backs and on forks it is decided by the stream. Reason precedence when several conditions hold is not prescribed by the property: any holding reason is accepted by the stream.",
    technique="Lean 4 refinement proof (arena line vs whole-history count; decreasing measure for irreversibility; C07 for hash faithfulness) + differential game histories",
    rule="histories in 4 styles (biased, shuffling, quiet, mixed) from 24 draw-prone starts + corpus + synthetic; non-trivial = history reaching a draw (rep3/rep5/np/mat), adjudication, fork, pop or special move; distinct by script",
    partial=["the link to the whole-history reference Spec.Game is a theorem for every board built by set-up, generated moves, take-backs and forks (C05Sync: GenGame carries the reference game along; "
             "draw_agrees, position_agrees, genBoard_game); boards outside GenGame (set-ups that are not PosOK, popping below a fork point) are decided by the stream",
             "operations on OTHER boards interleaved between the steps of one board: C05Sync.sync_other / C08Many.isolated_many (any number of boards, forks of forks, adjudication; no pop below a fork point)"],
    modelled=["board/board.go: PushMove draw logic, identicalPositionCount, updateNoProgress, AdjudicateNoLegalMoves; position.go HasInsufficientMaterial -> Model.Board / Model.Position"],
)

SEARCH_MODELLED = ["search/alphabeta.go: AlphaBeta.Search, runAlphaBeta.search; quiescence.go; minimax.go; exploration.go MVVLVA; search.go Leaf, childBound; "
                   "transposition.go (sequential reading); board/movelist.go + container/heap Init/Pop -> Model.Search, Model.TT, Model.MoveList"]

PROPS["C13"] = dict(
    modules=["Morlock.Props.C13", "Morlock.Props.C13Engines", "Morlock.Props.C13Window", "Morlock.Props.C09"],
    streams=["c13"],
    timeout=dict(quick=900, thorough=6000),
    level_text="Lean theorems (every Game, exploration (node-dependent allowed: C13Engines gives the TUROCHAMP and BERNSTEIN instances), depth and window with K+d <= 127 - the int8 mate-distance limit made explicit): with no table and no halt the "
               "transcribed alpha-beta returns r with Clip(alpha, beta, V, r) where V is plain negamax over the same explored moves and leaf (alphabeta_clip), including "
               "mate-score bounds and the degenerate child windows at the ends of the order (alphabeta_any_window); the quiescence search satisfies the same against its own "
               "full-window value (quiescence_clip), never rates a NOT-DRAWN position with a legal move below its static evaluation (standpat; a drawn position is rated 0) and rates mate/stalemate exactly "
               "(quiescence_terminal); the heap move order is proved to be a permutation (so the value is order independent). The pre-repair window is proved wrong on a witness. "
               "Tie: random windows on generated positions/histories, impl vs model exact (nodes, score, PV), impl vs Clip of the exhaustive reference.",
    level_note="Trusted: Lean kernel; Model.Search tied exactly (node counts and PV tie-breaks included); Spec.Search exhaustive negamax with full-history draw rules as the "
               "implementation-side oracle. The theorems are about table-free, unhalted searches (tables: C11, halts: C12). The quiescence model and its reference carry a fuel argument the Go code "
               "does not have; enough_fuel removes it wherever every capture line ends within the fuel (QDone), and chess_enough_fuel / chess_V_fuel_irrelevant prove that for the captures-only "
               "exploration on every board of the chess game fuel 64 always suffices (each capture removes a man). EvalOk is proved for the chess game (chess_evalOk) and every theorem is instantiated on it.",
    technique="Lean 4 proof: loop invariant of the fail-hard move loop in rank space, graded validity of mate distances, permutation invariance of the reference maximum; differential windows",
    rule="positions with histories (corpus, mate endgames, synthetic) x depth 0-4 x 4 configurations x 5 windows (bounds -inf, M+-k, heuristic, +inf); non-trivial = distinct script",
    partial=[],
    modelled=SEARCH_MODELLED,
)

PROPS["C03"] = dict(
    modules=["Morlock.Props.C03", "Morlock.Props.C13", "Morlock.Props.C13Engines", "Morlock.Props.C09"],
    streams=["c03"],
    timeout=dict(quick=900, thorough=6000),
    level_text="Lean theorems (every Game, every exploration - priority and filter may depend on the NODE (P -> Explore), as Go's Exploration gets the board -, every leaf "
               "evaluation, every depth with leafGrade + d <= 127): the full-window search returns exactly the negamax value V (exact, search_exact), the PV is a path of legal explored "
               "moves no longer than the depth, EVERY PV move attains the value of the position it is played in (pv, pv_principal), and the PV is NON-EMPTY whenever an explored legal move exists and the value is not 'lost' "
               "(pv_nonempty, search_pv_nonempty: no table hypotheses); EvalOk holds for the chess game and every theorem is instantiated on materialGame. V is negamax over the model board's own "
               "push / draw / check (their chess meaning is C01, C02, C05; the composition into one statement against Spec.Search is not carried out: Spec.Search is the stream's oracle). "
               "C13Engines instantiates the two board-dependent explorations of the bundled engines on the chess game: TUROCHAMP's considerable moves (the predicate sees the board AFTER the move; "
               "turochampExplore_moves ties it to the considerable list the turochamp stream compares with Go) and BERNSTEIN's plausible-move table (bernsteinExplore_eq): bernstein_exact, "
               "turochamp_exact, bernstein_clip, turochamp_clip, turochamp_quiescence_clip - for every evaluation satisfying EvalOk. "
               "Board hand-back is NOT a theorem (the search model is pure: it uses the child value and keeps the parent): C08.pushes_pops says balanced push/pop pairs restore the board, "
               "and that the Go loops are balanced on every path (incl. halted) is decided by the implementation-side comparison of every getter before/after each search. "
               "Tie: full-window searches on generated positions WITH their game histories (repetition shuffles, clocks near 100, draws arising exactly at the horizon), "
               "4 configurations; impl vs model exact, impl vs the exhaustive reference negamax over Spec.Game (value, set of optimal first moves); a harness-side exhaustive "
               "negamax at depth 4-6 in sparse mate positions and the repository's Minimax as further oracles.",
    level_note="Trusted: Lean kernel; Model.Search tied exactly; Spec.Search reference. 'mate score = forced mate in exactly that many plies' is the definition of V (NegInf at a "
               "mated node, one ply added per level). At a root where a draw can be claimed the root is searched (a move is wanted) - the reference does the same.",
    technique="Lean 4 proof (corollary of the C13 Clip theorem at the full window + PV invariant); differential search against exhaustive negamax over full game histories",
    rule="lines of 0-24 plies from corpus / mate endgames / synthetic starts x depth 0-4 (deep only in sparse positions) x 4 configurations; curated horizon-draw and repetition histories; "
         "deep oracle d=4-6; non-trivial = distinct script; mate scores counted",
    partial=["exhaustive reference quiescence only affordable with <= 12 men (busy positions: impl vs model only)",
             "board hand-back decided by the stream (getter comparison; at a root without legal moves the search adjudicates mate/stalemate on the caller's board: accepted, documented in DESIGN 7), not by a theorem",
             "the engines' own searches: EvalOk of their float evaluations and fuel sufficiency of TUROCHAMP's quiescence (a picked move is a capture or a quiet mating move: 65 plies always, 33 with <= 32 men) are proved "
             "(C13Engines.*_engine_*, turochamp_engine_enough_fuel*); the searches BERNSTEIN and TUROCHAMP run are compared with the model exactly (cfgs bern-static / turo-quiet in the c03 stream: nodes, score, PV): plausible table at every node + float evaluation; "
             "considerable-moves quiescence whose predicate sees the board after the move + an evaluation that reads the castled flags (boardGameW)"],
    modelled=SEARCH_MODELLED,
)

PROPS["C11"] = dict(
    modules=["Morlock.Props.C11", "Morlock.Props.C13"],
    streams=["c11", "c11deep"],
    timeout=dict(quick=900, thorough=6000),
    level_text="Lean theorems (every Game, exploration (node-dependent allowed), leaf evaluation, table size and min-depth filter). The hypotheses of the property are explicit and RELATIVE TO THE REGION "
               "THE SEARCHES VISIT (Tree g ex root d = what is reachable from the root by at most d explored pushes; Trees = the union for a sequence of searches): HashOKOn = two positions of the "
               "region with equal hash have equal reference values at every remaining depth ('barring collisions' AND 'position-determined': it fails if the same position occurs in the region with "
               "two histories that differ in drawn descendants), RootFreeOn / NoDrawOn = no history draw inside the region. (The earlier global forms quantified over every value of the state type "
               "and were unsatisfiable on the chess game; they remain as corollaries.) Under them a sound table (every exact entry is the true value of that position at "
               "that depth) stays sound through every search, for every window (sound_preserved, stored_exact); at the full window the result equals the table-free negamax value "
               "(transparent) and the PV is principal and non-empty at the root (pv_first_best); by list induction any SEQUENCE of searches over varying roots and depths sharing "
               "the table returns the true value each time (sequence_on, sequence_trees). Instantiated on the chess game (materialGame with a real 128-slot table, a concrete root, the tree evaluated "
               "in the kernel) for every theorem; chess_rootFreeOn gives RootFreeOn structurally (plies strictly increase below the root). Tie: iterative deepening + repeated + successive-position searches with tables 32 B - 1 MB, impl vs model "
               "exact (the model threads the same table), impl vs exhaustive reference; deep sequences against a harness-side exhaustive negamax.",
    level_note="Trusted: Lean kernel; Model.TT/Model.Search tied exactly; hash collisions on the 64-bit key and history-dependent values inside the region are outside the property and are the hypothesis HashOKOn.",
    technique="Lean 4 proof (table invariant threaded through the alpha-beta node contract; list induction over search sequences) + differential search sequences",
    rule="no-repeat histories x iterative deepening + repeat + 2 successive game positions + take-back sequences x 5 table sizes x 2 seeds; deep tt-sequence oracle (d=4-6, two PV moves, shallower searches); non-trivial = distinct script",
    partial=["HashOKOn is a hypothesis (it is the property's 'position-determined evaluations, no repetition or fifty-move draw inside the tree, barring collisions'): decided per tree, not derived from the chess model in general",
             ],
    modelled=SEARCH_MODELLED,
)

PROPS["C12"] = dict(
    modules=["Morlock.Props.C12", "Morlock.Props.C11", "Morlock.Props.C12More"],
    streams=["c12"],
    timeout=dict(quick=900, thorough=6000),
    level_text="Lean theorems (for EVERY cancellation poll index k): the search reports halted exactly when its last poll saw the cancellation (reports_halted is the definition of "
               "the final poll; the substance is reports_halted_at, halted_before_start), cancellation is monotone (cancelled_stays), a halted search leaves the table sound whatever k was (leaves_nothing: every "
               "store is guarded by a poll that said 'not cancelled'), and - under the region hypotheses of C11, instantiated on the chess game - the next search with the same table returns the true value - the same score as if the halted search had "
               "never run (next_search_exact: the SCORE; the PV may be cut elsewhere). Board hand-back: by the stream (see C03). The polls of Minimax have no theorem. Tie: cancellation forced at the k-th poll of the search context (a context whose Done() is the poll: "
               "no hook), k = 1,2,3, last-1, last, last+1, random (thorough: every k), incl. roots where a draw can be claimed; impl vs model exact, following search vs reference.",
    level_note="Trusted: Lean kernel; Model.Search poll placement tied by exact agreement on halted/not-halted for every k tried. PV equality of the follow-up search is not claimed (table hits may cut the PV at different places); its score is.",
    technique="Lean 4 proof (liveness flag in the node contract; stores guarded by polls) + fault enumeration over cancellation polls",
    rule="positions x depth 1-3 x cancel point k over the polls of the undisturbed search; sequence halt -> search (optionally search -> halt -> search); drawn roots; non-trivial = distinct script",
    partial=["follow-up search: same score and a principal (best) line, proved (C12More.followup_pv_principal*); the SAME line is not guaranteed and not claimed - followup_pv_may_differ / followup_first_move_may_differ are kernel-checked counterexamples (an exact table hit carries no continuation; a stored root move breaks ties) - it is the same line when the halted search left the table unchanged (followup_identical_of_table_unchanged)", "board hand-back after a halt: stream only", "Minimax: minimax_halt_invalid, minimax_halted_at (the run makes exactly mmNodes + 1 polls: every cancellation point characterised), minimax_no_cancel_eq_V (value = reference V, principal line), minimax_eq_alphabeta - proved for the transcription Model.minimax / Model.Minimax.minimaxSearch, which the c12 stream compares with the Go Minimax exactly (cfg minimax: nodes, score, PV, and the halted / finished verdict at the first, middle, last and one-past-the-last poll)"],
    modelled=SEARCH_MODELLED,
)

UCI_MODELLED = ["engine/uci/uci.go: process (position/ucinewgame/setoption/go depth/isready handlers), continuation, extend; engine/engine.go: Reset, Move, Analyze (iterative deepening over the search model) "
                "-> Driver.Uci (sequential, executable), Model.UciSeq.continuation"]

PROPS["C10"] = dict(
    modules=["Morlock.Props.C10", "Morlock.Props.C10Engine"],
    streams=["ucidet", "engine"],
    level_text="Lean theorems (full, for every engine as an abstract reset/move pair): the position handler (Model.UciPos, the very function the driver model calls: uciPosition_is_model by rfl) "
               "sets the engine state to denote(line) - reset on the FEN and play the moves from scratch - for every well-formed playable line, whether it takes the from-scratch path "
               "(fresh_eq_denote), the extension path (extend_eq_scratch: an extension has the same effect as setting the whole line up from scratch; a verbatim repeat is the empty "
               "extension) or falls back (fallback_eq_denote); by list induction after ANY sequence of ucinewgame / well-formed playable position commands the state is the "
               "denotation of the LAST one (state_eq_last); and on the concrete engine (proved Strict: Move refuses the words 'startpos' and a sixth FEN field) this holds after "
               "arbitrary earlier lines, garbage included (engine_robust_state_eq_last). For abstract engines that accept such words the robustness claim is proved FALSE by witness "
               "(malformed_then_wellformed_false_*), i.e. it rests on ParseMove, not on the handler. Tie: scripted sessions against the real uci.Driver, state after every command "
               "vs the model (exact) and vs a game built from the last command alone.",
    level_note="Trusted: Lean kernel; Driver.Uci/Model.UciPos tied exactly by the ucidet stream; well-formed = single spaces, six FEN fields, non-empty move words (lines with repeated "
               "blanks are outside: the two code paths tokenise them differently - observation recorded in DESIGN.md).",
    technique="Lean 4 proof over List Char (prefix/word lemmas, playing moves is a fold) for an abstract engine + instance for the concrete engine; differential scripted UCI sessions",
    rule="scripts of 2-6 position/ucinewgame commands (+go) over 38 start positions and random legal move lists; non-trivial = distinct script; kinds counted (extend/repeat/shorten/other-game/prefix-clock/same-fen/malformed)",
    partial=[],
    modelled=UCI_MODELLED,
)

PROPS["C04"] = dict(
    modules=["Morlock.Props.C04", "Morlock.Props.Audit.C04Answered", "Morlock.Props.C16", "Morlock.Props.C03", "Morlock.Props.C04Legal"],
    streams=["ucidet", "ucirace"],
    timeout=dict(quick=900, thorough=6000),
    level_text="Tie (decides the property): (a) deterministic sessions (go depth N, repeated go, hash on/off, root where a draw can be claimed): exactly one bestmove, equal to the one the "
               "Lean model of iterative deepening predicts, and member of the reference legal moves (0000 only if none); (b) interleaving scripts against the real driver with all "
               "five engine wirings (plain, morlock+hash, turochamp, sargon+book, bernstein+book; noise on): go infinite + stop, movetime, clocks, go during search, old movetime timers, "
               "judged by a trace monitor: every go that ends or is stopped gets exactly one bestmove, legal in the position of THAT go, null only without legal moves. "
               "Lean (small-step model UciConc of the command loop, forwarders, timers, engine mutex and searches; every schedule, every command list): C04.answered - in every quiescent "
               "state (all input consumed, nothing left to do) the LATEST go that ended by itself (finite / movetime / book hit) or was stopped, and was not superseded, has exactly one bestmove and "
               "one commit (an earlier go that ended before the next command is covered by applying the theorem to the prefix of the commands; no lemma composes prefixes); "
               "C16.at_most_one - never more than one bestmove per go (all ids); C03.pv - IF the PV is non-empty its first move attains the value. That the move printed is legal and "
               "null only without legal moves is not in UciConc at all (there a PV is a depth): it is decided by the streams against the reference.",
    level_note="Trusted: Lean kernel; Driver.Uci tied exactly on deterministic scripts; real goroutine scheduling and timers are only exercised through scripted interleavings "
               "(gated evaluator, sleeps) - partial by nature.",
    technique="differential + monitored scripted interleavings of the real UCI driver; Lean search-PV theorem",
    rule="deterministic scripts as in C10 with go; 30 (quick) / 400 (thorough) interleaving scripts over 10 scenario families x 5 engines; non-trivial = distinct script",
    partial=["the small-step model UciConc is tied to the code only under the canonical schedule (on every deterministic script of go / go depth n its visible events must equal those of the sequential model, which the stream "
             "ties to the real driver) and through the scripted interleavings; real scheduler/timers are exercised, not enumerated",
             "'at least one bestmove' is a theorem for the latest go of a quiescent state only (UciConc); legality and the null move are theorems at the level that carries the move - the search and the sequential driver (C04Legal: bestmove_legal for every table content and every cancellation point, null_only_without_moves / null_iff_full / _skipUnderPromotions / _bernstein for the four wirings, uciGoDepth_bestmove, position_then_go; null_with_legal_moves_model shows that an exploration which may drop every legal move - none of the bundled ones - would print 0000); the small-step model abstracts the move to 'the depth completed', so '0000 only without legal moves' is not stated there"],
    modelled=UCI_MODELLED,
)

PROPS["C16"] = dict(
    modules=["Morlock.Props.C16", "Morlock.Props.Audit.C16Superseded", "Morlock.Props.C04", "Morlock.Props.Audit.C04Answered"],
    streams=["ucirace"],
    timeout=dict(quick=900, thorough=6000),
    level_text="Tie (decides the property): interleaving scripts against the real driver, each in a child process so that a crash in any goroutine is observed: a search parked inside a "
               "gated evaluator while position/go/ucinewgame/quit/EOF/isready/unknown/malformed lines arrive, released at a chosen point; slow evaluators; movetime timers left over "
               "from earlier searches. The trace monitor demands: no crash, no hang, every isready answered, no bestmove in windows where no search may report, every bestmove legal "
               "in the position of the go it answers (a stale answer of a superseded search is illegal there by construction: side to move differs), clean shutdown on quit and EOF. "
               "Lean (small-step model UciConc; every schedule and command list): no_stale_partial - a search can only commit (win the compare-and-swap that entitles it to print) while it is "
               "the most recent go; no_commit_when_superseded (Audit.C16Superseded) - once the loop has handled ANY superseding command (position, ucinewgame, stop, a malformed go, quit, end of input) "
               "the active id is 0, so no forwarder or timer of the old search can commit; active_zero_or_latest; at_most_one; no_send_after_close (the only 'no crash' fact the model can "
               "express: a panic inside a search goroutine - such as the two crashes repaired in 552dec5 / f849efd - is outside it and is the business of the child-process scripts); "
               "C04.quiescent_shape (no deadlock at rest: the loop has finished or waits for input; the output channel is an unbounded log in the model, capacity 100 in the code); closed_after_forwarders; readyok / readyok_between - every "
               "isready is answered before the next command is consumed; clean_shutdown and quit_is_final; decided witnesses that the pre-repair designs (boolean active, close without "
               "waiting) violate them. Boundary proved by witness: between a forwarder's commit and its send the loop may already have consumed the next go "
               "(stale_send_possible, stale_window_possible) - from outside indistinguishable from a bestmove sent just before that go arrived, so 'stale' is read at the commit point.",
    level_note="Trusted: the Go runtime; scripted interleavings cover chosen schedules only; data races are checked by the race detector in the thorough tier. Partial by nature.",
    technique="fault/interleaving enumeration through a gated evaluator + trace monitor; race detector",
    rule="10 scenario families (supersede, infinite+stop, isready during search, shutdown during search, stale movetime timer, time limits, malformed lines, go during search, abandon search, bundled engines) x random parameters; non-trivial = distinct script",
    partial=["no_stale holds at the commit point, not at the send (inherent: forwarders send on their own; two decided schedules show it)",
             "UciConc is compared with the code only under the canonical schedule and only for scripts of `go` / `go depth n`, position lines and isready (events readyok / bestmove of go k); its transitions for infinite, "
             "movetime timers, book hits, stop after a commit and ponder are never compared line by line: they are exercised by the scripted interleavings and judged by the monitor",
             "crashes inside goroutines the model abstracts (search, timers) are visible only to the child-process scripts; real scheduler not enumerated; no liveness theorem"],
    modelled=UCI_MODELLED,
)

PROPS["C15"] = dict(
    modules=["Morlock.Props.C15", "Morlock.Props.C15Limits", "Morlock.Props.C15LimitsNeg", "Morlock.Props.Audit.C15Halt", "Morlock.Props.C03", "Morlock.Props.C18Cfg"],
    streams=["c15", "engcfg"],
    level_text="Lean theorem: for every clock 0 <= remaining < 2^62 ns and EVERY int64 moves-to-go (the uci parser accepts any integer), TimeControl.Limits gives 0 <= soft <= hard <= "
               "remaining and none of its divisions can panic (C15Limits.hard_le_remaining, divisor_ok; int64 wrap-around and truncating division explicit; a negative clock is outside: "
               "remaining = -80 gives hard = -3). That each iteration returns what a direct fixed-depth search returns is not a theorem of the small-step model (there `search d` is a function "
               "of the depth by assumption): it is C11.sequence / C18.state_irrelevant for the search model and the stream for the code. Tie: (a) Limits on a dense grid + random 62-bit values, impl vs model exact; "
               "(b) Engine.Analyze with depth limits on generated positions: every PV seen is compared with a direct fixed-depth AlphaBeta.Search at that depth (score and PV), depths "
               "strictly increasing, the last depth equals the model's prediction (limit, or first depth with a forced mate within the depth), Halt afterwards returns that last "
               "iteration, the engine's own game untouched; (c) a halt requested while depth 1 is still running (search parked inside a gated evaluator) returns only after depth 1 and "
               "returns a completed iteration at least as deep as any reported before. Lean small-step model IterConc (searcher, watcher, any number of Halt callers incl. the hard timer, consumer; "
               "every schedule): reports_in_order (the PVs SENT are search 1, 2, ... in order; what a consumer receives is a subsequence - the capacity-1 channel keeps the latest), "
               "stops_at_limit, halt_returns_depth1 (Audit.C15Halt: every completed Halt call returns a PV of depth >= 1 - in the model, which has no parent-context cancellation and no search "
               "error: with those the real code can return the empty PV), halt_after_depth1, halt_monotone, cancelled_only_after_quit, limits_ordered. Liveness ('otherwise runs until halted', the "
               "searcher exits after a halt) is not a theorem: the models give safety and 'quiescent => good'.",
    level_note="Trusted: Lean kernel; Model.TimeCtl tied exactly; real timers/goroutine scheduling exercised through the gate only (partial by nature).",
    technique="Lean 4 proof of the time-limit arithmetic + differential iterative deepening vs fixed-depth searches + gated halts",
    rule="limits: 16x19x2x2 grid (moves-to-go up to 2^63-1 and negative) + 2000 random (w,b,moves); iter: 40 lines x depth limit 1-5; iterx: 40 analyses on the four bundled wirings + mated-beyond-depth positions; "
         "iterseq: two analyses on one engine; iterhalt: 20 positions x gate 1-40; non-trivial = distinct parameters / script",
    partial=["IterConc is tied to the code only indirectly: on every iter op the small-step model run under the canonical schedule must stop where the SEQUENTIAL model does, and the stream ties the sequential model "
             "to the code (last depth, scores, PVs); gated-halt scenarios exercise its conclusions on the real code; real timers through the gate only",
             "no liveness theorem; parent-context cancellation and search errors are not modelled (with them Halt can return the empty PV); for a clock that has run out (negative remainder) the limits are the negated limits of its absolute value: remaining <= hard <= soft <= 0 (C15LimitsNeg.limits_neg / negative_clock, every int64 moves-to-go)"],
    modelled=["engine/engine.go options / table / noise bookkeeping -> Model/EngineCfg.lean (theorems Props/C18Cfg: launch_depth, hash_off_no_table, table_changed_only_by_reset; stream engcfg)", "search/searchctl/timectrl.go: TimeControl.Limits -> Model.TimeCtl; iterative.go process loop -> Driver.Misc.iterOp over Model.Search (sequential) and Model.IterConc (small-step: searcher, watcher, Halt callers, consumer)"],
)

PROPS["C17"] = dict(
    modules=["Morlock.Props.C17", "Morlock.Props.C11"],
    streams=["c17"],
    extra_race=True,
    level_text="Tie: (a) sequential Read/Write/Used sequences on tables of 1-2048 entries with colliding hashes, the min-depth filter and uint16 wrap-around of the replacement value, "
               "impl vs the Lean table model exact (the same model whose soundness under search is proved in C11); (b) concurrent stress: writers store self-describing tuples "
               "(every field a function of one integer that the score names) while readers check that each lookup returns exactly one tuple that one store for that same hash made; "
               "at quiescence Used()*entries equals the number of occupied slots and no slot holds an entry of smaller replacement value than a store that reported success; "
               "a rendezvous phase makes stores overlap tightly (one high-value store vs low ones on a fresh slot; every writer occupying its own fresh slot at the same moment). "
               "Lean small-step model TTConc (load / compare / CAS / atomic add as separate steps, any number of threads and slots, every schedule): no_mixture (a successful lookup returns "
               "exactly the node one Write call for that hash published - this certifies the compare-and-swap PROTOCOL; that a published node is never written again and that reading its fields "
               "after the atomic load cannot tear is an ASSUMPTION of the model (nodes are immutable values there), checked on the code only by the stress stream and the race detector), replace_le and slot_val_mono, used_exact(_quiescent), used_range, and seq_refines: non-overlapping calls behave "
               "exactly like the sequential Model.TT that the streams tie to the code; decided witness that the pre-repair plain increment loses updates.",
    level_note="Trusted: the Go memory model is only observed through the race detector on the runs made (partial by nature); Model.TT tied exactly on sequential histories.",
    technique="differential sequential table ops + concurrent stress with self-describing payloads + race detector; Lean table model",
    rule="300 sequential scripts (10-50 ops, 2-13 hashes, 5 sizes); 6 stress runs (2-6 writers, 1-4 readers, 2-200 hashes, 30000 stores each) + race-detector run; non-trivial = distinct script",
    partial=["'no data race' in the sense of the Go memory model is outside any model: race detector on the runs made (quick and thorough tier)",
             "immutability of published nodes is assumed by TTConc (tear-freedom of a lookup is therefore by construction in the model); decided on the code by self-describing payloads under stress + race detector"],
    modelled=["search/transposition.go: NewTranspositionTable, Read, Write, val, Used, WriteLimited -> Model.TT"],
)

PROPS["C18"] = dict(
    modules=["Morlock.Props.C18", "Morlock.Props.C18Cfg"],
    streams=["c18", "engcfg"],
    timeout=dict(quick=900, thorough=6000),
    level_text="Lean theorems (for the table-free search model; repeatability itself is `rfl` there - a pure function has no hidden state - so that part of the property rests on the TIE: the model agrees with the code on repeated, interleaved and concurrent runs): function_of_game - two games related by a simulation that preserves what a node reports (drawn?, ply, moves, in check?, evaluation; NOT the hash) "
               "give identical score, PV, node and poll counts at every depth and window when no table is used (hash_irrelevant); seed_independent - boards built by the same moves "
               "with two different Zobrist tables are such a simulation (the reported draw results coincide: derived from C05.draw_iff_good on both sides, not assumed), hence the "
               "search results are equal; state_irrelevant / repeatable_threaded - a search run after any other searches (any game) reports the same result as when run first; "
               "carried_table_same_score (C11); analysis_isolated - any push/pop sequence at or above the fork point on the analysis fork leaves every observation of the engine's "
               "board unchanged (C08), analysis_sees_the_game - the search on the rebased fork equals the search on the engine's own world, analyze_pure. Tie: each search (plain, "
               "turochamp, sargon, bernstein wiring) repeated, with three Zobrist seeds, after and alongside other searches: identical (nodes, score, PV); analysis parked inside an "
               "evaluation while the engine's game moves on; noise reproducible from the seed. C18Cfg (Model/EngineCfg.lean, the option / table / noise bookkeeping of engine.Engine, tied by the `engcfg` stream: "
               "a spy search records what every launch is handed, the unexported fields are read by reflection, exact comparison after every operation): for EVERY operation sequence the options are what the setters made them "
               "(opts_eq_fold_setters; an analysis never alters them), a search is launched with the limit asked for else the configured depth (launch_depth), with the table of the current game (launch_table), which only a "
               "successful Reset replaces - by a table no earlier game had (reset_table_fresh_reachable) or by none when the hash is off (hash_off_no_table) -, and with a noise source of its own (noise_seeds_increase) "
               "whose limit is the option as it was when the game started (launch_noise_of_game).",
    level_note="Trusted: Lean kernel. seed_independent_reachable discharges the GoodStep hypothesis for every game played with generated moves from a WFplay start (goodGen_of_wf, treeCheck_of_wf). Data races between an unwinding halted search and its successor: race detector (quick: SARGON supersede; thorough: more). "
               "The historical evaluators are transcribed (C20: BERNSTEIN, SARGON incl. its per-board reference values - the shared state repaired in 353417e -, TUROCHAMP incl. independence of Go's map order); "
               "their wiring into the search is exercised by repetition, seeds and superseding searches.",
    technique="Lean 4 proof (simulation congruence for alpha-beta/quiescence; C05/C07/C08 for seed independence and fork isolation) + differential repetition / seeds / concurrency / gated isolation",
    rule="16 det scripts x 4 engine kinds (10 searches each) + 12 isolation scenarios (gate 30-330, hash 0/1) + 6 noise scripts; non-trivial = distinct script",
    partial=["noise reproducibility (no noise in the model), concurrent use of several engines, and the searches of the historical wirings: streams and race detector only",
             "hash seed with a table on each side: seed_independent_with_tables gives equal root scores (C11.transparent_on on both sides + table-free seed independence; its hypotheses are the conjunction of C11's region hypotheses and seed_independent's, each instantiated on chess separately, not jointly); node counts / PVs across seeds with a table are not claimed (slot collisions differ)"
             "stated as a theorem; node counts / PVs across seeds with a table are not claimed (slot collisions differ)",
             "repeatable / repeatable_after / analyze_pure restate that the model is a pure function: the content is in function_of_game*, seed_independent*, state_irrelevant, analysis_isolated, analysis_sees_the_game"],
    modelled=["engine/engine.go Analyze (fork), board.Fork, search (pure model)", "engine/engine.go SetDepth / SetHash / SetNoise / Reset / Move / TakeBack / Analyze / Halt: options, table, noise, search counter, active flag -> Model/EngineCfg.lean"],
)

PROPS["C20"] = dict(
    modules=["Morlock.Props.C20", "Morlock.Props.C20Bernstein", "Morlock.Props.C20Sargon", "Morlock.Props.C20Turochamp", "Morlock.Props.C20TurochampFlt",
             "Morlock.Props.C20Books", "Morlock.Props.Flt", "Morlock.Props.GenTieEngines", "Morlock.Props.GenTieTurochamp", "Morlock.Props.C06", "Morlock.Props.C01",
             "Morlock.Props.Audit.C20TuroA", "Morlock.Props.Audit.C20TuroC", "Morlock.Props.Audit.C20TuroE", "Morlock.Props.Audit.C20MirrorI",
             "Morlock.Props.Audit.C20Bsb1", "Morlock.Props.Audit.C20Bsb2", "Morlock.Props.Audit.C20Bsb3", "Morlock.Props.Audit.C20Bsb6", "Morlock.Props.Audit.C20Bsb7", "Morlock.Props.C20TuroMirror", "Morlock.Props.C20Xray"],
    streams=["c20", "flt", "bernstein", "sargon", "turochamp", "books"],
    level_text="Lean theorems. Rules: the colour mirror is an involution and commutes with attacks, check, pseudo-legal and legal move generation, making a move and perft on every position "
               "with at most one king per side (C20.*_mirror; the hypothesis is shown necessary), lifted to the bitboard generator (model_legalMoves_mirror). Floating point: Model.Flt is an exact "
               "rational model of IEEE binary32/64 round-to-nearest-even arithmetic; Props.Flt proves that rnd returns a nearest representable number (ties to even), is monotone, odd, exact on "
               "representable values, finite below 2^emax, that bit patterns are injective, that sqrt is correctly rounded and monotone. Generic material: equals the reference balance and is "
               "colour-blind. BERNSTEIN (eval.go, exchange.go, search.go transcribed function by function): Evaluate >= 1 always, every term bounded, Eval.Evaluate is a finite float32 for every "
               "represented position with both kings and 0 <= factor <= 10^4 with NO floating-point hypothesis left (eval_total_closed), it panics exactly when a side has no king; "
               "on every well-formed position (WF) FindPlausibleMoves returns only legal non-under-promotion moves, each once, non-empty whenever a legal move exists, a permutation of them when castling is not possible; the "
               "truncated table is a prefix within the limit and non-empty; FindCapture = exactly the attackers of the square by the reference, each once; Eval.Evaluate is colour-blind on every "
               "well-formed position, also with an e.p. target (eval_mirror; the opponent's Mobility then counts phantom e.p. captures - opponent_mobility_phantoms - which mirror pawn by pawn). "
               "SARGON (eval.go, exchange.go, search.go, pkg/eval/pins.go transcribed): Points.Evaluate is total with explicit bounds on every represented position, every loop terminates within "
               "its fuel, no index error; FindPins returns exactly the pins of the reference ray geometry; FindAttackers is sound (direct attackers complete); the per-search reference values "
               "are isolated per board (root_after_reset_other: the repaired 353417e behaviour); the under-promotion filter is C20.pick. Books: engine.NewBook, for EVERY list of lines, either fails "
               "or returns a book in which every reply is a legal move (also of the reference) of a position reachable from the start whose stripped FEN is the key (newBook_sound, newBook_rejects); "
               "the extracted BERNSTEIN lines build successfully; the SARGON book has 21 entries (sargon_book_complete) and every reply equals - in origin, destination and promotion, the fields the "
               "hand-built literals carry - a legal move of the position it is keyed on (sargon_book_legal); Find depends only on the first four FEN fields. "
               "TUROCHAMP (eval.go, quiescence.go transcribed): material >= 1/2 so no zero divisor; Material.Evaluate, PositionPlay (for EVERY iteration order of its Go map) and Eval.Evaluate are "
               "finite with explicit bounds on every well-formed position, for EVERY iteration order of both maps (positionPlay_finite, Audit.C20TuroE.evaluateCoreOrd_finite; no floating-point "
               "hypothesis left); the considerable moves are a duplicate-free sublist of the legal moves (considerable_sound, _nodup, _total); positionPlay_order_dependent: PositionPlay itself "
               "depends on the map order by one ulp (kernel-evaluated witness, also observed on the real code), but Eval.Evaluate - which rounds it to two decimals - returns the SAME float32 "
               "for every two orders (evaluate_order_independent, by error analysis: every summation order stays within 2^-10 of the exact multiple of 1/10; needs Sane: at most 16 men a side, pawns "
               "on ranks 2-7 - every position reachable in play); the whole evaluation is colour-blind, for all orders, on Sane positions without check and without an e.p. target "
               "(evaluate_mirror_quiet; mobility_mirror, mirrorGap_closed), and with a check / e.p. target up to MirrorGap for the side NOT to move (evaluate_mirror_mover; instantiated with an e.p. "
               "target in Audit.C20TuroA). Constants of all three engines are regenerated "
               "from the source (Gen/Engines.lean) and re-proved equal to the models' (GenTieEngines, GenTieTurochamp). "
               "Tie: bit-for-bit float arithmetic (flt), all components of both evaluations, plausible tables, pins, attacker stacks, exchange values, complete book contents (bernstein, sargon, books "
               "turochamp streams: impl = model exactly; pins, direct attackers, control / king-defence / material / attackers / safety and the filter properties also against the reference), "
               "mirror symmetry and legality oracles on generated histories (c20).",
    level_note="Trusted: Lean kernel; Model.Flt tied bit-for-bit to Go's float32/float64 (+,-,*,/,sqrt,conversions, math.Round) on the operands of every run; Model.Bernstein / Model.Sargon / Model.EvalPins / "
               "Model.EvalCapture / Model.Book tied by exact comparison of every intermediate component; book data regenerated from the source (Gen/Books.lean). SARGON is not colour-blind "
               "(points_not_colour_blind, kernel-checked witness) - the property does not claim it. sort.Slice above 12 elements (unstable) is not modelled: those ops compare values only.",
    technique="Lean 4 proof (exact IEEE rounding model; function-by-function transcriptions of BERNSTEIN, SARGON, pins/captures, opening books; mirror symmetry of the rules) + exact differential "
              "correspondence of every intermediate component + mirror/legality oracles",
    rule="c20: 150/6000 positions with histories + curated squeezed positions (mirror, finiteness, filter legality, book walk); flt: 4.6k/400k float operations incl. every sqrt the evaluators can ask for; "
         "bernstein: ~950/20k evaluations+tables on curated and random positions with histories; sargon: ~290/12k evaluations with all components; turochamp: ~390/9k evaluations with all components and considerable lists; books: ~1.1k/25k book constructions and lookups; "
         "non-trivial = distinct script / operation",
    partial=["TUROCHAMP colour-blindness is proved for every well-formed Sane position, also with a check or an e.p. target (C20TuroMirror.evaluate_mirror: the mirror is proved on the bitboards, because for the side not to move the code generates phantom e.p. captures that no reference position describes - obs_phantom_mate shows one changing the evaluation); order independence is proved for Sane positions (not for decodable positions with 17+ men a side or back-rank pawns)"
             "order independence is proved for Sane positions (not for decodable positions with 17+ men a side or back-rank pawns)",
             "BERNSTEIN finiteness is proved for every factor an int32 - in fact |factor| <= 2^52 - can hold (C20Xray.eval_total_wide, factor_int32; ratio_total_int64: no float32 overflow, NaN or zero divisor for any int64 score)",
             "SARGON's model carries exact integers where Go carries float32: that they coincide (all values below 2^23) is a numeral fact plus the stream, not a theorem about Flt operations",
             "SARGON FindAttackers: the whole stack behind every attacker equals a reference written on the mailbox board (C20Xray.findAttackers_stacks_eq_spec: own side only, queen or the line's slider, never a pawn or king, in order of distance, a pinned man ends the stack)",
             "Go's unstable sort.Slice above 12 elements not modelled (values compared, no difference ever observed)"],
    modelled=["cmd/bernstein/bernstein/{eval,exchange,search}.go -> Model.Bernstein; pkg/eval/capture.go -> Model.EvalCapture; cmd/sargon/sargon/{eval,exchange,search}.go -> Model.Sargon; "
              "pkg/eval/pins.go -> Model.EvalPins; cmd/turochamp/turochamp/{eval,quiescence}.go -> Model.Turochamp; pkg/engine/book.go, cmd/*/book.go, fen.Strip -> Model.Book (+ Gen.Books); eval/eval.go Material -> Model (materialPawns); float32/float64 -> Model.Flt"],
)


PROPS["C17"]["extra"] = [race_step(dict(
    quick=["ttstress 65536 4 3 2 20000 $SEED", "ttstress 1024 5 2 4 20000 $SEED", "resetrace 12 1"],
    thorough=["ttstress 65536 4 3 2 200000 $SEED", "ttstress 1024 6 4 4 200000 $SEED", "ttstress 64 8 4 2 200000 $SEED", "ttstress 4096 6 3 200 200000 $SEED", "resetrace 60 1", "resetrace 40 2"]))]
PROPS["C16"]["extra"] = [race_step(dict(
    quick=["noiserace 15 10", "supersede sargon 30 2 e2e4 e7e5"],
    thorough=["supersede sargon 200 2 e2e4 e7e5", "supersede turochamp 60 1 e2e4 e7e5", "supersede bernstein 60 2 d2d4 d7d5",
              "uci plain 0 ; gate 200 ;; > position startpos ;; > go depth 4 ;; wait-parked ;; slow 200 ;; > position startpos moves e2e4 ;; > go depth 2 ;; sleep 20 ;; release ;; wait-bestmove 20000 ;; quiet 1500 ;; sync",
              "uci morlock 0 ; slow 50 ;; > position startpos ;; > go infinite ;; sleep 200 ;; > stop ;; wait-bestmove 20000 ;; > position startpos moves e2e4 ;; > go depth 3 ;; wait-bestmove 20000 ;; > quit ;; wait-closed",
              "uci sargon 0 ; slow 50 ;; > position startpos moves e2e4 e7e5 ;; > go depth 2 ;; sleep 30 ;; > go depth 1 ;; wait-bestmove 30000 ;; close ;; wait-closed"]))]
PROPS["C18"]["extra"] = [race_step(dict(
    quick=["supersede sargon 40 2 e2e4 e7e5", "noiserace 25 10"],
    thorough=["isolate sargon 150 1 rnbqkbnr/pppppppp/8/8/8/8/PPPPPPPP/RNBQKBNR w KQkq - 0 1 ; m:e2e4 m:e7e5 ; g1f3",
              "isolate turochamp 200 0 r3k2r/p1ppqpb1/bn2pnp1/3PN3/1p2P3/2N2Q1p/PPPBBPPP/R3K2R w KQkq - 0 1 ;  ; e1g1",
              "det sargon 2 rnbqkbnr/pppppppp/8/8/8/8/PPPPPPPP/RNBQKBNR w KQkq - 0 1 ; m:d2d4 m:d7d5",
              "supersede sargon 300 2 e2e4 e7e5", "supersede turochamp 100 1 e2e4 e7e5", "supersede bernstein 100 2 d2d4 d7d5", "noiserace 200 10"]))]
CUSTOM_REPLAY["C17"] = _replay_race
CUSTOM_REPLAY["C16"] = _replay_race
CUSTOM_REPLAY["C18"] = _replay_race
