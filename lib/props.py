"""Per-property configuration of ./check (which Lean modules hold the theorems, which harness
streams tie the model to the code, what counts as a non-trivial case)."""

PROPS = {}
NOT_APPLICABLE = {}
HOOK_COMMITS = []


def replay_custom(prop, witness, ctx):
    fn = CUSTOM_REPLAY.get(prop)
    if fn is None:
        print("no custom replay for", prop)
        return 1
    return fn(witness, ctx)


CUSTOM_REPLAY = {}

PROPS["C09"] = dict(
    level_text="Lean theorems over the transcription of score.go: Less is exactly the order of an Int rank embedding of the documented chain "
               "(hence irreflexive, transitive, total), Negate is an involution and order-reversing, IncrementMateDistance is strictly monotone, "
               "Max/Min agree - for all scores, not a sample. The transcription is tied to the code by an exhaustive-in-mates differential run on every check.",
    level_note="Trusted: Lean kernel (axioms propext, Classical.choice, Quot.sound at most), the hand transcription Morlock.Model.Score "
               "(checked against the implementation on ~5.5e5 ops per run), float32 order embedding; NaN excluded; int8 edge cases stated explicitly.",
    technique="Lean 4 proof (order embedding + omega) over a hand-written model, differential correspondence impl/model/spec",
    modules=["Morlock.Props.C09"],
    streams=["score"],
    rule="all ordered pairs over {256 mate bytes, +inf, -inf, invalid, ~40 float32 keys incl. ±0, subnormals, ±max, ±Inf} "
         "x {less,max,min,antitone,incmono,trichotomy} + sampled triples for transitivity; "
         "a pair is non-trivial and distinct when its two scores differ (keyed by the pair)",
    partial=["NaN is outside the property (constructible scores are finite or ±Inf floats)",
             "int8 edge: neg_antitone excludes Mate=-128, inc_mono excludes |Mate|=127 (theorem int8_edge shows why)"],
    modelled=["eval/score.go: Less, Negate, IncrementMateDistance, MateDistance, Max, Min -> Morlock.Model.Score"],
    exhaustive=True,
    assumptions=["float32 order embedding key(x) (sign-magnitude bits, ±0 -> 0) preserves <, == and unary minus on non-NaN floats"],
)

CHESS_TRUST = ["decoding of FEN text in the driver uses Model.Fen.decode (itself tied by the fen streams)"]

PROPS["C01"] = dict(
    modules=["Morlock.Props.C01", "Morlock.Props.GenTie"],
    streams=["c01"],
    level_text="Lean: the model generator (transcription of PseudoLegalMoves/Move/LegalMoves over rotated bitboards, piece lists and masks "
               "regenerated from source) is proved to be 'pseudo-legal filtered by Move' in generator order, and the enums/lists/masks it depends on are "
               "re-proved equal to the source on every run (GenTie). The equality with the FIDE set (Spec.legalMoves on a mailbox board, validated "
               "by perft against published counts) is decided by the differential stream on every position generated - that part is exploration, not proof.",
    level_note="Trusted: Lean kernel; Model.Position tied to the code by exact comparison of ordered move lists with all six fields and legality flags; "
               "Spec.Chess as the reference (perft-validated). The Perm theorem C01.Statement is not proved.",
    technique="Lean 4 model + reference semantics executed by a compiled driver; differential impl/model/spec on generated positions; perft; partial proof",
    rule="positions from the 53-FEN corpus, biased random playouts (castling/e.p./promotion/check weighted), synthetic well-formed placements incl. odd material; "
         "non-trivial = position with check, e.p. right, castling move, promotion, an illegal pseudo-legal move (pin/king walk), mate or stalemate; distinct by the 4 FEN position fields",
    partial=["C01.Statement (model legal moves ~ reference legal moves, all positions) is NOT a theorem yet: decided by impl-vs-spec comparison only"],
    modelled=["board/position.go: PseudoLegalMoves, emitMove, emitPromo, captureAt, Move, LegalMoves, IsAttackedBy, IsChecked, safeCastlingSquares -> Model.Position",
              "board/bitboard.go: attack tables and pawn boards -> Model.Attack", "board/move.go -> Model.Types"],
    trusted=CHESS_TRUST,
)

PROPS["C14"] = dict(
    modules=["Morlock.Props.C14", "Morlock.Props.GenTie"],
    streams=["fencanon", "game"],
    level_text="Lean: every finite component of the FEN codec is proved to round-trip (16 rights sets, sides, 64 squares, 12 piece letters); the placement "
               "round-trip and the reported-FEN claim are decided by differential streams: decode/encode of canonical FENs impl vs model vs an independent strict "
               "FEN reader/writer, and Engine/Board-reported FEN along game histories vs the standard clocks recomputed from the whole history (Spec.Game).",
    level_note="Trusted: Lean kernel; Model.Fen transcription tied by the fen streams; Spec.Fen / Spec.Game as reference. DecodeEncodeStatement is not yet a theorem.",
    technique="Lean 4 component round-trip lemmas (decide) + differential impl/model/spec over canonical FENs and game histories",
    rule="canonical FENs of generated positions with all 16 rights sets, e.p. on both ranks, both sides, clocks 0..10^6; game histories with castling, e.p., promotions, "
         "take-backs and forks; non-trivial = distinct (position key, clocks) / history containing a special move, draw, fork or pop",
    partial=["placement round-trip for all positions is exploration (needs Rep machinery)"],
    modelled=["board/fen/fen.go: Decode, Encode and helpers -> Model.Fen", "board/board.go clocks -> Model.Board"],
)

PROPS["C19"] = dict(
    modules=["Morlock.Props.C19"],
    streams=["fenstrings"],
    level_text="Lean: the decoders are total functions in the model (no partial definitions); the theorem placements_in_range shows every square the placement loop "
               "hands to NewPosition is < 64 and strictly decreasing (no index out of range, no duplicate), for ALL strings; the repaired overflow witness is "
               "proved rejected. Tie: grammar-based mutations, Unicode digits/letters, over-long digit runs, raw bytes run on the implementation with panics "
               "mapped to an outcome class and compared with the model; accepted FENs must re-encode to a FEN decoding to the same position with consistent views.",
    level_note="Trusted: Lean kernel; Model.Fen tied by the fenstrings stream (outcome class + re-encoded FEN exact); Go string->rune conversion. "
               "Engine.Move acceptance (iff legal) is covered under C10/C01 streams.",
    technique="Lean 4 totality-by-construction + range theorem over all strings; differential fuzzing impl vs model",
    rule="valid FEN x {token deletion/duplication/swap, digit inflation 0/9, long digit runs, Unicode digits & letters, NUL/tab/NBSP, field count changes, huge/negative/signed clocks} "
         "+ raw bytes + move/square strings; non-trivial = accepted, or longer than 10 runes; distinct by rune sequence",
    partial=["'well-formed value' is read as: non-nil, all views agree, re-encoding decodes to the same position; chess-level plausibility (kings, e.p. pawn) is not demanded of a FEN decoder"],
    modelled=["board/fen/fen.go Decode; board/move.go ParseMove; board/square.go ParseSquare(Str), ParseFile, ParseRank -> Model.Fen"],
)

PROPS["C06"] = dict(
    modules=["Morlock.Props.C06", "Morlock.Props.GenTie"],
    streams=["c06", "playq"],
    level_text="Lean theorems (full, no enumeration of boards): for every square and EVERY occupancy < 2^64 the rook/bishop/queen attackboards computed through the "
               "rotated bitboards and the generated index tables equal the ray sets of the reference geometry (first blocker included); king, knight and pawn "
               "boards equal their step sets; NewRotatedBitboard establishes and Xor preserves the rotation invariant (tables proved injective). The table "
               "constants are read from Morlock.Gen (regenerated from bitboard.go on every run) inside kernel-evaluated facts, so a changed constant re-opens "
               "the proof. Derived queries (IsAttacked/IsChecked/IsCheckMate/FindCapture/FindPins) are decided by the differential stream (exploration).",
    level_note="Trusted: Lean kernel (decide +kernel for the 64-square geometric side conditions); Model.Attack transcription of the init loops tied by an exhaustive "
               "run over all 64 x 256 line states per line through the exported API; Spec.Chess ray geometry.",
    technique="Lean 4 proof: lock-step induction scan loop vs reference ray + kernel-decided table facts; exhaustive differential over line states",
    rule="exhaustive: 64 squares x 256 states of the rank, file and both diagonals (+ queen on rank|file), all squares for K/N/P; random full occupancies; derived queries on generated positions; "
         "non-trivial = (square, line state) pair / position with check, pin, e.p., castling or promotion; distinct by (sq,state) or position key",
    partial=["derived queries (isAttacked, isChecked, isCheckMate, findCapture, findPins) are compared impl vs model vs spec on generated positions, not yet theorems"],
    modelled=["board/bitboard.go: init loops of king, knight, rookrank, rookfile, bishopL, bishopR; Rook/Bishop/Queen/King/KnightAttackboard, Attackboard, "
              "RotatedBitboard.Xor, NewRotatedBitboard, PawnCaptureboard -> Model.Attack; the seven index tables -> Gen.Tables (generated)"],
    exhaustive=True,
)
