#!/usr/bin/env python3
"""Regenerates MANIFEST.json from lib/props.py (so that the manifest never drifts from the checks)."""
import json, os, sys
ROOT = os.path.dirname(os.path.dirname(os.path.abspath(__file__)))
sys.path.insert(0, os.path.join(ROOT, "lib"))
import props

ALL = ["C%02d" % i for i in range(1, 21)]
checks = []
for pid in ALL:
    if pid not in props.PROPS:
        continue
    c = props.PROPS[pid]
    checks.append(dict(
        property_id=pid,
        quick_cmd=f"./check {pid} --tier quick",
        thorough_cmd=f"./check {pid} --tier thorough",
        evidence_file=f"/verif/evidence/{pid}.json",
        replay_cmd_template=f"./check {pid} --replay {{path}}",
        engine="lean4+harness",
        level_claimed=dict(category="proof", text=c["level_text"], design_ref=c.get("design_ref", "DESIGN.md section 6, " + pid)),
        level_note=c["level_note"],
        technique=c["technique"],
    ))
na = [dict(property_id=p, reason=props.NOT_APPLICABLE.get(p, "check not built yet in this round; see DESIGN.md section 6 for the planned model and theorems"))
      for p in ALL if p not in props.PROPS]
m = dict(
    version=1,
    setup_cmd="./check --setup",
    hooks=dict(guard="verif", enable="go build -tags verif (harness go.mod: replace github.com/herohde/morlock => /repo)",
               baseline_off_cmd="cd /repo && GOFLAGS=-mod=mod GOPROXY=off GOSUMDB=off GOTOOLCHAIN=local go test -vet=off -count=1 ./...",
               source_commits=props.HOOK_COMMITS, add_only=True),
    engines=[dict(name="lean4+harness", path="/verif/check", serves_properties=[c["property_id"] for c in checks],
                  kind_free_text="Lean 4 theorems about a hand-written model (lean/Morlock) + Go harness / compiled Lean driver correspondence (impl vs model vs spec) + go/ast extractor for generated facts")],
    checks=checks,
    notes="Every check: regenerate Morlock/Gen from /repo, lake build the property theorems, #print axioms audit, rebuild harness from /repo working tree, impl-vs-model-vs-spec streams. See DESIGN.md.",
    not_applicable=na,
)
json.dump(m, open(os.path.join(ROOT, "MANIFEST.json"), "w"), indent=1)
print("MANIFEST.json:", len(checks), "checks,", len(na), "not applicable")
