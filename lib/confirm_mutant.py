#!/usr/bin/env python3
"""Confirm a seeded change in a scratch worktree of /repo and store it under /verif/seeded/<name>/.

usage: confirm_mutant.py <agent-out-dir e.g. /tmp/mut/out/C07/m1> <name e.g. C07-m1> <property> [detected-by ...]
Checks: (1) demo passes on the unchanged tree, (2) with the patch the repository builds and its whole test
suite passes, (3) with the patch the demo fails. Then copies patch.diff, demo/, README.md and writes meta.json.
"""
import json, os, re, shutil, subprocess, sys, glob

src, name, prop = sys.argv[1], sys.argv[2], sys.argv[3]
detected = sys.argv[4:]
WT = "/tmp/confirm_wt"
ENV = dict(os.environ, GOFLAGS="-mod=mod", GOPROXY="off", GOSUMDB="off", GOTOOLCHAIN="local")

def sh(cmd, cwd=None):
    r = subprocess.run(cmd, shell=True, cwd=cwd, env=ENV, stdout=subprocess.PIPE, stderr=subprocess.STDOUT, text=True)
    return r.returncode, r.stdout

sh(f"git -C /repo worktree remove --force {WT}")
BASE = os.environ.get("CONFIRM_BASE", "HEAD")
rc, out = sh(f"git -C /repo worktree add -q --detach {WT} {BASE}")
assert rc == 0, out
try:
    demos = sorted(glob.glob(os.path.join(src, "demo", "*")))
    header = "".join(open(d, errors="replace").read(600) for d in demos if d.endswith(".go"))
    m = re.search(r"((?:pkg|cmd)/[A-Za-z0-9_/]+?)/?[\s`'\")(]", header)
    pkg = m.group(1).rstrip("/")
    if pkg.endswith(".go"):
        pkg = os.path.dirname(pkg)
    pkg = re.sub(r"/[^/]*_test$", "", pkg)
    run = re.search(r"-run\s+'?\"?([A-Za-z0-9_|]+)", header)
    runpat = run.group(1) if run else "."
    for d in demos:
        shutil.copy(d, os.path.join(WT, pkg))
    cmd = f"go test -vet=off -count=1 -run '{runpat}' ./{pkg}/"
    rc_clean, out_clean = sh(cmd, WT)
    rc, out = sh(f"git apply {os.path.join(src, 'patch.diff')}", WT)
    assert rc == 0, "patch does not apply: " + out
    rc_demo, out_demo = sh(cmd, WT)
    for d in demos:
        os.remove(os.path.join(WT, pkg, os.path.basename(d)))
    rc_suite, out_suite = sh("go build ./... && go test -vet=off -count=1 ./...", WT)
    ok = rc_clean == 0 and rc_demo != 0 and rc_suite == 0
    print(f"{name}: demo on clean tree {'PASS' if rc_clean == 0 else 'FAIL'}; with patch: suite {'PASS' if rc_suite == 0 else 'FAIL'}, demo {'FAIL' if rc_demo != 0 else 'PASS'}  => {'CONFIRMED' if ok else 'NOT CONFIRMED'}")
    if not ok:
        print(out_clean[-800:] if rc_clean else "", out_suite[-800:] if rc_suite else "")
        sys.exit(1)
    dst = os.path.join("/verif/seeded", name)
    shutil.rmtree(dst, ignore_errors=True)
    os.makedirs(dst)
    shutil.copy(os.path.join(src, "patch.diff"), dst)
    shutil.copytree(os.path.join(src, "demo"), os.path.join(dst, "demo"))
    if os.path.exists(os.path.join(src, "README.md")):
        shutil.copy(os.path.join(src, "README.md"), dst)
    readme = open(os.path.join(src, "README.md")).read() if os.path.exists(os.path.join(src, "README.md")) else ""
    needs = ""
    mm = re.search(r"(?i)(trigger|expos|circumstance)[^\n]*\n((?:.+\n){1,6})", readme)
    if mm:
        needs = (mm.group(0)).strip()[:700]
    meta = dict(property=prop, name=name, base_commit=subprocess.check_output(["git", "-C", "/repo", "rev-parse", BASE], text=True).strip(),
                what_it_needs_to_manifest=needs or "see README.md",
                confirmed=dict(worktree=WT, demo_cmd=cmd, demo_on_unchanged_tree="pass", suite_with_patch="pass (go test -vet=off -count=1 ./...)",
                               demo_with_patch="fail", demo_failure_tail=out_demo[-600:]),
                detected_by=detected, origin="independent sub-agent given only the property text and a scratch worktree")
    json.dump(meta, open(os.path.join(dst, "meta.json"), "w"), indent=1)
finally:
    sh(f"git -C /repo worktree remove --force {WT}")
