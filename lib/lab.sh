#!/bin/bash
# lab.sh <n>: (re)create an isolated copy /tmp/lab<n>/{verif,repo} of the framework and of /repo's HEAD, so that seeded
# changes can be tried without touching /repo's working tree (several labs can run side by side).
# lab.sh <n> try <patch.diff> Cxx [Cyy ...]: apply the patch in the lab's repo, run the quick checks there, undo.
set -u
n=$1; shift
LAB=/tmp/lab$n
if [ "${1:-}" != "try" ]; then
  mkdir -p $LAB
  rsync -a --delete --exclude .git --exclude .work --exclude replays --exclude evidence /verif/ $LAB/verif/
  mkdir -p $LAB/verif/evidence
  rm -rf $LAB/repo && mkdir -p $LAB/repo && git -C /repo archive HEAD | tar -x -C $LAB/repo
  (cd $LAB/repo && git init -q && git add -A >/dev/null && git -c user.email=l@l -c user.name=lab commit -qm base)
  sed -i "s|=> /repo|=> $LAB/repo|" $LAB/verif/harness/go.mod
  [ -f $LAB/verif/check.new ] && cp $LAB/verif/check.new $LAB/verif/check
  echo "lab $LAB ready"
  exit 0
fi
shift
patch=$1; shift
cd $LAB/repo || exit 2
git checkout -q -- . && git clean -fdq
git apply "$patch" || { echo "patch does not apply"; exit 2; }
rc=0
for p in "$@"; do
  (cd $LAB/verif && VERIF_REPO_DIR=$LAB/repo timeout 3000 ./check $p --tier quick 2>&1 | grep -v "^WARNING conda" | tail -4 | cut -c1-600)
done
cd $LAB/repo && git checkout -q -- . && git clean -fdq
