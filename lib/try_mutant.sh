#!/bin/bash
# usage: try_mutant.sh <patch.diff> <prop> [<prop>...]   -- apply a seeded change to /repo, run quick checks, undo
set -u
patch=$1; shift
cd /repo || exit 2
if [ -n "$(git status --porcelain)" ]; then echo "/repo not clean"; exit 2; fi
git apply "$patch" || { echo "patch does not apply"; exit 2; }
for p in "$@"; do
  # evidence written while a seeded change is applied must not replace the evidence of the unchanged tree
  cp /verif/evidence/$p.json /verif/.work/evidence_$p.bak 2>/dev/null
  (cd /verif && timeout 1500 ./check "$p" 2>&1 | grep -E '^(OK|VIOLATION|KNOWN|  witness|  broken)' | cut -c1-420)
  cp /verif/.work/evidence_$p.bak /verif/evidence/$p.json 2>/dev/null
done
git -C /repo checkout -- . && git -C /repo status --porcelain | head -3
