#!/usr/bin/env python3
"""Debug helper: compare ops/impl/model files of a stream directory the way ./check does."""
import sys, importlib.machinery, importlib.util
loader = importlib.machinery.SourceFileLoader('check', '/verif/check')
spec = importlib.util.spec_from_loader('check', loader); m = importlib.util.module_from_spec(spec); loader.exec_module(m)
d = sys.argv[1]
n = bad = 0
for op, impl, mod in zip(open(d + '/ops.txt'), open(d + '/impl.txt'), open(d + '/model.txt')):
    impl = impl.rstrip('\n'); mod = mod.rstrip('\n'); op = op.rstrip('\n')
    mm, ss = (mod.split(' ## ', 1) + [None])[:2] if ' ## ' in mod else (mod, None)
    n += 1
    if impl != mm:
        bad += 1
        if bad <= int(sys.argv[2]) if len(sys.argv) > 2 else 3:
            a, b = impl.split(' | '), mm.split(' | ')
            for i, (x, y) in enumerate(zip(a, b)):
                if x != y:
                    print('CORR line', n, 'item', i, op[:300], '\n I:', x[:400], '\n M:', y[:400]); break
            else:
                print('CORR line', n, op[:200], '\n I:', impl[:300], '\n M:', mm[:300])
    if ss is not None and not m.spec_match(impl, ss):
        bad += 1
        if bad <= (int(sys.argv[2]) if len(sys.argv) > 2 else 3):
            a, b = impl.split(' | '), ss.split(' | ')
            for i, (x, y) in enumerate(zip(a, b)):
                if not m.spec_match(x, y):
                    print('SPEC line', n, 'item', i, op[:300], '\n I:', x[:400], '\n S:', y[:400]); break
print(n, 'lines', bad, 'bad')
