#!/bin/bash
# For every "fix:" commit of /repo: apply its reverse to the working tree, run the check of the property it repaired,
# undo. Shows (a) the defect was genuine: a concrete witness against the pre-fix code, (b) the check would flag its return.
cd /verif
out=/verif/seeded/reverted_fixes.txt
: > $out
while read hash prop; do
  mkdir -p /verif/seeded/revert-$hash
  git -C /repo show -R --format= $hash > /verif/seeded/revert-$hash/patch.diff
  subject=$(git -C /repo log -1 --format=%s $hash)
  if ! git -C /repo apply --check /verif/seeded/revert-$hash/patch.diff 2>/dev/null; then
    echo "$hash $prop NOT-APPLICABLE-ON-HEAD (later fixes build on it) | $subject" >> $out; continue
  fi
  res=$(lib/try_mutant.sh /verif/seeded/revert-$hash/patch.diff $prop 2>&1 | grep -E '^(OK|VIOLATION|  witness|  broken)' | cut -c1-260 | tr '\n' ' ')
  echo "$hash $prop | $subject | $res" >> $out
  printf '{"property": "%s", "name": "revert-%s", "what": "reverse of fix commit %s (%s)", "detected_by": ["./check %s --tier quick"], "result": %s}\n' "$prop" "$hash" "$hash" "$(echo $subject | sed 's/"/\\"/g')" "$prop" "$(echo "$res" | python3 -c 'import json,sys; print(json.dumps(sys.stdin.read()[:400]))')" > /verif/seeded/revert-$hash/meta.json
done <<LIST
bbd0fb5 C09
ee04b90 C07
82ca7b0 C05
e47b51d C05
3f3721f C05
f4dcf37 C04
ffcd96b C02
7663ba5 C19
4f72ff3 C17
9c6bd39 C13
97e1e6c C11
6c5957c C12
2c3c835 C04
5f47bbe C10
27f76a8 C03
0b7e633 C12
710b449 C16
5bfb061 C16
6d58cbe C16
c3c72e1 C10
LIST
git -C /repo status --porcelain | head -3
echo DONE >> $out
