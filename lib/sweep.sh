#!/bin/bash
# sweep.sh <tier> <seed>... : every check on the unchanged tree for several seeds; prints non-OK lines
cd /verif; tier=$1; shift
for s in "$@"; do for p in $(python3 -c "import json;print(' '.join(c['property_id'] for c in json.load(open('MANIFEST.json'))['checks']))"); do
  r=$(VERIF_SEED=$s timeout 7200 ./check $p --tier $tier 2>&1 | tail -2 | tr '\n' ' ' | cut -c1-400)
  echo "seed=$s $r"
done; done
