-- PROBE (round 0, not wired to any check): Nat.testBit lemmas needed for the rotated-bitboard invariant.
theorem lineState_bit (occ r i : Nat) :
    ((occ >>> (8*r)) &&& 255).testBit i = (decide (i < 8) && occ.testBit (8*r + i)) := by
  have : (255 : Nat) = 2^8 - 1 := by decide
  rw [Nat.testBit_and, Nat.testBit_shiftRight, this, Nat.testBit_two_pow_sub_one]
  cases h : decide (i < 8) <;> simp

-- xor with a single bit flips exactly that bit
theorem xor_bit (a k j : Nat) : (a ^^^ (1 <<< k)).testBit j = (a.testBit j != decide (j = k)) := by
  rw [Nat.testBit_xor, Nat.one_shiftLeft, Nat.testBit_two_pow]
  cases a.testBit j <;> by_cases h : k = j <;> simp [h, eq_comm]

-- RotInv is preserved by Xor for an injective table
def RotInv (tbl : Nat → Nat) (rot rotX : Nat) : Prop :=
  ∀ sq, sq < 64 → rotX.testBit (tbl sq) = rot.testBit sq

theorem rotInv_xor (tbl : Nat → Nat) (hinj : ∀ a b, a < 64 → b < 64 → tbl a = tbl b → a = b)
    (rot rotX sq : Nat) (hsq : sq < 64) (h : RotInv tbl rot rotX) :
    RotInv tbl (rot ^^^ (1 <<< sq)) (rotX ^^^ (1 <<< tbl sq)) := by
  intro s hs
  rw [xor_bit, xor_bit, h s hs]
  congr 1
  by_cases e : s = sq
  · simp [e]
  · have : tbl s ≠ tbl sq := fun c => e (hinj _ _ hs hsq c)
    simp [e, this]
