-- PROBE (round 0, not wired to any check): fail-hard alpha-beta with a transformed child window
-- satisfies the Clip contract at every depth and window (abstract game, rank-space reasoning).
-- feasibility probe: fail-hard alpha-beta with transformed child window satisfies the Clip contract
namespace AB

structure Alg (S P : Type) where
  lt : S → S → Bool
  beq : S → S → Bool
  f : S → S          -- neg ∘ incrementMateDistance
  cw : S → S         -- bound handed to the child for a parent bound
  zero : S
  kids : P → List P  -- explored legal children in search order
  drawn : P → Bool
  nomove : P → S     -- value when there is no legal move (mate / stalemate)
  leaf : P → S → S → S
  leafV : P → S

structure Emb (S : Type) (A : S → S → Bool) (E : S → S → Bool) where
  rk : S → Int
  ok : S → Prop
  lt_iff : ∀ a b, ok a → ok b → (A a b = true ↔ rk a < rk b)
  eq_iff : ∀ a b, ok a → ok b → (E a b = true ↔ rk a = rk b)

variable {S P : Type}

def abList (G : Alg S P) (rec : P → S → S → S) : List P → S → S → S
  | [], a, _ => a
  | c :: cs, a, b =>
    let r := G.f (rec c (G.cw b) (G.cw a))
    let a' := if G.lt a r then r else a
    if G.beq a' b || G.lt b a' then a' else abList G rec cs a' b

def ab (G : Alg S P) : Nat → P → S → S → S
  | 0, p, a, b => if G.drawn p then G.zero else G.leaf p a b
  | d+1, p, a, b =>
    if G.drawn p then G.zero else
    match G.kids p with
    | [] => G.nomove p
    | cs => abList G (ab G d) cs a b

/-- reference: plain negamax; `pick` = larger of two by lt -/
def maxS (G : Alg S P) (x y : S) : S := if G.lt x y then y else x

def V (G : Alg S P) : Nat → P → S
  | 0, p => if G.drawn p then G.zero else G.leafV p
  | d+1, p =>
    if G.drawn p then G.zero else
    match G.kids p with
    | [] => G.nomove p
    | c :: cs => (cs.map fun k => G.f (V G d k)).foldl (maxS G) (G.f (V G d c))

def Clip (a b v r : Int) : Prop :=
  (a < v ∧ v < b → r = v) ∧ (v ≤ a → v ≤ r ∧ r ≤ a) ∧ (b ≤ v → b ≤ r ∧ r ≤ v)

structure Hyp (G : Alg S P) (E : Emb S G.lt G.beq) : Prop where
  ok_f : ∀ s, E.ok s → E.ok (G.f s)
  ok_cw : ∀ s, E.ok s → E.ok (G.cw s)
  ok_zero : E.ok G.zero
  ok_nomove : ∀ p, E.ok (G.nomove p)
  ok_leafV : ∀ p, E.ok (G.leafV p)
  ok_leaf : ∀ p a b, E.ok a → E.ok b → E.ok (G.leaf p a b)
  anti : ∀ v w, E.ok v → E.ok w → E.rk v ≤ E.rk w → E.rk (G.f w) ≤ E.rk (G.f v)
  h1 : ∀ v a, E.ok v → E.ok a → (E.rk a < E.rk (G.f v) ↔ E.rk v < E.rk (G.cw a))
  h2 : ∀ v b, E.ok v → E.ok b → (E.rk (G.f v) < E.rk b ↔ E.rk (G.cw b) < E.rk v)
  leafClip : ∀ p a b, E.ok a → E.ok b → E.rk a < E.rk b →
    Clip (E.rk a) (E.rk b) (E.rk (G.leafV p)) (E.rk (G.leaf p a b))

variable {G : Alg S P} {E : Emb S G.lt G.beq}

theorem rk_maxS (H : Hyp G E) (x y : S) (hx : E.ok x) (hy : E.ok y) :
    E.ok (maxS G x y) ∧ E.rk (maxS G x y) = max (E.rk x) (E.rk y) := by
  unfold maxS
  by_cases h : G.lt x y = true
  · have := (E.lt_iff x y hx hy).1 h
    simp [h, hy]; omega
  · have : ¬ E.rk x < E.rk y := fun c => h ((E.lt_iff x y hx hy).2 c)
    simp [h, hx]; omega

theorem foldl_maxS (H : Hyp G E) (l : List S) (x : S) (hx : E.ok x) (hl : ∀ y ∈ l, E.ok y) :
    E.ok (l.foldl (maxS G) x) ∧
    E.rk (l.foldl (maxS G) x) = (l.map E.rk).foldl max (E.rk x) := by
  induction l generalizing x with
  | nil => simp [hx]
  | cons y ys ih =>
    have hy := hl y (by simp)
    have := rk_maxS H x y hx hy
    have ih' := ih (maxS G x y) this.1 (fun z hz => hl z (by simp [hz]))
    simp [List.foldl, this.2] at ih' ⊢
    exact ih'

theorem V_ok (H : Hyp G E) : ∀ d p, E.ok (V G d p) := by
  intro d
  induction d with
  | zero => intro p; unfold V; split <;> simp [H.ok_zero, H.ok_leafV]
  | succ d ih =>
    intro p; unfold V
    split
    · exact H.ok_zero
    · split
      · exact H.ok_nomove p
      · rename_i c cs _
        exact (foldl_maxS H _ _ (H.ok_f _ (ih c)) (by
          intro y hy; simp at hy; obtain ⟨k, _, rfl⟩ := hy; exact H.ok_f _ (ih k))).1


theorem fm_ge (l : List Int) (x : Int) : x ≤ l.foldl max x := by
  induction l generalizing x with
  | nil => simp
  | cons y ys ih => simp only [List.foldl]; have := ih (max x y); omega

theorem fm_mono (l : List Int) (x y : Int) (h : x ≤ y) : l.foldl max x ≤ l.foldl max y := by
  induction l generalizing x y with
  | nil => simpa
  | cons z zs ih => simp only [List.foldl]; exact ih _ _ (by omega)

/-- loop invariant of the move loop, in rank space -/
theorem abList_inv (H : Hyp G E) (rec : P → S → S → S) (v : P → S)
    (hv : ∀ c, E.ok (v c))
    (hrec_ok : ∀ c a b, E.ok a → E.ok b → E.rk a < E.rk b → E.ok (rec c a b))
    (hrec : ∀ c a b, E.ok a → E.ok b → E.rk a < E.rk b →
      Clip (E.rk a) (E.rk b) (E.rk (v c)) (E.rk (rec c a b))) :
    ∀ (cs : List P) (a b : S), E.ok a → E.ok b → E.rk a < E.rk b →
      let M := (cs.map fun c => E.rk (G.f (v c))).foldl max (E.rk a)
      let r := abList G rec cs a b
      E.ok r ∧ (M < E.rk b → E.rk r = M) ∧ (E.rk b ≤ M → E.rk b ≤ E.rk r ∧ E.rk r ≤ M) := by
  intro cs
  induction cs with
  | nil => intro a b ha hb hab; simp [abList, ha]
  | cons c cs ih =>
    intro a b ha hb hab
    simp only [abList, List.map, List.foldl]
    -- child window
    have hcb := H.ok_cw b hb
    have hca := H.ok_cw a ha
    -- cw b < cw a : from h1/h2 at v := cw a
    have hwin : E.rk (G.cw b) < E.rk (G.cw a) := by
      have e1 := H.h1 (G.cw a) a hca ha
      have e2 := H.h2 (G.cw a) b hca hb
      -- ¬ a < f (cw a)  →  f (cw a) ≤ a < b → f (cw a) < b → cw b < cw a
      have : ¬ E.rk a < E.rk (G.f (G.cw a)) := fun c => by have := e1.1 c; omega
      exact e2.1 (by omega)
    have hclip := hrec c (G.cw b) (G.cw a) hcb hca hwin
    have hr_ok := hrec_ok c (G.cw b) (G.cw a) hcb hca hwin
    have hfr_ok := H.ok_f _ hr_ok
    have hvc := hv c
    have hfv_ok := H.ok_f _ hvc
    -- facts in rank space
    have k1 := H.h1 (v c) a hvc ha
    have k2 := H.h2 (v c) b hvc hb
    have k1r := H.h1 (rec c (G.cw b) (G.cw a)) a hr_ok ha
    have k2r := H.h2 (rec c (G.cw b) (G.cw a)) b hr_ok hb
    have an1 := H.anti (v c) (rec c (G.cw b) (G.cw a)) hvc hr_ok
    have an2 := H.anti (rec c (G.cw b) (G.cw a)) (v c) hr_ok hvc
    obtain ⟨c1, c2, c3⟩ := hclip
    -- r_c versus true child contribution vc
    have key : (E.rk a < E.rk (G.f (v c)) ∧ E.rk (G.f (v c)) < E.rk b →
                  E.rk (G.f (rec c (G.cw b) (G.cw a))) = E.rk (G.f (v c))) ∧
               (E.rk (G.f (v c)) ≤ E.rk a → E.rk (G.f (rec c (G.cw b) (G.cw a))) ≤ E.rk a) ∧
               (E.rk b ≤ E.rk (G.f (v c)) →
                  E.rk b ≤ E.rk (G.f (rec c (G.cw b) (G.cw a))) ∧
                  E.rk (G.f (rec c (G.cw b) (G.cw a))) ≤ E.rk (G.f (v c))) := by
      refine ⟨?_, ?_, ?_⟩
      · intro ⟨h1, h2⟩
        have := c1 ⟨k2.1 h2, k1.1 h1⟩
        have e1 := an1 (by omega); have e2 := an2 (by omega); omega
      · intro h
        have hge : E.rk (G.cw a) ≤ E.rk (v c) := by
          have : ¬ E.rk (v c) < E.rk (G.cw a) := fun c => by have := k1.2 c; omega
          omega
        have := c3 hge
        have : ¬ E.rk a < E.rk (G.f (rec c (G.cw b) (G.cw a))) := fun c => by have := k1r.1 c; omega
        omega
      · intro h
        have hle : E.rk (v c) ≤ E.rk (G.cw b) := by
          have : ¬ E.rk (G.cw b) < E.rk (v c) := fun c => by have := k2.2 c; omega
          omega
        have := c2 hle
        have e1 := an1 (by omega)
        have : ¬ E.rk (G.f (rec c (G.cw b) (G.cw a))) < E.rk b := fun c => by have := k2r.1 c; omega
        omega
    obtain ⟨q1, q2, q3⟩ := key
    -- a' := max-by-lt
    by_cases hlt : G.lt a (G.f (rec c (G.cw b) (G.cw a))) = true
    · have hlt' := (E.lt_iff _ _ ha hfr_ok).1 hlt
      simp only [hlt, if_true]
      by_cases hcut : (G.beq (G.f (rec c (G.cw b) (G.cw a))) b || G.lt b (G.f (rec c (G.cw b) (G.cw a)))) = true
      · simp only [hcut, if_true]
        have : E.rk b ≤ E.rk (G.f (rec c (G.cw b) (G.cw a))) := by
          simp only [Bool.or_eq_true] at hcut
          rcases hcut with h | h
          · have := (E.eq_iff _ _ hfr_ok hb).1 h; omega
          · have := (E.lt_iff _ _ hb hfr_ok).1 h; omega
        refine ⟨hfr_ok, ?_, ?_⟩
        · intro hM
          have := fm_ge (cs.map fun c => E.rk (G.f (v c))) (max (E.rk a) (E.rk (G.f (v c))))
          omega
        · intro hM
          have := fm_ge (cs.map fun c => E.rk (G.f (v c))) (max (E.rk a) (E.rk (G.f (v c))))
          omega
      · have hncut : E.rk (G.f (rec c (G.cw b) (G.cw a))) < E.rk b := by
          simp only [Bool.or_eq_true, not_or] at hcut
          have h1 : ¬ E.rk (G.f (rec c (G.cw b) (G.cw a))) = E.rk b := fun c => hcut.1 ((E.eq_iff _ _ hfr_ok hb).2 c)
          have h2 : ¬ E.rk b < E.rk (G.f (rec c (G.cw b) (G.cw a))) := fun c => hcut.2 ((E.lt_iff _ _ hb hfr_ok).2 c)
          omega
        have hcut' : (G.beq (G.f (rec c (G.cw b) (G.cw a))) b || G.lt b (G.f (rec c (G.cw b) (G.cw a)))) = false := by
          simpa using hcut
        simp only [hcut', Bool.false_eq_true, if_false]
        have hmax : max (E.rk a) (E.rk (G.f (v c))) = E.rk (G.f (rec c (G.cw b) (G.cw a))) := by omega
        have := ih (G.f (rec c (G.cw b) (G.cw a))) b hfr_ok hb hncut
        rw [hmax]
        exact this
    · have hnlt : ¬ E.rk a < E.rk (G.f (rec c (G.cw b) (G.cw a))) := fun c => hlt ((E.lt_iff _ _ ha hfr_ok).2 c)
      have hlt' : G.lt a (G.f (rec c (G.cw b) (G.cw a))) = false := by simpa using hlt
      simp only [hlt', Bool.false_eq_true, if_false]
      have hcut' : (G.beq a b || G.lt b a) = false := by
        apply Bool.eq_false_iff.2
        intro h
        simp only [Bool.or_eq_true] at h
        rcases h with h | h
        · have := (E.eq_iff _ _ ha hb).1 h; omega
        · have := (E.lt_iff _ _ hb ha).1 h; omega
      simp only [hcut', Bool.false_eq_true, if_false]
      have hmax : max (E.rk a) (E.rk (G.f (v c))) = E.rk a := by omega
      have := ih a b ha hb hab
      rw [hmax]
      exact this

theorem foldl_max_clip (l : List Int) (x a : Int) :
    l.foldl max (max a x) = max a (l.foldl max x) := by
  induction l generalizing x with
  | nil => simp
  | cons y ys ih => simp only [List.foldl]; rw [← ih]; congr 1; omega

/-- C13 for the abstract algorithm: every depth, every window. -/
theorem ab_clip (H : Hyp G E) : ∀ d p a b, E.ok a → E.ok b → E.rk a < E.rk b →
    E.ok (ab G d p a b) ∧ Clip (E.rk a) (E.rk b) (E.rk (V G d p)) (E.rk (ab G d p a b)) := by
  intro d
  induction d with
  | zero =>
    intro p a b ha hb hab
    by_cases hd : G.drawn p = true
    · simp only [ab, V, hd, if_true]
      exact ⟨H.ok_zero, by unfold Clip; omega⟩
    · simp only [ab, V, hd, Bool.false_eq_true, if_false]
      exact ⟨H.ok_leaf p a b ha hb, H.leafClip p a b ha hb hab⟩
  | succ d ih =>
    intro p a b ha hb hab
    by_cases hd : G.drawn p = true
    · simp only [ab, V, hd, if_true]
      exact ⟨H.ok_zero, by unfold Clip; omega⟩
    · simp only [ab, V, hd, Bool.false_eq_true, if_false]
      cases hk : G.kids p with
      | nil => dsimp only; exact ⟨H.ok_nomove p, by unfold Clip; omega⟩
      | cons c cs =>
        dsimp only
        have inv := abList_inv H (ab G d) (V G d) (V_ok H d)
          (fun c a b ha hb hab => (ih c a b ha hb hab).1)
          (fun c a b ha hb hab => (ih c a b ha hb hab).2) (c :: cs) a b ha hb hab
        simp only [List.map, List.foldl] at inv
        obtain ⟨iok, i1, i2⟩ := inv
        refine ⟨iok, ?_⟩
        -- rank of the reference value
        have hV := (foldl_maxS H (cs.map fun k => G.f (V G d k)) (G.f (V G d c)) (H.ok_f _ (V_ok H d c))
          (by intro y hy; simp at hy; obtain ⟨k, _, rfl⟩ := hy; exact H.ok_f _ (V_ok H d k))).2
        rw [List.map_map] at hV
        have hM := foldl_max_clip (cs.map fun c => E.rk (G.f (V G d c))) (E.rk (G.f (V G d c))) (E.rk a)
        have hcomp : (cs.map (E.rk ∘ fun k => G.f (V G d k))) = (cs.map fun c => E.rk (G.f (V G d c))) := rfl
        rw [hcomp] at hV
        rw [hV]
        unfold Clip
        omega

end AB
