-- PROBE (round 0, not wired to any check): representation relation between the bitboard views and a
-- mailbox board is preserved when xor places a piece on an empty square (the core step of C02).
namespace R

def bit (sq : Nat) : Nat := 1 <<< sq

theorem xor_bit (a k j : Nat) : (a ^^^ bit k).testBit j = (a.testBit j != decide (j = k)) := by
  unfold bit
  rw [Nat.testBit_xor, Nat.one_shiftLeft, Nat.testBit_two_pow]
  cases a.testBit j <;> by_cases h : k = j <;> simp [h, eq_comm]

@[simp] theorem bit_testBit (k j : Nat) : (bit k).testBit j = decide (j = k) := by
  unfold bit; rw [Nat.one_shiftLeft, Nat.testBit_two_pow]; by_cases h : k = j <;> simp [h, eq_comm]

structure Pos where
  pieces : Nat → Nat → Nat      -- colour 0/1, piece 0 (= all of that colour) .. 6
  rot : Nat

abbrev Board := Nat → Option (Nat × Nat)

def xorP (p : Pos) (sq c k : Nat) : Pos where
  rot := p.rot ^^^ bit sq
  pieces := fun c' k' =>
    if c' = c ∧ (k' = 0 ∨ k' = k) then p.pieces c' k' ^^^ bit sq else p.pieces c' k'

def colAt (b : Board) (sq c : Nat) : Bool :=
  match b sq with
  | some (c', _) => c' == c
  | none => false

structure Rep (p : Pos) (b : Board) : Prop where
  rot : ∀ sq, p.rot.testBit sq = (b sq).isSome
  all : ∀ sq c, c < 2 → (p.pieces c 0).testBit sq = colAt b sq c
  one : ∀ sq c k, c < 2 → 1 ≤ k → k ≤ 6 → (p.pieces c k).testBit sq = decide (b sq = some (c, k))
  rng : ∀ sq c k, b sq = some (c, k) → sq < 64 ∧ c < 2 ∧ 1 ≤ k ∧ k ≤ 6

def upd (b : Board) (sq : Nat) (v : Option (Nat × Nat)) : Board := fun s => if s = sq then v else b s

/-- placing a piece on an empty square by xor -/
theorem xor_place (p : Pos) (b : Board) (h : Rep p b) (sq c k : Nat)
    (hsq : sq < 64) (hc : c < 2) (hk1 : 1 ≤ k) (hk6 : k ≤ 6) (hempty : b sq = none) :
    Rep (xorP p sq c k) (upd b sq (some (c, k))) := by
  constructor
  · intro s
    simp only [xorP, xor_bit, h.rot, upd]
    by_cases e : s = sq
    · subst e; simp [hempty]
    · simp [e]
  · intro s c' hc'
    simp only [xorP]
    by_cases e : s = sq
    · subst e
      have hb : colAt b s c' = false := by simp [colAt, hempty]
      by_cases ec : c' = c
      · subst ec; simp [h.all _ _ hc', colAt, upd, hempty]
      · have : colAt (upd b s (some (c, k))) s c' = false := by
          simp [colAt, upd]; exact fun x => ec x.symm
        simp [ec, h.all _ _ hc', hb, this]
    · have : colAt (upd b sq (some (c, k))) s c' = colAt b s c' := by simp [colAt, upd, e]
      by_cases ec : c' = c
      · subst ec; simp [xor_bit, h.all _ _ hc', e, this]
      · simp [ec, h.all _ _ hc', this]
  · intro s c' k' hc' hk1' hk6'
    simp only [xorP, upd]
    have hk0 : k' ≠ 0 := by omega
    by_cases e : s = sq
    · subst e
      by_cases ec : c' = c ∧ k' = k
      · obtain ⟨rfl, rfl⟩ := ec; simp [xor_bit, h.one _ _ _ hc' hk1' hk6', hempty]
      · have : ¬ (c' = c ∧ (k' = 0 ∨ k' = k)) := by intro ⟨a, bb⟩; rcases bb with bb | bb; exact hk0 bb; exact ec ⟨a, bb⟩
        simp [this, h.one _ _ _ hc' hk1' hk6', hempty]
        intro a bb; exact ec ⟨a.symm, bb.symm⟩
    · by_cases ec : c' = c ∧ (k' = 0 ∨ k' = k)
      · have ec' := ec
        obtain ⟨rfl, _⟩ := ec'
        simp [ec, h.one _ _ _ hc' hk1' hk6', e]
      · simp [ec, h.one _ _ _ hc' hk1' hk6', e]
  · intro s c' k' hb
    simp only [upd] at hb
    by_cases e : s = sq
    · subst e; simp at hb; obtain ⟨rfl, rfl⟩ := hb; exact ⟨hsq, hc, hk1, hk6⟩
    · simp [e] at hb; exact h.rng _ _ _ hb

end R
