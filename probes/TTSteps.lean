-- PROBE (round 0, not wired to any check): small-step model of the TT's load/compare/CAS loop on one slot;
-- the slot's replacement value never decreases, for every schedule (list induction over thread ids).
namespace TT

structure Node where
  id : Nat
  val : Nat
deriving DecidableEq

inductive Pc | load | cmp | cas | done
deriving DecidableEq

structure Thread where
  pc : Pc
  fresh : Node           -- the node this Write call wants to publish
  seen : Option Node     -- value read by the last load
  ok : Bool              -- result of the call

structure State where
  slot : Option Node
  threads : List Thread

def valOf : Option Node → Nat
  | none => 0
  | some n => n.val

/-- one atomic step of thread `t` against the slot -/
def stepT (slot : Option Node) (t : Thread) : Option Node × Thread :=
  match t.pc with
  | .load => (slot, { t with seen := slot, pc := .cmp })
  | .cmp  => if valOf t.seen > t.fresh.val then (slot, { t with pc := .done, ok := false })
             else (slot, { t with pc := .cas })
  | .cas  => if slot = t.seen then (some t.fresh, { t with pc := .done, ok := true })
             else (slot, { t with seen := slot, pc := .cmp })      -- CAS failed: reload, retry
  | .done => (slot, t)

def step (s : State) (i : Nat) : State :=
  match s.threads[i]? with
  | none => s
  | some t =>
    let (slot', t') := stepT s.slot t
    { slot := slot', threads := s.threads.set i t' }

def run (s : State) (sched : List Nat) : State := sched.foldl step s

/-- a thread past `cmp` has seen a value not greater than its own -/
def ThreadInv (t : Thread) : Prop := t.pc = .cas → valOf t.seen ≤ t.fresh.val

def Inv (s : State) : Prop := ∀ t ∈ s.threads, ThreadInv t

theorem stepT_mono (slot : Option Node) (t : Thread) (h : ThreadInv t) :
    valOf slot ≤ valOf (stepT slot t).1 ∧ ThreadInv (stepT slot t).2 := by
  unfold stepT
  cases hpc : t.pc with
  | load => simp [ThreadInv]
  | cmp =>
    by_cases hv : valOf t.seen > t.fresh.val
    · simp [hv, ThreadInv]
    · simp [hv, ThreadInv]; omega
  | cas =>
    have h' := h hpc
    by_cases he : slot = t.seen
    · subst he; simp [ThreadInv, valOf] at h' ⊢; exact h'
    · simp [he, ThreadInv]
  | done => simp [ThreadInv, hpc]

theorem step_mono (s : State) (i : Nat) (h : Inv s) :
    valOf s.slot ≤ valOf (step s i).slot ∧ Inv (step s i) := by
  unfold step
  cases ht : s.threads[i]? with
  | none => exact ⟨Nat.le_refl _, h⟩
  | some t =>
    have hmem : t ∈ s.threads := List.mem_of_getElem? ht
    have := stepT_mono s.slot t (h t hmem)
    refine ⟨this.1, ?_⟩
    intro u hu
    simp only at hu
    rcases List.mem_or_eq_of_mem_set hu with hu | hu
    · exact h u hu
    · subst hu; exact this.2

/-- for every schedule, the slot's replacement value never decreases -/
theorem run_mono (sched : List Nat) (s : State) (h : Inv s) :
    valOf s.slot ≤ valOf (run s sched).slot ∧ Inv (run s sched) := by
  induction sched generalizing s with
  | nil => exact ⟨Nat.le_refl _, h⟩
  | cons i is ih =>
    have h1 := step_mono s i h
    have h2 := ih (step s i) h1.2
    exact ⟨Nat.le_trans h1.1 h2.1, h2.2⟩

end TT
