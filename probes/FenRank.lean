-- PROBE (round 0, not wired to any check): run-length encoding of one FEN rank and its decoding round-trip.
namespace F

/-- one rank, file a first; `none` = empty square, `some ch` = piece letter (never a digit) -/
abbrev Rank := List (Option Char)

def digit (n : Nat) : Char := Char.ofNat (48 + n)

/-- Encode: count blanks, flush the count before a piece and at the end -/
def encGo : Rank → Nat → List Char
  | [], blanks => if blanks > 0 then [digit blanks] else []
  | none :: rest, blanks => encGo rest (blanks + 1)
  | some ch :: rest, blanks =>
    (if blanks > 0 then [digit blanks] else []) ++ ch :: encGo rest 0

def enc (r : Rank) : List Char := encGo r 0

/-- Decode: digits skip squares, letters place a piece -/
def dec : List Char → Rank
  | [] => []
  | c :: cs =>
    if c.isDigit then List.replicate (c.toNat - 48) none ++ dec cs
    else some c :: dec cs

def NoDigit (r : Rank) : Prop := ∀ ch, some ch ∈ r → ch.isDigit = false

theorem digit_isDigit (n : Nat) (h : n ≤ 9) : (digit n).isDigit = true ∧ (digit n).toNat - 48 = n := by
  have : n = 0 ∨ n = 1 ∨ n = 2 ∨ n = 3 ∨ n = 4 ∨ n = 5 ∨ n = 6 ∨ n = 7 ∨ n = 8 ∨ n = 9 := by omega
  rcases this with h | h | h | h | h | h | h | h | h | h <;> subst h <;> decide

theorem dec_encGo (r : Rank) (blanks : Nat) (hlen : blanks + r.length ≤ 9) (hnd : NoDigit r) :
    dec (encGo r blanks) = List.replicate blanks none ++ r := by
  induction r generalizing blanks with
  | nil =>
    simp only [encGo]
    split
    · have := digit_isDigit blanks (by simp at hlen; omega)
      simp [dec, this.1, this.2]
    · have : blanks = 0 := by omega
      simp [this, dec]
  | cons x xs ih =>
    have hnd' : NoDigit xs := fun ch h => hnd ch (List.mem_cons_of_mem _ h)
    cases x with
    | none =>
      simp only [encGo]
      rw [ih (blanks + 1) (by simp at hlen ⊢; omega) hnd']
      simp [List.replicate_succ']
    | some ch =>
      have hch : ch.isDigit = false := hnd ch (by simp)
      simp only [encGo]
      have ih0 := ih 0 (by simp at hlen ⊢; omega) hnd'
      split
      · have := digit_isDigit blanks (by simp at hlen; omega)
        simp [dec, this.1, this.2, hch, ih0]
      · have : blanks = 0 := by omega
        simp [this, dec, hch, ih0]

theorem dec_enc (r : Rank) (hlen : r.length ≤ 8) (hnd : NoDigit r) : dec (enc r) = r := by
  have := dec_encGo r 0 (by omega) hnd
  simpa [enc] using this

end F
