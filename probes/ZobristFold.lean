-- PROBE (round 0, not wired to any check): Zobrist hash as a fold of xors; a one-square update changes it by old ^^^ new.
namespace Z

abbrev Board := Nat → Option (Nat × Nat)
def upd (b : Board) (sq : Nat) (v : Option (Nat × Nat)) : Board := fun s => if s = sq then v else b s

/-- key of a square's content; empty = 0 -/
def cell (key : Nat → Nat → Nat → Nat) (b : Board) (sq : Nat) : Nat :=
  match b sq with
  | some (c, k) => key c k sq
  | none => 0

def hashUpTo (key : Nat → Nat → Nat → Nat) (b : Board) : Nat → Nat
  | 0 => 0
  | n+1 => hashUpTo key b n ^^^ cell key b n

theorem hash_upd (key : Nat → Nat → Nat → Nat) (b : Board) (sq : Nat) (v : Option (Nat × Nat)) (n : Nat) :
    hashUpTo key (upd b sq v) n =
      if sq < n then hashUpTo key b n ^^^ cell key b sq ^^^ cell key (upd b sq v) sq else hashUpTo key b n := by
  induction n with
  | zero => simp [hashUpTo]
  | succ n ih =>
    simp only [hashUpTo, ih]
    by_cases h1 : sq < n
    · have : sq < n + 1 := by omega
      have hne : n ≠ sq := by omega
      have hc : cell key (upd b sq v) n = cell key b n := by simp [cell, upd, hne]
      simp only [h1, this, if_true, hc]
      ac_rfl
    · by_cases h2 : sq = n
      · subst h2
        simp only [Nat.lt_irrefl, if_false, Nat.lt_succ_self, if_true]
        -- h ^^^ cell' = h ^^^ cell ^^^ cell ^^^ cell'
        rw [Nat.xor_assoc (hashUpTo key b sq) (cell key b sq) (cell key b sq), Nat.xor_self, Nat.xor_zero]
      · have : ¬ sq < n + 1 := by omega
        have hne : n ≠ sq := fun e => h2 e.symm
        have hc : cell key (upd b sq v) n = cell key b n := by simp [cell, upd, hne]
        simp [h1, this, hc]

end Z
