-- PROBE (round 0, not wired to any check): score order via an Int rank embedding.
-- feasibility probe: Score order via rank embedding (fixed Less)
namespace P

inductive ST | invalid | heur | mate | inf | ninf
deriving DecidableEq, Repr

structure Score where
  t : ST
  mate : Int
  pawns : Int
deriving DecidableEq, Repr

def wrap8 (x : Int) : Int := (x + 128) % 256 - 128

def heur (v : Int) : Score := ⟨.heur, 0, v⟩
def mateIn (k : Int) : Score := ⟨.mate, k, 0⟩
def infS : Score := ⟨.inf, 0, 0⟩
def ninfS : Score := ⟨.ninf, 0, 0⟩
def invalidS : Score := ⟨.invalid, 0, 0⟩

def neg (s : Score) : Score :=
  match s.t with
  | .heur => heur (-s.pawns)
  | .mate => mateIn (wrap8 (-s.mate))
  | .inf => ninfS
  | .ninf => infS
  | .invalid => invalidS

/-- Less as it should be (both-negative compare reversed) -/
def less (s o : Score) : Bool :=
  if s = o || s.t = .inf || o.t = .ninf then false
  else if s.t = .ninf || o.t = .inf then true
  else match s.t, o.t with
    | .heur, .heur => s.pawns < o.pawns
    | .heur, .mate => o.mate > 0
    | .mate, .heur => s.mate < 0
    | .mate, .mate => if (s.mate < 0) != (o.mate < 0) then s.mate < o.mate else s.mate > o.mate
    | _, _ => false

def inc (s : Score) : Score :=
  match s.t with
  | .inf => mateIn 1
  | .ninf => mateIn (-1)
  | .mate => if s.mate < 0 then mateIn (wrap8 (s.mate - 1)) else mateIn (wrap8 (s.mate + 1))
  | _ => s

def Valid (s : Score) : Prop :=
  match s.t with
  | .heur => s.mate = 0 ∧ -2147483648 < s.pawns ∧ s.pawns < 2147483648
  | .mate => s.pawns = 0 ∧ s.mate ≠ 0 ∧ -128 < s.mate ∧ s.mate ≤ 127
  | .inf | .ninf => s.mate = 0 ∧ s.pawns = 0
  | .invalid => False

def rank (s : Score) : Int :=
  match s.t with
  | .ninf => -1099511627776
  | .mate => if s.mate < 0 then -34359738368 - s.mate else 34359738368 - s.mate
  | .heur => s.pawns
  | .inf => 1099511627776
  | .invalid => 0

theorem less_iff_rank (a b : Score) (ha : Valid a) (hb : Valid b) : less a b = true ↔ rank a < rank b := by
  obtain ⟨ta, ma, pa⟩ := a
  obtain ⟨tb, mb, pb⟩ := b
  cases ta <;> cases tb <;> simp [Valid] at ha hb <;> simp [less, rank] <;> (try split) <;> omega

theorem rank_neg (a : Score) (ha : Valid a) : rank (neg a) = - rank a := by
  obtain ⟨ta, ma, pa⟩ := a
  cases ta <;> simp [Valid] at ha <;> simp [neg, rank, heur, mateIn, infS, ninfS, wrap8] <;> (try split) <;> omega

-- the window used by the current code violates the hypothesis `h1` of AlphaBetaClip.lean
-- (a < f v ↔ v < cw a) as soon as a bound is a mate score:
def f (s : Score) : Score := neg (inc s)
def cwCode (s : Score) : Score := neg s
example : ¬ (rank (mateIn (-4)) < rank (f (mateIn 4)) ↔ rank (mateIn 4) < rank (cwCode (mateIn (-4)))) := by
  decide

end P
